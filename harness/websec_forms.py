"""C30 driver: binds specs/websec/Forms.tla (the encoder is the specification) to
tornado.httputil.parse_body_arguments."""
import json

from . import websec_driver as W


def _s(cps):
    return "".join(chr(c) for c in cps)


def apply_mut(body, o):
    op, i, b = o["op"], o["i"], o["b"]
    body = list(body)
    if op == "edit":
        body[i - 1] = b
        return body
    if op == "ins":
        return body[:i - 1] + [b] + body[i - 1:]
    if op == "del":
        return body[:i - 1] + body[i:]
    return body


def checksum(bs):
    acc = 7
    for x in bs:
        acc = (acc * 31 + x) % 1000003
    return acc


def real_parse(ctype, body, max_parts=None, max_hdr=None):
    """-> ("ok", fields, files) | ("HTTPInputError", msg) | ("other", class name).
    fields: {name: [bytes...]}, files: {name: [(filename, content_type, bytes)...]}"""
    from tornado import httputil
    from .httpsim import LogCapture
    kw = {}
    if max_parts is not None or max_hdr is not None:
        mp = {}
        if max_parts is not None and max_parts < 100000:
            mp["max_parts"] = max_parts
        if max_hdr is not None and max_hdr < 100000:
            mp["max_part_header_size"] = max_hdr
        kw["config"] = httputil.ParseBodyConfig(multipart=httputil.ParseMultipartConfig(**mp))
    args, files = {}, {}
    with LogCapture():
        try:
            httputil.parse_body_arguments(ctype, bytes(body), args, files, **kw)
        except httputil.HTTPInputError as e:
            return ("HTTPInputError", str(e)[:80])
        except BaseException as e:
            return ("other", type(e).__name__)
    return ("ok", args, files)


def group(pairs):
    d = {}
    for p in pairs:
        d.setdefault(_s(p[0]), []).append(p[1:])
    return d


def matches_form(obs, exp):
    """obs = real ("ok", args, files); exp = the specification's expected fields / files."""
    _, args, files = obs
    want_f = {k: [bytes(v[0]) for v in vs] for k, vs in group(exp["fields"]).items()}
    want_files = {k: [(_s(v[0]), _s(v[1]), bytes(v[2])) for v in vs] for k, vs in group(exp["files"]).items()}
    got_files = {k: [(f["filename"], f["content_type"], f["body"]) for f in vs] for k, vs in files.items()}
    return args == want_f and got_files == want_files


_CLS = {34: "dq", 92: "bs", 59: "semi", 61: "eq", 32: "sp", 13: "crlf", 10: "crlf", 37: "pct", 39: "apos", 42: "star",
        38: "amp", 43: "plus", 0: "nul"}


def char_classes(form):
    out = set()
    for p in form:
        for t in (p["name"], p["fname"]):
            for c in t:
                if c in _CLS:
                    out.add(_CLS[c])
                elif c > 127:
                    out.add("nonascii")
    return "+".join(sorted(out)) or "plain"


def replay_state(st, bases):
    sc, exp = st["sc"], st["exp"]
    mode = sc["mode"]
    if mode in ("form", "limit", "arb"):
        body = st["body"]
    elif mode == "mut":
        base = bases[json.dumps([sc["enc"], sc["form"]], sort_keys=True)]
        body = apply_mut(base, sc["mut"])
        if len(body) != exp["len"] or checksum(body) != exp["sum"]:
            raise RuntimeError("harness mutation mirror disagrees with the specification")
    else:
        return None
    ctype = _s(sc["ctype"])
    obs = real_parse(ctype, body, sc["maxParts"], sc["maxHdr"])
    v = exp["verdict"]
    ok = obs[0] == "ok"
    good = True
    if obs[0] == "other":
        good = False
        what = "unclean"
    elif v == "form":
        good = ok and matches_form(obs, exp)
        what = "lossy" if ok else "rejected"
    elif v == "error":
        good = obs[0] == "HTTPInputError"
        what = "limit-not-enforced"
    elif v == "free":
        good = (not ok) or matches_form(obs, exp)
        what = "lossy"
    else:
        what = "unclean"
    if good:
        return None
    shown = obs if not ok else ("ok", {k: [list(x) for x in v_] for k, v_ in obs[1].items()},
                                {k: [[f["filename"], f["content_type"], list(f["body"])] for f in v_] for k, v_ in obs[2].items()})
    sig = {"what": what, "enc": sc["enc"], "mode": mode, "obs": obs[0] if obs[0] != "other" else "other:" + obs[1]}
    if mode in ("form", "limit"):
        sig["chars"] = char_classes(sc["form"])
        sig["penc"] = "+".join(sorted({p["ne"] for p in sc["form"]} | {p["fe"] for p in sc["form"] if p["kind"] == "file"}))
    if mode == "limit":
        sig["limit"] = "parts" if sc["maxParts"] < 100000 else "header"
        sig["at_limit"] = sc["maxParts"] == len(sc["form"])
    return {"step": 0, "act": "parse", "args": {"ctype": ctype, "body": list(body), "maxParts": sc["maxParts"], "maxHdr": sc["maxHdr"]},
            "exp": {"verdict": v, "fields": exp["fields"], "files": exp["files"]}, "obs": shown, "sig": sig}


# ----------------------------------------------------------------------------- C2S: random forms

def _utf8(cps):
    return "".join(chr(c) for c in cps).encode("utf-8")


def _qstring(t):
    return b'"' + b"".join(b"\\" + bytes([c]) if c in (34, 92) else chr(c).encode("utf-8") for c in t) + b'"'


_ATTR = set(b"ABCDEFGHIJKLMNOPQRSTUVWXYZabcdefghijklmnopqrstuvwxyz0123456789!#$&+-.^_`|~")


def _ext(t):
    return b"utf-8''" + b"".join(bytes([b]) if b in _ATTR else b"%%%02X" % b for b in _utf8(t))


def _param(pname, t, enc):
    return pname + b"=" + _qstring(t) if enc == "q" else pname + b"*=" + _ext(t)


def encode_multipart(bd, form):
    out = b""
    for p in form:
        head = b"Content-Disposition: form-data; " + _param(b"name", p["name"], p["ne"])
        if p["kind"] == "file":
            head += b"; " + _param(b"filename", p["fname"], p["fe"])
        if p["ct"]:
            head += b"\r\nContent-Type: text/plain"
        out += b"--" + bd + b"\r\n" + head + b"\r\n\r\n" + bytes(p["data"]) + b"\r\n"
    return out + b"--" + bd + b"--\r\n"


_UNRES = set(b"ABCDEFGHIJKLMNOPQRSTUVWXYZabcdefghijklmnopqrstuvwxyz0123456789-._~")


def _urlstr(bs):
    return b"".join(bytes([b]) if b in _UNRES else (b"+" if b == 32 else b"%%%02X" % b) for b in bs)


def encode_url(form):
    return b"&".join(_urlstr(p["name"]) + b"=" + _urlstr(p["data"]) for p in form)


def random_form(args):
    import random
    tid, seed = args
    rng = random.Random(seed)
    enc = rng.choice(["mp", "mp", "url"])
    tpool = [ord(c) for c in "abcxyz019 _-.;=,'*%()[]"] + [233, 0x4e2d, 0x20ac]     # '"' and '\\' only in "quoteful" forms (F14)
    ctl = [0x7f, 9, 0x1f]                    # control characters: only representable as RFC 2231 parameters
    tpool_q = tpool + [34, 92]
    form = []
    nparts = rng.choice([0, 1, 1, 2, 3, 5, 8])
    quoteful = rng.random() < 0.15
    for _ in range(nparts):
        pool = tpool_q if quoteful else tpool
        name = [rng.choice(pool) for _ in range(rng.choice([1, 1, 2, 4, 9]))]
        data = [rng.randrange(256) for _ in range(rng.choice([0, 1, 2, 5, 30, 200]))]
        if enc == "url":
            name = [rng.randrange(256) for _ in range(rng.choice([0, 1, 2, 6]))]
            form.append({"kind": "field", "name": name, "ne": "q", "fname": [], "fe": "q", "ct": False, "data": data})
            continue
        ne = rng.choice(["q", "x"])
        if rng.random() < 0.5:
            form.append({"kind": "field", "name": name, "ne": ne, "fname": [], "fe": "q", "ct": False, "data": data})
        else:
            fname = [rng.choice(pool + [13, 10] + ctl) for _ in range(rng.choice([1, 2, 5, 12]))]
            fe = "x" if any(c < 32 or c == 127 for c in fname) else rng.choice(["q", "x"])
            form.append({"kind": "file", "name": name, "ne": "q" if ne == "q" else "x", "fname": fname, "fe": fe,
                         "ct": rng.random() < 0.5, "data": data})
    if enc == "url":
        body, bd, ctype = encode_url(form), b"", "application/x-www-form-urlencoded"
    else:
        while True:
            bd = bytes(rng.choice(b"abcdefghijklmnopqrstuvwxyzABCDEF0123456789" + (b"'()+_,-./:=?" * 2 if rng.random() < 0.4 else b""))
                       for _ in range(rng.choice([1, 6, 20, 40])))
            body = encode_multipart(bd, form)
            d = b"--" + bd          # occurrences counted with overlaps, like CountSub of the specification
            if sum(1 for k in range(len(body) - len(d) + 1) if body[k:k + len(d)] == d) == len(form) + 1:
                break
        quoted = any(c in b'()<>@,;:\\"/[]?=' for c in bd) or rng.random() < 0.2      # tspecials need a quoted parameter
        ctype = "multipart/form-data; boundary=" + ('"%s"' % bd.decode() if quoted else bd.decode())
    obs = real_parse(ctype, body)
    o = {"body": list(body), "result": obs[0], "fields": [], "files": []}
    if obs[0] == "ok":
        # flatten in form order per name (the parser groups by name; order within a name is list order)
        idx = {}
        for p in form:
            nm = _s(p["name"])
            k = idx.get((p["kind"], nm), 0)
            idx[(p["kind"], nm)] = k + 1
            try:
                if p["kind"] == "field":
                    v = obs[1][nm][k]
                    o["fields"].append([[ord(c) for c in nm], list(v)])
                else:
                    f = obs[2][nm][k]
                    o["files"].append([[ord(c) for c in nm], [ord(c) for c in f["filename"]], [ord(c) for c in f["content_type"]], list(f["body"])])
            except (KeyError, IndexError):
                o["result"] = "missing"
        extra = sum(len(v) for v in obs[1].values()) + sum(len(v) for v in obs[2].values()) - len(form)
        if extra:
            o["result"] = "extra"
    return {"id": tid, "cfg": {}, "ev": [{"a": "parse", "args": [enc, list(bd), form], "obs": o}],
            "_quoteful": quoteful and enc == "mp" and any(34 in p["name"] + p["fname"] or 92 in p["name"] + p["fname"] for p in form)}
