"""Parser for TLA+ values as printed by TLC (dumps, error traces, simulation files).

Mapping:  sequences/tuples -> tuple;  sets -> frozenset (elements frozen);
records and functions -> dict;  strings -> str;  ints -> int;
TRUE/FALSE -> bool;  model values / identifiers -> ModelValue(str).
`to_json(v)` converts to plain JSON-able python (tuples->lists, sets->sorted
lists, function with keys 1..n -> list).
"""
import re

_TOKEN = re.compile(
    r"""\s*(?:
    (?P<str>"(?:[^"\\]|\\.)*")
  | (?P<int>-?\d+)
  | (?P<op>\|->|:>|@@|<<|>>|\.\.|[\[\]\{\}\(\),])
  | (?P<id>[A-Za-z_][A-Za-z0-9_!]*)
    )""",
    re.X,
)


class ModelValue(str):
    def __repr__(self):
        return "MV(%s)" % str.__repr__(self)


class ParseError(Exception):
    pass


def _unescape(s):
    out = []
    i = 0
    while i < len(s):
        c = s[i]
        if c == "\\" and i + 1 < len(s):
            n = s[i + 1]
            out.append({"n": "\n", "t": "\t", "r": "\r", "f": "\f"}.get(n, n))
            i += 2
        else:
            out.append(c)
            i += 1
    return "".join(out)


def tokenize(text, pos=0):
    toks = []
    n = len(text)
    while pos < n:
        m = _TOKEN.match(text, pos)
        if not m:
            if text[pos:].strip() == "":
                break
            raise ParseError("bad token at %r" % text[pos:pos + 40])
        pos = m.end()
        k = m.lastgroup
        v = m.group(k)
        toks.append((k, v))
    return toks


def freeze(v):
    if isinstance(v, dict):
        return tuple(sorted(((freeze(k), freeze(x)) for k, x in v.items()), key=repr))
    if isinstance(v, (list, tuple)):
        return tuple(freeze(x) for x in v)
    if isinstance(v, (set, frozenset)):
        return frozenset(freeze(x) for x in v)
    return v


class _P:
    def __init__(self, toks):
        self.t = toks
        self.i = 0

    def peek(self):
        return self.t[self.i] if self.i < len(self.t) else (None, None)

    def eat(self, v=None):
        k, x = self.peek()
        if k is None or (v is not None and x != v):
            raise ParseError("expected %r got %r at token %d" % (v, x, self.i))
        self.i += 1
        return k, x

    def value(self):
        k, x = self.peek()
        if k == "str":
            self.i += 1
            return _unescape(x[1:-1])
        if k == "int":
            self.i += 1
            v = int(x)
            if self.peek() == ("op", ".."):
                self.i += 1
                hi = self.value()
                return frozenset(range(v, hi + 1))
            return v
        if k == "id":
            self.i += 1
            if x == "TRUE":
                return True
            if x == "FALSE":
                return False
            return ModelValue(x)
        if k == "op":
            if x == "<<":
                self.i += 1
                items = []
                if self.peek() == ("op", ">>"):
                    self.i += 1
                    return ()
                while True:
                    items.append(self.value())
                    k2, x2 = self.eat()
                    if x2 == ">>":
                        return tuple(items)
                    if x2 != ",":
                        raise ParseError("bad seq sep %r" % x2)
            if x == "{":
                self.i += 1
                items = []
                if self.peek() == ("op", "}"):
                    self.i += 1
                    return frozenset()
                while True:
                    items.append(freeze(self.value()))
                    k2, x2 = self.eat()
                    if x2 == "}":
                        return frozenset(items)
                    if x2 != ",":
                        raise ParseError("bad set sep %r" % x2)
            if x == "[":
                self.i += 1
                rec = {}
                while True:
                    k2, name = self.eat()
                    self.eat("|->")
                    rec[name] = self.value()
                    k3, x3 = self.eat()
                    if x3 == "]":
                        return rec
                    if x3 != ",":
                        raise ParseError("bad rec sep %r" % x3)
            if x == "(":
                self.i += 1
                fn = {}
                while True:
                    key = freeze(self.value())
                    self.eat(":>")
                    fn[key] = self.value()
                    k3, x3 = self.eat()
                    if x3 == ")":
                        return fn
                    if x3 != "@@":
                        raise ParseError("bad fn sep %r" % x3)
        raise ParseError("unexpected token %r at %d" % (x, self.i))


def parse_value(text):
    p = _P(tokenize(text))
    v = p.value()
    if p.i != len(p.t):
        raise ParseError("trailing tokens: %r" % (p.t[p.i:p.i + 5],))
    return v


_CONJ = re.compile(r"^/\\ (\w+) = ", re.M)


def parse_state(text):
    """Parse a TLC state body ('/\\ v = val' conjuncts, or a single 'v = val')."""
    text = text.strip()
    if not text.startswith("/\\"):
        m = re.match(r"(\w+) = ", text)
        return {m.group(1): parse_value(text[m.end():])}
    out = {}
    ms = list(_CONJ.finditer(text))
    for i, m in enumerate(ms):
        end = ms[i + 1].start() if i + 1 < len(ms) else len(text)
        out[m.group(1)] = parse_value(text[m.end():end])
    return out


def to_json(v):
    if isinstance(v, ModelValue):
        return str(v)
    if isinstance(v, dict):
        keys = list(v.keys())
        if keys and all(isinstance(k, int) and not isinstance(k, bool) for k in keys) and sorted(keys) == list(range(1, len(keys) + 1)):
            return [to_json(v[k]) for k in sorted(keys)]
        return {(k if isinstance(k, str) else repr(k)): to_json(x) for k, x in v.items()}
    if isinstance(v, (tuple, list)):
        return [to_json(x) for x in v]
    if isinstance(v, (set, frozenset)):
        return sorted((to_json(x) for x in v), key=repr)
    return v


def to_tla(v):
    """Render a python value as a TLA+ expression (for generated cfg/modules)."""
    if isinstance(v, bool):
        return "TRUE" if v else "FALSE"
    if isinstance(v, int):
        return str(v)
    if isinstance(v, str):
        return '"' + v.replace("\\", "\\\\").replace('"', '\\"') + '"'
    if isinstance(v, (list, tuple)):
        return "<<" + ", ".join(to_tla(x) for x in v) + ">>"
    if isinstance(v, (set, frozenset)):
        return "{" + ", ".join(to_tla(x) for x in sorted(v, key=repr)) + "}"
    if isinstance(v, dict):
        if not v:
            return "<<>>"
        return "[" + ", ".join("%s |-> %s" % (k, to_tla(x)) for k, x in v.items()) + "]"
    raise TypeError(v)
