"""Shared run logic of the IOStreamContract checks (C11, C12, C13)."""
import hashlib
import random
import time

from . import framework
from . import net_driver as nd

_INDEX = None
_VARIANTS = None


_SPREAD = False


def _replayer(extra, path):
    vs = _VARIANTS
    if _SPREAD and len(vs) > 1:
        # quick tier: each path under one variant, the variants spread evenly over the path set
        k = int(hashlib.sha1(framework.jdump([[s["act"], s["args"]] for s in path]).encode()).hexdigest()[:8], 16)
        vs = [vs[k % len(vs)]]
    for v in vs:
        r = nd.replay_stream(extra, path, v, _INDEX)
        if r is not None:
            return r
    return None


def s2c_stream(ctx, gen_cfg, overrides, variants, label="s2c", nontrivial=None, spread=False):
    """All paths of the bounded state graph (TLC) replayed on the real stream under each variant
    (spread=True: under one variant per path, chosen by a hash of the path)."""
    global _INDEX, _VARIANTS, _SPREAD
    _SPREAD = spread
    t0 = time.time()
    paths = nd.graph_paths(ctx, "net", "GenG_IOStreamContract", gen_cfg, overrides=overrides)
    ctx._phase("gen:" + gen_cfg, t0)
    t0 = time.time()
    _INDEX = nd.BranchIndex(paths)
    _VARIANTS = variants
    ctx.replay(paths, _replayer, label=label, nontrivial=nontrivial)
    ctx._phase("replay:" + gen_cfg, t0)
    ctx.cov["replay_variants"] = variants
    return paths


def _buf_replayer(extra, path):
    for v in (0, 1, 2):
        r = nd.replay_buf(extra, path, v, _INDEX)
        if r is not None:
            return r
    return None


def s2c_buffer(ctx, overrides):
    """Every path through the bounded StreamBuffer graph on the real _StreamBuffer (threshold 4)."""
    global _INDEX
    t0 = time.time()
    paths = nd.graph_paths(ctx, "net", "GenG_StreamBuffer", "GenG_StreamBuffer.cfg", overrides=overrides)
    ctx._phase("gen:StreamBuffer", t0)
    t0 = time.time()
    _INDEX = nd.BranchIndex(paths)
    ctx.replay(paths, _buf_replayer, label="s2c-buffer")
    ctx._phase("replay:StreamBuffer", t0)
    return paths


def replay_file(ctx, rec):
    d = rec["detail"]
    if "path" in d and (d.get("divergence") or {}).get("sig", {}).get("module") == "StreamBuffer":
        r = nd.replay_buf(d["extra"], d["path"], d["divergence"].get("variant", 0), None)
        print("replay:", "diverges " + framework.jdump(r) if r else "follows the specification")
        return 1 if r else 0
    if "path" in d and (d.get("divergence") or {}).get("sig", {}).get("module") == "Connector":
        r = nd.replay_conn(d["extra"], d["path"], None, None)
        print("replay:", "diverges " + framework.jdump(r) if r else "follows the specification")
        return 1 if r else 0
    if "path" in d:
        v = (d.get("divergence") or {}).get("variant") or nd.VARIANTS[0]
        r = nd.replay_stream(d["extra"], d["path"], v, None)
        print("replay:", "diverges " + framework.jdump(r) if r else "follows the specification")
        return 1 if r else 0
    if "trace" in d:
        print("recorded trace; rejected event #%s: %s" % (d.get("matched_prefix_len"), framework.jdump(d.get("rejected_event"))))
        print("re-validate with the check itself (the trace is stored in the replay file)")
        return 1
    print(framework.jdump(d)[:2000])
    return 1


# ----------------------------------------------------------------------------- code -> spec

def _payload(j, n):
    """Payload(j, n) of IOStreamContract.tla (input data: distinct bytes per write call)."""
    return [100 + ((j * 7 + o) % 100) for o in range(1, n + 1)]


def _tag(o):
    if not o:
        return None
    if o[0] == "exc":
        return "/".join(str(x) for x in o[:3])
    if o[0] == "oktype":
        return "ok:!type:" + str(o[1])
    return o[0]


def trace_sig(t, bad, l):
    prev_kind, prev_out, into_failed, delim_failed = None, None, False, False
    for e in t["ev"][:max(0, l - 1)]:
        if e["a"] == "read":
            prev_kind = e["args"][0][0]
        if prev_kind is not None:
            prev_out = e["obs"]["rd"][0]
            into_failed = into_failed or (prev_kind == "into" and prev_out == "exc")
            delim_failed = delim_failed or (prev_kind in ("until", "regex") and prev_out == "exc")
    sig = {"prev_read": "%s:%s" % (prev_kind, prev_out) if prev_kind else "none", "failed_into_before": into_failed, "failed_delim_before": delim_failed}
    if bad:
        sig["obs_rd"] = _tag(bad["obs"].get("rd"))
        sig["obs_st"] = bad["obs"].get("st")
        if bad["a"] == "read":
            sig["read_kind"] = bad["args"][0][0]
    return sig


def random_stream_trace(job):
    """One seeded random run of a real stream, recorded as a trace of IOStreamContract events."""
    tid, seed, mode, length = job
    rng = random.Random(seed)
    rcs = rng.choice([1, 2, 3, 7, 16, 64, None])
    thr = rng.choice([4, 16, None, None])
    variant = dict(rcs=rcs, thr=thr, wkind=rng.choice(["bytes", "mv", "mvH"]),
                   split=rng.choice([None, [1], [1, 2, 5], [2047, 2, 1], [3, 64]]))
    big = thr or 2048
    cfg = {"mwb": rng.choice([0, 0, 3 * big, big + 2]) if mode != "read" else 0,
           "cc": rng.choice([0, 1]),
           "conn": rng.choice([0, 0, 1]) if mode == "close" else 0}
    real = nd.StreamReal(cfg, variant)
    ev = []
    nsent = 0
    unconsumed = 0          # delivered and not yet returned (generator bookkeeping only)
    tc_pending = False
    wc_set = False
    nwrites = 0
    queued_hint = 0
    c = rcs or 64
    weights = {97: 5, 98: 3, 13: 2, 10: 3}
    alpha = [b for b, w in weights.items() for _ in range(w)]

    def record(a, args):
        nonlocal nsent
        p = real.step(a, args)
        sent = p.pop("sent")
        p["nsent"] = len(sent)
        p["new"] = sent[nsent:]
        nsent = len(sent)
        ev.append({"a": a, "args": args, "obs": p})
        return p

    def read_desc():
        k = rng.choice(["bytes", "bytes", "into", "until", "until", "regex", "partial", "partialinto"])
        if k == "bytes" or k == "into":
            return [k, rng.choice([1, 2, c - 1 or 1, c, c + 1, 5, 17, 100, 333, 600]), 0]
        if k == "partial":
            return ["bytes", rng.choice([1, 2, 3, 7, 30, 64]), 1]
        if k == "partialinto":
            return ["into", rng.choice([1, 2, 3, 7, 30, 64]), 1]
        m = rng.choice([0, 0, 0, 2, 5, 9, 50, 300]) if unconsumed <= 400 else 0
        if k == "until":
            return ["until", rng.choice([[10], [13, 10], [97, 98], [10, 10]]), m]
        return ["regex", rng.choice([1, 2]), m]

    try:
        p = real.proj()
        for _ in range(length):
            closed = p["st"] == "closed"
            connecting = p["co"] == ["pending"]
            reading = p["rd"] == ["pending"]
            acts = []
            if mode in ("read", "close") and not connecting:
                if not reading:
                    acts += ["read"] * (6 if not closed else 2)
                if not closed and not tc_pending:
                    acts += ["deliver"] * (8 if reading or unconsumed < 300 else 1)
            if mode in ("write", "close") and not tc_pending:
                acts += ["write"] * (5 if mode == "write" else 2)
                if not closed and not wc_set:
                    acts += ["grant"] * (5 if mode == "write" else 2)
                    if not connecting and rng.random() < 0.04:
                        acts += [rng.choice(["wreset", "werror"])]
            if connecting:
                acts += ["connok"] * 3 + ["connfail"]
            if not closed and rng.random() < (0.03 if mode != "close" else 0.10) and (reading or unconsumed <= 60):
                if not connecting and not tc_pending and (reading or unconsumed == 0):
                    acts += [rng.choice(["eof", "reset", "terror", "close", "closeexc"])]
                else:
                    acts += [rng.choice(["close", "closeexc"])]
            if closed and rng.random() < 0.1:
                acts += ["close"]
            if not acts:
                acts = ["close"]
            a = rng.choice(acts)
            if a == "read":
                k = read_desc()
                if closed and k[2:] == [1] and rng.random() < 0.5:
                    k = ["close"]
                elif rng.random() < 0.03:
                    k = ["close"]
                p = record("read", [k])
            elif a == "deliver":
                n = rng.choice([1, 1, 2, max(1, c - 1), c, c + 1, 2 * c, rng.randint(1, 300)])
                p = record("deliver", [[rng.choice(alpha) for _ in range(n)]])
                unconsumed += n
            elif a == "write":
                n = rng.choice([0, 1, 2, big - 1, big, big + 1, big + 2, rng.randint(1, 2 * big), rng.randint(1, 40)])
                nwrites += 1
                p = record("write", [_payload(nwrites, n)])
            elif a == "grant":
                p = record("grant", [rng.choice([1, 2, 3, big - 1, big, big + 1, rng.randint(1, 3 * big)])])
            else:
                p = record(a, [])
                if a in ("eof", "reset", "terror") and p["st"] == "open":
                    tc_pending = True
                if a in ("wreset", "werror"):
                    wc_set = True
            if p["rd"][0] == "ok" and ev[-1]["a"] in ("read", "deliver", "eof", "reset", "terror", "close", "closeexc",
                                                      "write", "wreset", "werror", "connfail"):
                # consumed bytes are those of a read that completed in this step
                prev = ev[-2]["obs"]["rd"] if len(ev) > 1 else ["none"]
                if ev[-1]["a"] == "read" or prev == ["pending"]:
                    unconsumed -= len(p["rd"][1])
        return {"id": tid, "cfg": cfg, "variant": framework.jdump(variant), "ev": ev}
    finally:
        real.close()


def c2s_stream(ctx, mode, n, length=None):
    length = length or ctx.pick(30, 45)
    jobs = [(i + 1, ctx.seed * 1000003 + i * 7919 + {"read": 1, "write": 2, "close": 3}[mode], mode, length) for i in range(n)]
    t0 = time.time()
    traces = framework.pool_map(random_stream_trace, jobs)
    ctx._phase("record:" + mode, t0)
    t0 = time.time()
    ctx.validate("net", "Trace_IOStreamContract", "Trace_IOStreamContract.cfg", traces, sig_fn=trace_sig,
                 timeout=ctx.pick(900, 3000))
    ctx._phase("validate:" + mode, t0)
    return traces


# ----------------------------------------------------------------------------- connector (C10)

def _conn_replayer(extra, path):
    return nd.replay_conn(extra, path, None, _INDEX)


def s2c_connector(ctx, gen_cfg, overrides, label="s2c"):
    global _INDEX
    t0 = time.time()
    paths = nd.graph_paths(ctx, "net", "GenG_Connector", gen_cfg, overrides=overrides)
    ctx._phase("gen:" + gen_cfg, t0)
    t0 = time.time()
    _INDEX = nd.BranchIndex(paths)
    ctx.replay(paths, _conn_replayer, label=label, nontrivial=lambda e, p: len(p) >= 2)
    ctx._phase("replay:" + gen_cfg, t0)
    return paths


def random_connector_trace(job):
    tid, seed, length, create_modes = job
    rng = random.Random(seed)
    n = rng.choice([1, 2, 3, 5, 6, 7, 8])
    fam = [rng.choice([4, 6]) for _ in range(n)]
    if rng.random() < 0.15:
        fam = [fam[0]] * n
    modes = ["async", "async", "async", "sync"] + (["sockerr", "streamerr", "binderr"] if create_modes else [])
    cfg = {"fam": fam, "mode": [rng.choice(modes) for _ in range(n)], "ct": rng.choice([0, 0, 1, 2, 2])}
    real = nd.ConnectorReal(cfg)
    ev = []
    complete = 0
    try:
        obs, _ = real.step("start", [])
        ev.append({"a": "start", "args": [], "obs": obs})
        for _ in range(length):
            infl = [i + 1 for i, s in enumerate(obs["sock"]) if s == "connecting" and (i + 1) in real.streams]
            pending = obs["res"] == ["pending"]
            acts = []
            for a in infl:
                acts += [("succeed", [a])] + [("fail", [a])] * 3
            if len(infl) == 2:
                a, b = rng.sample(infl, 2)
                acts += [("pair", [a, rng.choice(["ok", "fail"]), b, rng.choice(["ok", "fail"])])] * 2
            d = real.env.loop.next_deadline()
            if pending and d is not None:
                if abs(d - (real.t0 + real.HE)) < 1e-9:
                    acts += [("he", [])] * 2
                elif cfg["ct"] and abs(d - (real.t0 + real.CT[cfg["ct"]])) < 1e-9:
                    acts += [("ct", [])]
            if not acts:
                complete = 1
                break
            a, args = rng.choice(acts)
            obs, _ = real.step(a, args)
            ev.append({"a": a, "args": args, "obs": obs})
        return {"id": tid, "cfg": cfg, "complete": complete, "ev": ev}
    finally:
        real.close()


def conn_trace_sig(t, bad, l):
    return {"create_failure": any(m in ("sockerr", "streamerr", "binderr") for m in t["cfg"]["mode"]),
            "modes": sorted(set(t["cfg"]["mode"]))}


def c2s_connector(ctx, n, n_create=0, label="c2s"):
    """n random schedules with asynchronous / synchronous outcomes plus n_create with failing stream
    creation, validated in one TLC batch."""
    jobs = [(i + 1, ctx.seed * 1000003 + i * 104729 + 5, 30, i >= n) for i in range(n + n_create)]
    t0 = time.time()
    traces = framework.pool_map(random_connector_trace, jobs)
    ctx._phase("record:connector", t0)
    t0 = time.time()
    ctx.validate("net", "Trace_Connector", "Trace_Connector.cfg", traces, sig_fn=conn_trace_sig, label=label,
                 timeout=ctx.pick(900, 3000))
    ctx._phase("validate:connector", t0)
    return traces
