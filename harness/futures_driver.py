"""Drivers binding specs/futures/*.tla to tornado.gen / tornado.concurrent (C36, C37).

CombReal  : the real gen.multi / gen.WaitIterator / gen.with_timeout / concurrent.chain_future
            behind the action interface of Combinators.tla (C36).
CoroReal  : a CoroLang program emitted as python source in two forms - a @gen.coroutine
            generator and an `async def` run as a task - both executed on one virtual loop under
            the same future completions, behind the action interface of CoroLang.tla (C37).

Nothing of Tornado is copied: the combinators / decorator are imported from the working tree
named by harness.REPO.  Every exception of the code under test is an observation."""
import asyncio
import concurrent.futures
import contextvars
import datetime
import logging

from .vloop import Env

NODL = 999


def _exc_class(name, _cache={}):
    c = _cache.get(name)
    if c is None:
        c = _cache[name] = type(name, (Exception,), {})
    return c


def ostate(f, conv=None):
    """Outcome record [s, v, e] of a future, as the specifications define it.  A future that
    is cancelled and one that holds a CancelledError are the same outcome (what the awaiter sees)."""
    if f is None:
        return {"s": "none", "v": [], "e": ""}
    if not f.done():
        return {"s": "pending", "v": [], "e": ""}
    if f.cancelled():
        return {"s": "cancelled", "v": [], "e": ""}
    e = f.exception()
    if e is not None:
        if isinstance(e, (asyncio.CancelledError, concurrent.futures.CancelledError)):
            return {"s": "cancelled", "v": [], "e": ""}
        return {"s": "exc", "v": [], "e": type(e).__name__}
    r = f.result()
    return {"s": "ok", "v": conv(r) if conv else _val(r), "e": ""}


def _val(r):
    if isinstance(r, bool) or r is None:
        return [repr(r)]
    if isinstance(r, int):
        return [r]
    if isinstance(r, (list, tuple)):
        return [x if isinstance(x, int) and not isinstance(x, bool) else repr(x) for x in r]
    if isinstance(r, dict):
        return [["key", k, v] for k, v in r.items()]
    return [repr(r)]


class _LogCount(logging.Handler):
    def __init__(self):
        super().__init__()
        self.msgs = []

    def emit(self, record):
        self.msgs.append(record.getMessage()[:80])


class CombReal:
    """variant bit 0: with_timeout deadline given as absolute time instead of timedelta;
    bit 1: chain_future source is a concurrent.futures.Future; bit 2: chain target is a
    concurrent.futures.Future."""

    def __init__(self, cfg, nf, variant=0):
        from tornado.concurrent import Future
        self.env = Env()
        self.cfg = cfg
        self.comb = cfg["comb"]
        self.slots = list(cfg["slots"])
        self.variant = variant
        self.cf_src = self.comb == "chain" and bool(variant & 2)
        self.cf_dst = self.comb == "chain" and bool(variant & 4)
        self.futs = {}
        for f in range(1, nf + 1):
            self.futs[f] = concurrent.futures.Future() if (self.cf_src and f == 1) else Future()
        self.out = None
        self.wi = None
        self.nexts = []
        self.err = "none"
        self.created = False
        if self.comb == "chain":
            self.out = concurrent.futures.Future() if self.cf_dst else Future()
            if cfg["bpre"] == "ok":
                self.out.set_result(99)
            elif cfg["bpre"] == "cancel":
                self.out.cancel()
        self.logs = _LogCount()
        logging.getLogger("tornado.application").addHandler(self.logs)
        logging.getLogger("tornado.application").propagate = False

    # ------------------------------------------------------------------ projection
    def _key(self, i):
        return "k%d" % i

    def _conv_out(self, r):
        if self.comb == "multid":
            if not isinstance(r, dict) or list(r.keys()) != [self._key(i + 1) for i in range(len(self.slots))]:
                return ["badkeys", repr(r)]
            return list(r.values())
        return _val(r)

    def proj(self):
        cur = 0
        wdone = False
        if self.wi is not None:
            ci = self.wi.current_index
            if ci is not None:
                try:
                    pos = int(ci[1:]) if isinstance(ci, str) else ci + 1
                    cur = self.slots[pos - 1]
                except Exception:
                    cur = "bad:%r" % (ci,)
                # "the matching index": the future at that index is current_future
                if not isinstance(cur, str) and self.wi.current_future is not self.futs[cur]:
                    cur = "mismatch:%r" % (ci,)
            wdone = bool(self.wi.done())
        out = ostate(self.out, self._conv_out) if self.out is not None else {"s": "pending", "v": [], "e": ""}
        return {"out": out, "nexts": [ostate(n) for n in self.nexts], "cur": cur, "wdone": wdone, "err": self.err}

    # ------------------------------------------------------------------ actions
    def _create(self):
        from tornado import gen
        from tornado.concurrent import chain_future
        futs = [self.futs[s] for s in self.slots]
        c = self.comb
        if c == "multi":
            self.out = gen.multi(futs)
        elif c == "multid":
            self.out = gen.multi({self._key(i + 1): f for i, f in enumerate(futs)})
        elif c == "wait":
            self.wi = gen.WaitIterator(*futs)
        elif c == "waitkw":
            self.wi = gen.WaitIterator(**{self._key(i + 1): f for i, f in enumerate(futs)})
        elif c in ("timeout", "tmulti"):
            dl = self.cfg["dl"]
            t = (self.env.now + dl) if (self.variant & 1) else datetime.timedelta(seconds=dl)
            self.out = gen.with_timeout(t, futs[0] if c == "timeout" else futs)
        elif c == "chain":
            chain_future(self.futs[1], self.out)
        else:
            raise ValueError(c)

    def step(self, act, args):
        self.err = "none"
        try:
            if act == "resolve":
                f, o = args
                fut = self.futs[f]
                if o == "ok":
                    fut.set_result(10 + f)
                elif o == "exc":
                    fut.set_exception(_exc_class("E%d" % f)())
                else:
                    fut.cancel()
            elif act == "create":
                self.created = True
                self._create()
            elif act == "next":
                self.nexts.append(self.wi.next())
            elif act == "advance":
                self.env.advance(args[0])
            elif act == "cancelout":
                (self.nexts[-1] if self.wi is not None else self.out).cancel()
            else:
                raise ValueError(act)
        except (KeyboardInterrupt, SystemExit):
            raise
        except BaseException as e:      # CancelledError is a BaseException; still an observation
            self.err = type(e).__name__
        self.env.settle()
        return self.proj()

    def uncaught(self):
        return [type(c.get("exception")).__name__ for c in self.env.loop.uncaught]

    def close(self):
        logging.getLogger("tornado.application").removeHandler(self.logs)
        # retrieve exceptions so that dropped futures do not warn
        for f in list(self.futs.values()) + self.nexts + [self.out]:
            try:
                if f is not None and f.done() and not f.cancelled():
                    f.exception()
            except BaseException:
                pass
        self.env.close()


# ======================================================================== C37: CoroLang
import sys as _sys

_prev_unraisable = _sys.unraisablehook


def _quiet_unraisable(u):
    # a generator left suspended inside a `finally: yield ...` (a decorated coroutine that hangs,
    # finding F23) complains when it is finalised; that is expected noise, not an observation
    if isinstance(u.exc_value, RuntimeError) and "ignored GeneratorExit" in str(u.exc_value):
        return
    if "make.<locals>" in repr(u.object):       # finalisation of an emitted generator / coroutine
        return
    _prev_unraisable(u)


_sys.unraisablehook = _quiet_unraisable

_CV = contextvars.ContextVar("verif_corolang", default=0)


class Boom(Exception):
    pass


def _emit_block(block, form, ind, out, opts):
    """Append python source lines for a CoroLang block.  form: 'dec' (generator body for
    @gen.coroutine) or 'nat' (async def body)."""
    pad = "    " * ind
    aw = "yield " if form == "dec" else "await "
    if not block:
        out.append(pad + "pass")
    for s in block:
        op, a, b = s["op"], s["a"], s["b"]
        if op == "eff":
            out.append(pad + "log.append(('eff', [%d], ''))" % a)
        elif op == "await":
            out.append(pad + "x = %sF[%d]" % (aw, a))
            out.append(pad + "log.append(('got', [x], ''))")
        elif op == "list":
            if form == "dec":
                out.append(pad + "x = yield [F[%d], F[%d]]" % (a, b))
            else:
                out.append(pad + "x = await gen.multi([F[%d], F[%d]])" % (a, b))
            out.append(pad + "log.append(('got', list(x), ''))")
        elif op == "dict":
            if form == "dec":
                out.append(pad + "x = yield {'p': F[%d], 'q': F[%d]}" % (a, b))
            else:
                out.append(pad + "x = await gen.multi({'p': F[%d], 'q': F[%d]})" % (a, b))
            out.append(pad + "log.append(('got', [x['p'], x['q']] if list(x) == ['p', 'q'] else ['badkeys'], ''))")
        elif op == "moment":
            if form == "dec":
                out.append(pad + ("yield None" if opts.get("moment_none") else "yield gen.moment"))
            else:
                out.append(pad + "await asyncio.sleep(0)")
        elif op == "sub":
            out.append(pad + "x = %ssub%d()" % (aw, a))
            out.append(pad + "log.append(('sub', [0 if x is None else x], ''))")
        elif op == "ret":
            out.append(pad + "return %d" % a)
        elif op == "raise":
            out.append(pad + "raise Boom()")
        elif op == "rdctx":
            out.append(pad + "log.append(('ctx', [CV.get()], ''))")
        elif op == "setctx":
            out.append(pad + "CV.set(%d)" % a)
        elif op == "try":
            out.append(pad + "try:")
            _emit_block(s["B"], form, ind + 1, out, opts)
            if s["H"]:
                out.append(pad + "except Exception as e:")
                out.append(pad + "    log.append(('caught', [], type(e).__name__))")
                _emit_block(s["H"], form, ind + 1, out, opts)
            if s["F"]:
                out.append(pad + "finally:")
                _emit_block(s["F"], form, ind + 1, out, opts)
        else:
            raise ValueError(op)


def emit_program(prog, subs, form, opts):
    """Python source of `make(F, log, CV, gen, asyncio, Boom)` returning the coroutine function of
    the given form.  Sub-coroutines are native coroutines (opts['sub_dec']: @gen.coroutine
    generators instead) appending to the same log."""
    out = ["def make(F, log, CV, gen, asyncio, Boom):"]
    for i, body in enumerate(subs, 1):
        if opts.get("sub_dec"):
            out.append("    @gen.coroutine")
            out.append("    def sub%d():" % i)
            _emit_block(body, "dec", 2, out, opts)
            if not _has_await(body):
                out.append("        if False: yield")
        else:
            out.append("    async def sub%d():" % i)
            _emit_block(body, "nat", 2, out, opts)
    if form == "dec":
        out.append("    @gen.coroutine")
        out.append("    def main():")
    else:
        out.append("    async def main():")
    _emit_block(prog, form, 2, out, opts)
    out.append("    return main")
    return "\n".join(out) + "\n"


def _has_await(block):
    for s in block:
        if s["op"] in ("await", "list", "dict", "moment", "sub"):
            return True
        if s["op"] == "try" and (_has_await(s["B"]) or _has_await(s["H"]) or _has_await(s["F"])):
            return True
    return False


_CODE_CACHE = {}


def _compiled(prog, subs, form, opts):
    import json
    key = (json.dumps(prog, sort_keys=True), json.dumps(subs, sort_keys=True), form, tuple(sorted(opts.items())))
    c = _CODE_CACHE.get(key)
    if c is None:
        src = emit_program(prog, subs, form, opts)
        c = _CODE_CACHE[key] = (compile(src, "<corolang-%s>" % form, "exec"), src)
        if len(_CODE_CACHE) > 20000:
            _CODE_CACHE.clear()
    return c


def _cval(r):
    return [0] if r is None else [r] if isinstance(r, int) and not isinstance(r, bool) else [repr(r)]


class CoroReal:
    """Both forms of one CoroLang program on one virtual loop, awaiting the same futures.

    opts: moment_none (generator yields None instead of gen.moment), sub_dec (sub-coroutines are
    @gen.coroutine generators), forms (which forms to run)."""

    FORMS = ("dec", "nat")

    def __init__(self, cfg, opts=None):
        from tornado import gen
        from tornado.concurrent import Future
        self.env = Env()
        self.opts = dict(opts or {})
        self.F = {f: Future() for f in (1, 2, 3)}
        self.logs = {}
        self.mains = {}
        self.outs = {}
        self.src = {}
        for form in self.FORMS:
            code, src = _compiled(cfg["prog"], cfg["subs"], form, self.opts)
            ns = {}
            exec(code, ns)
            self.logs[form] = []
            self.mains[form] = ns["make"](self.F, self.logs[form], _CV, gen, asyncio, Boom)
            self.src[form] = src
        self.err = {}
        self.caller_ctx = None
        self.applog = _LogCount()
        logging.getLogger("tornado.application").addHandler(self.applog)
        logging.getLogger("tornado.application").propagate = False

    def proj(self, form):
        out = ostate(self.outs.get(form), _cval) if form in self.outs else {"s": "pending", "v": [], "e": ""}
        if self.err.get(form):
            out = {"s": "raised", "v": [], "e": self.err[form]}
        return {"log": [{"t": t, "v": list(v), "e": e} for (t, v, e) in self.logs[form]], "out": out}

    def step(self, act, args):
        if act == "start":
            _CV.set(1)                       # the caller's context
            for form in self.FORMS:
                try:
                    if form == "dec":
                        self.outs[form] = self.mains[form]()
                    else:
                        self.outs[form] = asyncio.ensure_future(self.mains[form](), loop=self.env.loop)
                except (KeyboardInterrupt, SystemExit):
                    raise
                except BaseException as e:
                    self.err[form] = type(e).__name__
            self.env.settle()
            self.caller_ctx = _CV.get()
        elif act == "complete":
            f, o = args
            fut = self.F[f]
            if o == "ok":
                fut.set_result(10 + f)
            elif o == "exc":
                fut.set_exception(_exc_class("E%d" % f)())
            else:
                fut.cancel()
            self.env.settle()
            if self.caller_ctx == 1:
                self.caller_ctx = _CV.get()
        else:
            raise ValueError(act)
        return {form: self.proj(form) for form in self.FORMS}

    def uncaught(self):
        return [type(c.get("exception")).__name__ for c in self.env.loop.uncaught]

    def close(self):
        logging.getLogger("tornado.application").removeHandler(self.applog)
        for f in list(self.F.values()) + list(self.outs.values()):
            try:
                if f.done() and not f.cancelled():
                    f.exception()
                elif not f.done():
                    f.cancel()
            except BaseException:
                pass
        try:
            self.env.settle()
        except BaseException:
            pass
        self.env.close()
