"""Drivers binding specs/futures/*.tla to tornado.gen / tornado.concurrent (C36, C37).

CombReal  : the real gen.multi / gen.WaitIterator / gen.with_timeout / concurrent.chain_future
            behind the action interface of Combinators.tla (C36).
CoroReal  : a CoroLang program emitted as python source in two forms - a @gen.coroutine
            generator and an `async def` run as a task - both executed on one virtual loop under
            the same future completions, behind the action interface of CoroLang.tla (C37).

Nothing of Tornado is copied: the combinators / decorator are imported from the working tree
named by harness.REPO.  Every exception of the code under test is an observation."""
import asyncio
import concurrent.futures
import contextvars
import datetime
import logging

from .vloop import Env

NODL = 999


def _exc_class(name, _cache={}):
    c = _cache.get(name)
    if c is None:
        c = _cache[name] = type(name, (Exception,), {})
    return c


def ostate(f, conv=None):
    """Outcome record [s, v, e] of a future, as the specifications define it.  A future that
    is cancelled and one that holds a CancelledError are the same outcome (what the awaiter sees)."""
    if f is None:
        return {"s": "none", "v": [], "e": ""}
    if not f.done():
        return {"s": "pending", "v": [], "e": ""}
    if f.cancelled():
        return {"s": "cancelled", "v": [], "e": ""}
    e = f.exception()
    if e is not None:
        if isinstance(e, (asyncio.CancelledError, concurrent.futures.CancelledError)):
            return {"s": "cancelled", "v": [], "e": ""}
        return {"s": "exc", "v": [], "e": type(e).__name__}
    r = f.result()
    return {"s": "ok", "v": conv(r) if conv else _val(r), "e": ""}


def _val(r):
    if isinstance(r, bool) or r is None:
        return [repr(r)]
    if isinstance(r, int):
        return [r]
    if isinstance(r, (list, tuple)):
        return [x if isinstance(x, int) and not isinstance(x, bool) else repr(x) for x in r]
    if isinstance(r, dict):
        return [["key", k, v] for k, v in r.items()]
    return [repr(r)]


class _LogCount(logging.Handler):
    def __init__(self):
        super().__init__()
        self.msgs = []

    def emit(self, record):
        self.msgs.append(record.getMessage()[:80])


class CombReal:
    """variant bit 0: with_timeout deadline given as absolute time instead of timedelta;
    bit 1: chain_future source is a concurrent.futures.Future; bit 2: chain target is a
    concurrent.futures.Future."""

    def __init__(self, cfg, nf, variant=0):
        from tornado.concurrent import Future
        self.env = Env()
        self.cfg = cfg
        self.comb = cfg["comb"]
        self.slots = list(cfg["slots"])
        self.variant = variant
        self.cf_src = self.comb == "chain" and bool(variant & 2)
        self.cf_dst = self.comb == "chain" and bool(variant & 4)
        self.futs = {}
        for f in range(1, nf + 1):
            self.futs[f] = concurrent.futures.Future() if (self.cf_src and f == 1) else Future()
        self.out = None
        self.wi = None
        self.nexts = []
        self.err = "none"
        self.created = False
        if self.comb == "chain":
            self.out = concurrent.futures.Future() if self.cf_dst else Future()
            if cfg["bpre"] == "ok":
                self.out.set_result(99)
            elif cfg["bpre"] == "cancel":
                self.out.cancel()
        self.logs = _LogCount()
        logging.getLogger("tornado.application").addHandler(self.logs)
        logging.getLogger("tornado.application").propagate = False

    # ------------------------------------------------------------------ projection
    def _key(self, i):
        return "k%d" % i

    def _conv_out(self, r):
        if self.comb == "multid":
            if not isinstance(r, dict) or list(r.keys()) != [self._key(i + 1) for i in range(len(self.slots))]:
                return ["badkeys", repr(r)]
            return list(r.values())
        return _val(r)

    def proj(self):
        cur = 0
        wdone = False
        if self.wi is not None:
            ci = self.wi.current_index
            if ci is not None:
                try:
                    pos = int(ci[1:]) if isinstance(ci, str) else ci + 1
                    cur = self.slots[pos - 1]
                except Exception:
                    cur = "bad:%r" % (ci,)
                # "the matching index": the future at that index is current_future
                if not isinstance(cur, str) and self.wi.current_future is not self.futs[cur]:
                    cur = "mismatch:%r" % (ci,)
            wdone = bool(self.wi.done())
        out = ostate(self.out, self._conv_out) if self.out is not None else {"s": "pending", "v": [], "e": ""}
        return {"out": out, "nexts": [ostate(n) for n in self.nexts], "cur": cur, "wdone": wdone, "err": self.err}

    # ------------------------------------------------------------------ actions
    def _create(self):
        from tornado import gen
        from tornado.concurrent import chain_future
        futs = [self.futs[s] for s in self.slots]
        c = self.comb
        if c == "multi":
            self.out = gen.multi(futs)
        elif c == "multid":
            self.out = gen.multi({self._key(i + 1): f for i, f in enumerate(futs)})
        elif c == "wait":
            self.wi = gen.WaitIterator(*futs)
        elif c == "waitkw":
            self.wi = gen.WaitIterator(**{self._key(i + 1): f for i, f in enumerate(futs)})
        elif c in ("timeout", "tmulti"):
            dl = self.cfg["dl"]
            t = (self.env.now + dl) if (self.variant & 1) else datetime.timedelta(seconds=dl)
            self.out = gen.with_timeout(t, futs[0] if c == "timeout" else futs)
        elif c == "chain":
            chain_future(self.futs[1], self.out)
        else:
            raise ValueError(c)

    def step(self, act, args):
        self.err = "none"
        try:
            if act == "resolve":
                f, o = args
                fut = self.futs[f]
                if o == "ok":
                    fut.set_result(10 + f)
                elif o == "exc":
                    fut.set_exception(_exc_class("E%d" % f)())
                else:
                    fut.cancel()
            elif act == "create":
                self.created = True
                self._create()
            elif act == "next":
                self.nexts.append(self.wi.next())
            elif act == "advance":
                self.env.advance(args[0])
            elif act == "cancelout":
                (self.nexts[-1] if self.wi is not None else self.out).cancel()
            else:
                raise ValueError(act)
        except (KeyboardInterrupt, SystemExit):
            raise
        except BaseException as e:      # CancelledError is a BaseException; still an observation
            self.err = type(e).__name__
        self.env.settle()
        return self.proj()

    def uncaught(self):
        return [type(c.get("exception")).__name__ for c in self.env.loop.uncaught]

    def close(self):
        logging.getLogger("tornado.application").removeHandler(self.logs)
        # retrieve exceptions so that dropped futures do not warn
        for f in list(self.futs.values()) + self.nexts + [self.out]:
            try:
                if f is not None and f.done() and not f.cancelled():
                    f.exception()
            except BaseException:
                pass
        self.env.close()
