"""In-memory HTTP plumbing: a real tornado HTTPServer (or any HTTPServerConnectionDelegate /
request callback) serving a MemStream, and a tiny strict response splitter for harness use.

The *reference* HTTP semantics live in specs/http/*.tla; the python helpers here only move bytes."""
import logging

from . import REPO  # noqa: F401
from .memstream import MemStream
from .vloop import Env


class LogCapture(logging.Handler):
    """Collects records of the three tornado loggers during a run."""

    def __init__(self):
        super().__init__(level=logging.DEBUG)
        self.records = []

    def emit(self, record):
        self.records.append((record.name, record.levelname, record.getMessage(), bool(record.exc_info)))

    def __enter__(self):
        self._saved = []
        for n in ("tornado.access", "tornado.application", "tornado.general"):
            lg = logging.getLogger(n)
            self._saved.append((lg, lg.handlers[:], lg.propagate, lg.level))
            lg.handlers = [self]
            lg.propagate = False
            lg.setLevel(logging.DEBUG)
        return self

    def __exit__(self, *a):
        for lg, h, p, lv in self._saved:
            lg.handlers = h
            lg.propagate = p
            lg.setLevel(lv)

    def names(self, min_level="WARNING"):
        lv = getattr(logging, min_level)
        return [(n, l, m) for (n, l, m, _) in self.records if getattr(logging, l) >= lv]


class ServerConn:
    """One client connection to a real HTTPServer over a MemStream."""

    def __init__(self, env, server, address=("127.0.0.1", 54321), sock=None, **stream_kw):
        self.env = env
        self.server = server
        self.stream = MemStream(env, sock=sock, **stream_kw)
        server.handle_stream(self.stream, address)
        env.settle()

    def send(self, data):
        self.stream.feed(data)

    def send_chunks(self, chunks):
        for c in chunks:
            if self.stream.closed():
                break
            self.stream.feed(c)

    def peer_close(self):
        if not self.stream.closed():
            self.stream.feed_eof()

    def received(self):
        return bytes(self.stream.out)

    def closed(self):
        return self.stream.closed()


def make_app_server(env, handlers=None, app=None, **server_kw):
    from tornado import web, httpserver
    if app is None:
        app = web.Application(handlers or [])
    srv = httpserver.HTTPServer(app, **server_kw)
    return app, srv


def cut(data, points):
    """Split bytes at the given sorted offsets."""
    out, last = [], 0
    for p in points:
        if 0 < p < len(data) and p > last:
            out.append(data[last:p])
            last = p
    out.append(data[last:])
    return [c for c in out if c]


def split_responses(data, head_requests=()):
    """Transport plumbing only (NOT an oracle): split raw server output into messages
    [(version, code, reason, [(name, value)...], body_bytes, complete)] following Content-Length /
    chunked / no-body statuses; `head_requests` = indices of responses to HEAD requests.
    Properties about response *framing* (C02, C03, C08) must not rely on this helper; they hand
    the raw bytes to their TLA+ reader."""
    out = []
    pos = 0
    idx = 0
    while pos < len(data):
        end = data.find(b"\r\n\r\n", pos)
        if end < 0:
            out.append((None, None, None, [], data[pos:], False))
            break
        lines = data[pos:end].split(b"\r\n")
        sl = lines[0].decode("latin1").split(" ", 2)
        version, code = sl[0], int(sl[1])
        reason = sl[2] if len(sl) > 2 else ""
        headers = []
        for ln in lines[1:]:
            n, _, v = ln.decode("latin1").partition(":")
            headers.append((n, v.strip(" \t")))   # HTTP optional whitespace only (not NBSP/NEL)
        pos = end + 4
        hd = {n.lower(): v for n, v in headers}
        complete = True
        if idx in head_requests or code in (204, 304) or 100 <= code < 200:
            body = b""
        elif hd.get("transfer-encoding", "").lower() == "chunked":
            body = b""
            while True:
                e2 = data.find(b"\r\n", pos)
                if e2 < 0:
                    complete = False
                    pos = len(data)
                    break
                n = int(data[pos:e2].split(b";")[0], 16)
                pos = e2 + 2
                if n == 0:
                    e3 = data.find(b"\r\n", pos)
                    pos = e3 + 2 if e3 >= 0 else len(data)
                    break
                body += data[pos:pos + n]
                pos += n + 2
        elif "content-length" in hd:
            n = int(hd["content-length"])
            body = data[pos:pos + n]
            complete = len(body) == n
            pos += n
        else:
            body = data[pos:]
            pos = len(data)
        out.append((version, code, reason, headers, body, complete))
        idx += 1
    return out
