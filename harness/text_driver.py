"""Generic driver of the `text` family (C21 C22 C43 C44 C45 C46 C48): function-like specifications.

The specifications under specs/text/ are pure reference semantics (per-character transducers,
recognisers, relations) wrapped in a small state machine that builds an input token by token;
`step.exp` of every reachable state is the record  helper name -> reference result  for that
input.  This module binds them to the real Tornado functions:

  spec -> code   `paths_from_states` turns every TLC-enumerated state into a path of calls (one
                 per helper) on that input; `make_replayer` calls the real helper through its
                 *adapter* and compares the observation with the TLC-computed result.
  code -> spec   `record` calls the adapters on inputs (TLC-enumerated ones for relational
                 specifications, seeded random ones otherwise) and `validate_calls` lets TLC
                 (Trace_<Module>) accept or reject every recorded (helper, input, observation).

Adapters (harness/text_adapters_*.py is not needed: they live in the per-property sections
below) take the input in canonical JSON form (int arrays for text and bytes) and return an
observation `{"v": ...}` or `{"err": "<exception class>"}`; an exception of the code under test
is an observation, never a harness crash.  No adapter computes an expected value."""
import os
import random

from . import framework
from .framework import canon

SPEC_DIR = "text"


def T(a):
    """code points -> str"""
    return "".join(map(chr, a))


def B(a):
    """byte values -> bytes"""
    return bytes(a)


def cps(s):
    return [ord(c) for c in s]


def S(v):
    """observation of a value that must be a str"""
    if type(v) is not str:
        return {"err": "type:" + type(v).__name__}
    return {"v": cps(v)}


def Y(v):
    """observation of a value that must be bytes"""
    if type(v) is not bytes:
        return {"err": "type:" + type(v).__name__}
    return {"v": list(v)}


def observe(thunk):
    try:
        return thunk()
    except Exception as e:      # the exception class of the real call is the observation
        return {"err": type(e).__name__}


ADAPTERS = {}       # module -> {fn name -> callable(input, cfg) -> observation}
CLASSIFY = {}       # module -> callable(fn, input, cfg, exp, obs) -> low-cardinality sig fields


def adapter(module, name):
    def deco(f):
        ADAPTERS.setdefault(module, {})[name] = f
        return f
    return deco


def call(module, fn, x, cfg):
    f = ADAPTERS[module].get(fn)
    if f is None:
        raise framework.Machinery("no adapter for %s.%s" % (module, fn))
    return canon(observe(lambda: f(x, cfg)))


def matches(exp, obs):
    """Python-side comparison for S2C: equality, except the spec's explicit 'unconstrained' marker."""
    if isinstance(exp, dict) and "anystr" in exp:
        return isinstance(obs, dict) and "v" in obs
    if isinstance(exp, dict) and "anyerr" in exp:
        return isinstance(obs, dict) and "err" in obs
    if isinstance(exp, dict) and "anybool" in exp:
        return isinstance(obs, dict) and isinstance(obs.get("v"), bool)
    return exp == obs


def _kind(o):
    if isinstance(o, dict):
        if "err" in o:
            return "err:" + str(o["err"])
        return "+".join(sorted(o.keys()))
    return type(o).__name__


def default_sig(module, fn, x, cfg, exp, obs):
    sig = {"module": module, "fn": fn, "exp_kind": _kind(exp), "obs_kind": _kind(obs)}
    c = CLASSIFY.get(module)
    if c:
        sig.update(c(fn, x, cfg, exp, obs) or {})
    return sig


# ---------------------------------------------------------------------------- spec -> code

def paths_from_states(states, relational=("rel",)):
    """Every TLC state {cfg, inp, step:{exp:{fn: result}}} -> (extra, path).  Helpers whose
    reference 'result' is a relation marker ({"rel": name}) are returned separately as call items
    for record/validate."""
    paths, rel_items = [], []
    seen = set()
    for st in states:
        cfg, inp, exp = st["cfg"], st["inp"], st["step"]["exp"]
        key = framework.jdump([cfg, inp])
        if key in seen:
            continue
        seen.add(key)
        steps, rels = [], []
        for fn in sorted(exp):
            e = exp[fn]
            if isinstance(e, dict) and any(k in e for k in relational):
                rels.append(fn)
            else:
                steps.append({"act": fn, "args": [inp], "exp": e})
        if steps:
            paths.append(({"cfg": cfg}, steps))
        if rels:
            rel_items.append((cfg, [(fn, inp) for fn in rels]))
    return paths, rel_items


def make_replayer(module):
    def replayer(extra, path):
        cfg = extra["cfg"]
        for i, s in enumerate(path):
            x = s["args"][0]
            obs = call(module, s["act"], x, cfg)
            if not matches(s["exp"], obs):
                return {"step": i, "act": s["act"], "args": s["args"], "exp": s["exp"], "obs": obs,
                        "sig": default_sig(module, s["act"], x, cfg, s["exp"], obs)}
        return None
    return replayer


# ---------------------------------------------------------------------------- code -> spec

_REC_MODULE = None


def _record_one(item):
    tid, cfg, calls = item
    ev = []
    for fn, x in calls:
        ev.append({"a": fn, "args": [x], "obs": call(_REC_MODULE, fn, x, cfg)})
    return {"id": tid, "cfg": cfg, "ev": ev}


def record(module, items, first_id=1):
    """items: list of (cfg, [(fn, input), ...]) -> traces (one per item), recorded in a fork pool."""
    global _REC_MODULE
    _REC_MODULE = module
    jobs = [(first_id + i, cfg, calls) for i, (cfg, calls) in enumerate(items)]
    return framework.pool_map(_record_one, jobs)


def validate_calls(ctx, module, trace_module, trace_cfg, traces, label="c2s", overrides=None, max_rounds=6, timeout=None,
                   kind_of=None):
    """TLC validates every recorded call.  A rejected event hides the later events of its trace,
    so the remainder of such a trace is validated again as a trace of its own (every event gets a
    verdict; a known finding never masks another input)."""
    total_rejected = 0
    rounds = 0
    kind_of = dict(kind_of or {})          # trace id -> label (when traces of several origins are validated together)
    next_id = max([t["id"] for t in traces] + [0]) + 1
    ctx.add_eval(0, distinct_keys=[framework.jdump([t["cfg"], t["ev"][0]["args"]]) for t in traces
                                   if len(t["ev"]) == 1 and t["ev"][0]["args"][0]])
    while traces and rounds < max_rounds:
        rounds += 1

        def sig_fn(t, bad, l):
            if not bad:
                return {"module": module}
            sig = default_sig(module, bad["a"], bad["args"][0], t["cfg"], {"spec": "rejected"}, bad["obs"])
            if t["id"] in kind_of:
                sig["kind"] = kind_of[t["id"]]
            return sig
        verdict = ctx.validate(SPEC_DIR, trace_module, trace_cfg, traces, label=label, sig_fn=sig_fn,
                               overrides=overrides, timeout=timeout or ctx.pick(900, 1500))
        rest = []
        for t in traces:
            v = verdict.get(t["id"])
            if v is None:
                continue
            total_rejected += 1
            tail = t["ev"][v["at"]:]
            if tail:
                rest.append({"id": next_id, "cfg": t["cfg"], "ev": tail})
                if t["id"] in kind_of:
                    kind_of[next_id] = kind_of[t["id"]]
                next_id += 1
        traces = rest
    return total_rejected


def validate_both(ctx, module, trace_module, trace_cfg, rel_traces, rand_traces, overrides=None):
    """One TLC validation pass (one round of JVM starts) over the recorded outputs of TLC-enumerated inputs
    (label s2c-rel) and of seeded random inputs (label c2s)."""
    traces, kind_of = [], {}
    for label, group in (("s2c-rel", rel_traces), ("c2s", rand_traces)):
        for t in group:
            t = dict(t)
            t["id"] = len(traces) + 1
            kind_of[t["id"]] = label
            traces.append(t)
    return validate_calls(ctx, module, trace_module, trace_cfg, traces, label="c2s", overrides=overrides, kind_of=kind_of)


def replay_record(ctx, module, trace_module, trace_cfg, rec, overrides=None):
    """./check Cnn --replay FILE for this family."""
    d = rec["detail"]
    if "path" in d:
        r = make_replayer(module)(d["extra"], d["path"])
        print("replay:", "diverges " + framework.jdump(r)[:1500] if r else "follows the specification")
        return 1 if r else 0
    if "trace" in d:
        t = d["trace"]
        items = [(t["cfg"], [(e["a"], e["args"][0]) for e in t["ev"]])]
        traces = record(module, items)
        n = validate_calls(ctx, module, trace_module, trace_cfg, traces, overrides=overrides)
        for path, sig in ctx.violations:
            print("replay: rejected by the specification " + framework.jdump(sig)[:600])
        for fid, k in ctx.known_hits.items():
            print("replay: rejected by the specification (known finding %s)" % fid)
        if not n:
            print("replay: accepted by the specification")
        return 1 if n else 0
    print("replay: nothing to replay in this record")
    return 2


# ---------------------------------------------------------------------------- random inputs

def rand_text(rng, alphabet, maxlen, unicode_share=0.2):
    """Seeded random text: `alphabet` symbols (strings) mixed with arbitrary scalar values."""
    out = []
    for _ in range(rng.randint(0, maxlen)):
        if rng.random() < unicode_share:
            c = rng.choice([rng.randint(0, 0x7F), rng.randint(0x80, 0x7FF), rng.randint(0x800, 0xD7FF),
                            rng.randint(0xE000, 0xFFFF), rng.randint(0x10000, 0x10FFFF)])
            out.append(chr(c))
        else:
            out.append(rng.choice(alphabet))
    return "".join(out)


def rand_bytes(rng, alphabet, maxlen, any_share=0.3):
    out = bytearray()
    for _ in range(rng.randint(0, maxlen)):
        if rng.random() < any_share:
            out.append(rng.randint(0, 255))
        else:
            out += rng.choice(alphabet)
    return bytes(out)


# ============================================================================ C21 Escapes

def _esc():
    from tornado import escape
    return escape


@adapter("Escapes", "xhtml_escape")
def _a(x, cfg):
    return S(_esc().xhtml_escape(T(x)))


@adapter("Escapes", "xhtml_escape_u8")
def _a(x, cfg):
    return S(_esc().xhtml_escape(T(x).encode("utf-8")))


@adapter("Escapes", "xhtml_roundtrip")
def _a(x, cfg):
    e = _esc()
    return S(e.xhtml_unescape(e.xhtml_escape(T(x))))


@adapter("Escapes", "utf8")
def _a(x, cfg):
    return Y(_esc().utf8(T(x)))


@adapter("Escapes", "utf8_roundtrip")
def _a(x, cfg):
    e = _esc()
    return S(e.to_unicode(e.utf8(T(x))))


def _url_escape(plus, as_bytes):
    def f(x, cfg):
        v = B(x) if as_bytes else T(x)
        return S(_esc().url_escape(v, plus=plus))
    return f


def _url_roundtrip(plus, as_bytes):
    def f(x, cfg):
        e = _esc()
        if as_bytes:
            return Y(e.url_unescape(e.url_escape(B(x), plus=plus), encoding=None, plus=plus))
        q = e.url_escape(T(x), plus=plus)
        r1 = e.url_unescape(q, plus=plus)
        r2 = e.url_unescape(q.encode("ascii"), plus=plus)       # bytes input is accepted as well
        if r1 != r2:
            return {"err": "str/bytes input differ"}
        return S(r1)
    return f


def _url_unescape(plus, to_bytes):
    def f(x, cfg):
        e = _esc()
        if to_bytes:
            return Y(e.url_unescape(T(x), encoding=None, plus=plus))
        return S(e.url_unescape(T(x), plus=plus))
    return f


for _p, _sfx in ((True, "_p"), (False, "_n")):
    ADAPTERS.setdefault("Escapes", {})["url_escape" + _sfx] = _url_escape(_p, False)
    ADAPTERS["Escapes"]["url_escape_b" + _sfx] = _url_escape(_p, True)
    ADAPTERS["Escapes"]["url_roundtrip" + _sfx] = _url_roundtrip(_p, False)
    ADAPTERS["Escapes"]["url_roundtrip_b" + _sfx] = _url_roundtrip(_p, True)
    ADAPTERS["Escapes"]["url_unescape_bytes" + _sfx] = _url_unescape(_p, True)
    ADAPTERS["Escapes"]["url_unescape" + _sfx] = _url_unescape(_p, False)


@adapter("Escapes", "to_unicode")
def _a(x, cfg):
    return S(_esc().to_unicode(B(x)))


@adapter("Escapes", "utf8_b")
def _a(x, cfg):
    return Y(_esc().utf8(B(x)))


@adapter("Escapes", "xhtml_escape_b")
def _a(x, cfg):
    return S(_esc().xhtml_escape(B(x)))


@adapter("Escapes", "recursive_unicode")
def _a(x, cfg):
    b = B(x)
    r = _esc().recursive_unicode({b: [b, (b, 1, None, "s")]})
    if type(r) is not dict or len(r) != 1:
        return {"err": "shape"}
    (k, v), = r.items()
    if type(v) is not list or len(v) != 2 or type(v[1]) is not tuple or len(v[1]) != 4 or v[1][1:] != (1, None, "s"):
        return {"err": "shape"}
    leaves = [k, v[0], v[1][0]]
    if any(type(z) is not str for z in leaves):
        return {"err": "leaf type"}
    return {"v": [cps(z) for z in leaves]}


def _qs_proj(d):
    if type(d) is not dict:
        return {"err": "type:" + type(d).__name__}
    out = []
    for k, vs in d.items():
        if type(k) is not str or type(vs) is not list or any(type(v) is not bytes for v in vs):
            return {"err": "result types"}
        out.append({"k": list(k.encode("latin1")), "vs": [list(v) for v in vs]})
    return {"v": out}


def _parse_qs(keep):
    def f(x, cfg):
        e = _esc()
        b = B(x)
        r1 = _qs_proj(e.parse_qs_bytes(b, keep_blank_values=keep))
        r2 = _qs_proj(e.parse_qs_bytes(b.decode("latin1"), keep_blank_values=keep))   # "or their latin-1 decoding"
        if r1 != r2:
            return {"err": "bytes/latin-1 input differ"}
        return r1
    return f


ADAPTERS["Escapes"]["parse_qs_keep"] = _parse_qs(True)
ADAPTERS["Escapes"]["parse_qs_drop"] = _parse_qs(False)


@adapter("Escapes", "qs_pairs_roundtrip")
def _a(x, cfg):
    import urllib.parse
    pairs = []
    if x:
        cur = [[], None]
        for c in x:
            if c == 256:
                pairs.append(cur)
                cur = [[], None]
            elif c == 257:
                cur[1] = []
            elif cur[1] is None:
                cur[0].append(c)
            else:
                cur[1].append(c)
        pairs.append(cur)
    qs = "&".join(urllib.parse.quote_from_bytes(bytes(n), safe="") + "=" + urllib.parse.quote_from_bytes(bytes(v or []), safe="")
                  for n, v in pairs)
    return _qs_proj(_esc().parse_qs_bytes(qs.encode("ascii"), keep_blank_values=True))


_TYPE_TAGS = ["int", "float", "list", "dict", "tuple", "bytearray", "object", "none"]
_TYPE_VALUES = {"int": lambda: 7, "float": lambda: 1.5, "list": lambda: [b"x"], "dict": lambda: {}, "tuple": lambda: (),
                "bytearray": lambda: bytearray(b"x"), "object": lambda: object(), "none": lambda: None}


def _typed(fname):
    def f(x, cfg):
        v = _TYPE_VALUES[_TYPE_TAGS[x[0] - 1]]()
        r = getattr(_esc(), fname)(v)
        return {"v": ["none" if r is None else "value:" + type(r).__name__]}
    return f


ADAPTERS["Escapes"]["utf8_type"] = _typed("utf8")
ADAPTERS["Escapes"]["to_unicode_type"] = _typed("to_unicode")


def jval_to_py(j):
    k = j["k"]
    if k == "str":
        return T(j["v"])
    if k in ("int", "bool"):
        return j["v"]
    if k == "null":
        return None
    if k == "float":
        return j["v"][0] / j["v"][1]
    if k == "list":
        return [jval_to_py(z) for z in j["v"]]
    if k == "dict":
        return {T(e["key"]): jval_to_py(e["val"]) for e in j["v"]}
    raise ValueError(k)


@adapter("Escapes", "json_encode")
def _a(x, cfg):
    e = _esc()
    v = jval_to_py(x)
    out = e.json_encode(v)
    if type(out) is not str:
        return {"err": "type:" + type(out).__name__}
    eq = e.json_decode(out) == v and e.json_decode(out.encode("utf-8")) == v
    return {"out": cps(out), "eq": bool(eq)}


def _escapes_classify(fn, x, cfg, exp, obs):
    return {"kind_": cfg.get("kind")}


CLASSIFY["Escapes"] = _escapes_classify


# ============================================================================ C46 LocaleFmt

_LOCALE_NOW = 1623758400          # 2021-06-15 12:00:00 UTC: the pinned "now" of format_date


def _with_pinned_clock(thunk):
    """Run thunk with tornado.locale's `datetime` module replaced by a shim whose
    datetime.datetime.now() is the pinned instant (everything else is the stdlib's)."""
    import datetime as _dt
    import types
    import tornado.locale as tl

    class PinnedDateTime(_dt.datetime):
        @classmethod
        def now(cls, tz=None):
            return _dt.datetime.fromtimestamp(_LOCALE_NOW, tz if tz is not None else _dt.timezone.utc)

        @classmethod
        def utcnow(cls):
            return _dt.datetime.fromtimestamp(_LOCALE_NOW, _dt.timezone.utc).replace(tzinfo=None)

    shim = types.SimpleNamespace(**{k: getattr(_dt, k) for k in dir(_dt) if not k.startswith("__")})
    shim.datetime = PinnedDateTime
    orig = tl.datetime
    tl.datetime = shim
    try:
        return thunk()
    finally:
        tl.datetime = orig


def _locale(code):
    import tornado.locale as tl
    if code == "en_US":
        return tl.Locale.get("en_US")
    return tl.CSVLocale(code, {})


@adapter("LocaleFmt", "friendly_number")
def _a(x, cfg):
    return S(_locale("en_US").friendly_number(x))


@adapter("LocaleFmt", "friendly_number_fr")
def _a(x, cfg):
    return S(_locale("fr_FR").friendly_number(x))


@adapter("LocaleFmt", "format_date")
def _a(x, cfg):
    import datetime as _dt
    ts = _LOCALE_NOW - x["d"]
    form = x["form"]
    if form == "int":
        date = ts
    elif form == "float":
        date = float(ts)
    elif form == "naive":
        date = _dt.datetime.fromtimestamp(ts, _dt.timezone.utc).replace(tzinfo=None)
    else:
        date = _dt.datetime.fromtimestamp(ts, _dt.timezone(_dt.timedelta(hours=5, minutes=30)))
    loc = _locale("en_US")
    return _with_pinned_clock(lambda: S(loc.format_date(date, gmt_offset=x["gmt"], relative=x["rel"],
                                                        shorter=x["shorter"], full_format=x["full"])))


def _locale_classify(fn, x, cfg, exp, obs):
    if fn.startswith("friendly_number"):
        return {"sign": "neg" if x < 0 else "nonneg", "digits_mod3": len(str(abs(x))) % 3}
    d = x["d"]
    if d < -60:
        cls = "future, seconds-of-day part < 60" if (-d) % 86400 < 60 else "future, other"
    elif d < 0:
        cls = "future within a minute"
    else:
        cls = "past"
    return {"dcls": cls, "rel": x["rel"], "full": x["full"]}


CLASSIFY["LocaleFmt"] = _locale_classify


# ============================================================================ C45 LogFormat

def _log_formatter(color):
    """A real LogFormatter; colour is switched on through the module-level capability probe
    (the colorama branch: hard-coded ANSI codes), not by touching the formatter's internals."""
    import tornado.log as tlog
    if not color:
        return tlog.LogFormatter(color=False)
    o1, o2 = tlog._stderr_supports_color, tlog.curses
    tlog._stderr_supports_color = lambda: True
    tlog.curses = None
    try:
        return tlog.LogFormatter(color=True)
    finally:
        tlog._stderr_supports_color, tlog.curses = o1, o2


def _log_record(x, cfg):
    import logging
    import sys
    msg = bytes(x) if cfg["form"] == "bytes" else T(x)
    class StrRaises:                      # an argument whose string conversion raises (repr works)
        def __str__(self):
            raise RuntimeError("boom\nforged")

    args = {"none": (), "str": ("x",), "two": (1, 2), "bytes": (b"\xe9\n",), "nl": ("a\nb",),
            "dict": ({"x": "v\nw"},), "raises": (StrRaises(),)}[cfg["args"]]
    exc_info = None
    ek = cfg["exc"]
    if ek in ("simple", "multiline", "bytes"):
        try:
            raise ValueError({"simple": "boom", "multiline": "line1\nline2\n[E 250101 00:00:00 forged:1] x",
                              "bytes": b"\xff\nraw"}[ek])
        except ValueError:
            exc_info = sys.exc_info()
    rec = logging.LogRecord("tornado.test", logging.ERROR, "/x/mod.py", 42, msg, args, exc_info)
    if ek == "pretext":
        rec.exc_text = "Traceback (preset)\n  line\nValueError: z"
    return rec


@adapter("LogFormat", "format")
def _a(x, cfg):
    fmt = _log_formatter(cfg["color"])
    return S(fmt.format(_log_record(x, cfg)))


def _log_classify(fn, x, cfg, exp, obs):
    return {"form": cfg.get("form"), "args": cfg.get("args"), "exc": cfg.get("exc"), "color": cfg.get("color")}


CLASSIFY["LogFormat"] = _log_classify


# ============================================================================ C48 OAuth1

def _oauth_call(x, cfg):
    """Call the real signature function with hmac.new intercepted at the tornado.auth module
    boundary; returns (captured key, captured message, returned value, independently recomputed MAC)."""
    import base64
    import hashlib
    import hmac as real_hmac
    import types
    import tornado.auth as ta
    captured = []

    def new(key, msg=None, digestmod=None):
        captured.append((bytes(key), bytes(msg) if msg is not None else None, digestmod))
        return real_hmac.new(key, msg, digestmod)

    shim = types.SimpleNamespace(**{k: getattr(real_hmac, k) for k in dir(real_hmac) if not k.startswith("__")})
    shim.new = new
    u = cfg["url"]
    url = T(u["scheme"]) + "://" + T(u["host"]) + (":%d" % u["port"] if u["port"] else "") + T(u["path"])
    consumer = {"key": "consumer-key", "secret": T(cfg["csec"])}
    token = {"key": "token-key", "secret": T(cfg["tok"]["s"])} if cfg["tok"]["has"] else None
    f = ta._oauth_signature if cfg["ver"] == "1.0" else ta._oauth10a_signature
    results = []
    for order in (1, -1):                       # parameters are a dict: insertion order must not matter
        params = {T(p["k"]): T(p["v"]) for p in x[::order]}
        del captured[:]
        orig = ta.hmac
        ta.hmac = shim
        try:
            ret = f(consumer, T(cfg["method"]), url, params, token)
        finally:
            ta.hmac = orig
        if len(captured) != 1 or captured[0][1] is None:
            raise RuntimeError("hmac.new calls: %d" % len(captured))
        key, msg, dm = captured[0]
        mac = base64.b64encode(real_hmac.new(key, msg, hashlib.sha1).digest())
        results.append((key, msg, ret, mac, dm))
    if results[0][:3] != results[1][:3]:
        raise RuntimeError("parameter insertion order changes the signature")
    return results[0]


@adapter("OAuth1", "oauth_key")
def _a(x, cfg):
    return {"v": list(_oauth_call(x, cfg)[0])}


@adapter("OAuth1", "oauth_text")
def _a(x, cfg):
    return {"v": list(_oauth_call(x, cfg)[1])}


@adapter("OAuth1", "oauth_mac")
def _a(x, cfg):
    import hashlib
    key, msg, ret, mac, dm = _oauth_call(x, cfg)
    ok = type(ret) is bytes and ret == mac and dm in (hashlib.sha1, "sha1")
    return {"v": [1 if ok else 0]}


_UNRESERVED = set(b"ABCDEFGHIJKLMNOPQRSTUVWXYZabcdefghijklmnopqrstuvwxyz0123456789-._~")


def _needs_enc(a):
    return any(c not in _UNRESERVED for c in a)


def _oauth_classify(fn, x, cfg, exp, obs):
    u = cfg["url"]
    default = {"http": 80, "https": 443}.get(T(u["scheme"]).lower())
    return {"ver": cfg["ver"],
            "name_needs_encoding": any(_needs_enc(p["k"]) for p in x),
            "secret_needs_encoding": _needs_enc(cfg["csec"]) or (cfg["tok"]["has"] and _needs_enc(cfg["tok"]["s"])),
            "explicit_default_port": bool(u["port"]) and u["port"] == default}


CLASSIFY["OAuth1"] = _oauth_classify


# ============================================================================ C43 HttpUtil

def _flat(x):
    return [c for part in x for c in part]


@adapter("HttpUtil", "parse_request_start_line")
def _a(x, cfg):
    from tornado import httputil
    r = httputil.parse_request_start_line(T(_flat(x)))
    if len(r) != 3 or any(type(z) is not str for z in r) or (r.method, r.path, r.version) != tuple(r):
        return {"err": "result shape"}
    return {"v": [cps(z) for z in r]}


@adapter("HttpUtil", "parse_response_start_line")
def _a(x, cfg):
    from tornado import httputil
    r = httputil.parse_response_start_line(T(_flat(x)))
    if len(r) != 3 or type(r.version) is not str or type(r.code) is not int or not (r.reason is None or type(r.reason) is str):
        return {"err": "result shape"}
    return {"v": {"version": cps(r.version), "code": r.code, "reason": cps(r.reason or "")}}


def _param_dict(x):
    return {T(x[i]): T(x[i + 1]) for i in range(1, len(x) - 1, 2)}


@adapter("HttpUtil", "encode_header")
def _a(x, cfg):
    from tornado import httputil
    return S(httputil._encode_header(T(x[0]), _param_dict(x)))


@adapter("HttpUtil", "parse_encoded_header")
def _a(x, cfg):
    from tornado import httputil
    key, pdict = httputil._parse_header(httputil._encode_header(T(x[0]), _param_dict(x)))
    if type(key) is not str or type(pdict) is not dict:
        return {"err": "result shape"}
    return {"v": {"key": cps(key), "params": [[cps(k), cps(v)] for k, v in sorted(pdict.items())]}}


def _total(getf):
    def f(x, cfg):
        getf()(T(_flat(x)))
        return {"v": [1]}
    return f


def _hu(name):
    def g():
        from tornado import httputil
        return getattr(httputil, name)
    return g


ADAPTERS["HttpUtil"]["parse_header_total"] = _total(_hu("_parse_header"))
ADAPTERS["HttpUtil"]["parse_cookie_total"] = _total(_hu("parse_cookie"))
ADAPTERS["HttpUtil"]["split_host_and_port_total"] = _total(_hu("split_host_and_port"))


@adapter("HttpUtil", "split_host_and_port")
def _a(x, cfg):
    from tornado import httputil
    host, port = httputil.split_host_and_port(T(_flat(x)))
    if type(host) is not str or not (port is None or type(port) is int):
        return {"err": "result shape"}
    return {"v": {"host": cps(host), "port": -1 if port is None else port}}


def _fmt_ts(form):
    def f(x, cfg):
        import datetime as _dt
        import time as _time
        from tornado import httputil
        t = x[0][0]
        if form == "int":
            a = t
        elif form == "float":
            a = float(t)
        elif form == "struct":
            a = _time.gmtime(t)
        elif form == "tuple":
            a = tuple(_time.gmtime(t))
        elif form == "naive":
            a = _dt.datetime.fromtimestamp(t, _dt.timezone.utc).replace(tzinfo=None)
        else:
            a = _dt.datetime.fromtimestamp(t, _dt.timezone(_dt.timedelta(hours=-7, minutes=-30)))
        return S(httputil.format_timestamp(a))
    return f


for _f in ("int", "float", "struct", "tuple", "naive", "aware"):
    ADAPTERS["HttpUtil"]["format_timestamp_" + _f] = _fmt_ts(_f)


def _url_args(part):
    if not part:
        return []
    out, cur = [], [[], []]
    side = 0
    for c in part:
        if c == 256:
            out.append(cur)
            cur, side = [[], []], 0
        elif c == 257:
            side = 1
        else:
            cur[side].append(c)
    out.append(cur)
    return [(T(k), T(v)) for k, v in out]


@adapter("HttpUtil", "url_concat")
def _a(x, cfg):
    from tornado import httputil
    url = T(x[0]) + ("" if x[1] == [-1] else "?" + T(x[1])) + ("" if x[2] == [-1] else "#" + T(x[2]))
    pairs = _url_args(x[3])
    form = x[4][0]
    args = None if form == 0 else dict(pairs) if form == 1 else list(pairs) if form == 2 else tuple(pairs)
    return S(httputil.url_concat(url, args))


@adapter("HttpUtil", "re_escape")
def _a(x, cfg):
    import re
    return S(re.escape(T(_flat(x))))


@adapter("HttpUtil", "re_unescape_roundtrip")
def _a(x, cfg):
    import re
    from tornado import util
    return S(util.re_unescape(re.escape(T(_flat(x)))))


@adapter("HttpUtil", "re_unescape")
def _a(x, cfg):
    from tornado import util
    return S(util.re_unescape(T(_flat(x))))


@adapter("HttpUtil", "is_valid_ip")
def _a(x, cfg):
    from tornado import netutil
    r = netutil.is_valid_ip(T(_flat(x)))
    if type(r) is not bool:
        return {"err": "type:" + type(r).__name__}
    return {"v": r}


def _httputil_classify(fn, x, cfg, exp, obs):
    sig = {"kind_": cfg.get("kind")}
    if fn.endswith("_total"):
        s = T(_flat(x))
        sig["has_nul"] = "\x00" in s
        sig["has_rfc2231_star"] = "*" in s
        sig["long_digit_run"] = len(s) > 4300
    if fn == "url_concat":
        import urllib.parse
        q = "" if x[1] == [-1] else T(x[1])
        try:
            urllib.parse.unquote_to_bytes(q).decode("utf-8")
            sig["query_non_utf8_escape"] = False
        except UnicodeDecodeError:
            sig["query_non_utf8_escape"] = True
    return sig


CLASSIFY["HttpUtil"] = _httputil_classify


# ============================================================================ C22 Linkify

_LINKIFY_PERMS = {2: ["http", "ftp", "mailto"], 3: ["http", "javascript"]}
_LINKIFY_EXTRA = {1: 'rel="nofollow"', 2: 'class="x"'}


@adapter("Linkify", "linkify")
def _a(x, cfg):
    kw = {}
    if cfg["shorten"]:
        kw["shorten"] = True
    if cfg["rp"]:
        kw["require_protocol"] = True
    if cfg["perm"] != 1:
        kw["permitted_protocols"] = _LINKIFY_PERMS[cfg["perm"]]
    if cfg["extra"] == 1:
        kw["extra_params"] = "  " + _LINKIFY_EXTRA[1] + " "          # documented: stripped, one space inserted
    elif cfg["extra"] == 2:
        kw["extra_params"] = lambda href: " " + _LINKIFY_EXTRA[2] + "  "
    text = T(_flat(x))
    e = _esc()
    r1 = e.linkify(text, **kw)
    r2 = e.linkify(text.encode("utf-8"), **kw)                       # bytes input is accepted as well
    if r1 != r2:
        return {"err": "str/bytes input differ"}
    return S(r1)


def _linkify_classify(fn, x, cfg, exp, obs):
    import re
    sig = {"shorten": cfg.get("shorten"), "rp": cfg.get("rp"), "perm": cfg.get("perm"), "extra": cfg.get("extra")}
    out = T(obs["v"]) if isinstance(obs, dict) and "v" in obs else ""
    labels = re.findall(r">([^<]*)</a>", out)
    # a label that ends in a cut entity: '&' followed by no ';' before the "..."
    sig["label_cut_entity"] = any(re.search(r"&[^;]*\.\.\.$", l) for l in labels)
    return sig


CLASSIFY["Linkify"] = _linkify_classify


# ============================================================================ C44 Options

def _opt_project(v, tname):
    import datetime as _dt
    from fractions import Fraction
    if tname == "str":
        return cps(v) if type(v) is str else {"bad": "type:" + type(v).__name__}
    if tname == "int":
        return v if type(v) is int else {"bad": "type:" + type(v).__name__}
    if tname == "float":
        if type(v) is not float:
            return {"bad": "type:" + type(v).__name__}
        f = Fraction(repr(v))                       # the decimal the float prints as (shortest repr)
        return {"num": f.numerator, "den": f.denominator}
    if tname == "bool":
        # elements of a multiple bool option come back as the ints 0 / 1 (bool is Integral, so they pass through
        # range()); 1 == True in Python, so they are the denoted values (see notes/text.md)
        if type(v) is bool or (type(v) is int and v in (0, 1)):
            return bool(v)
        return {"bad": "type:" + type(v).__name__}
    if tname == "datetime":
        if type(v) is not _dt.datetime or v.tzinfo is not None or v.microsecond:
            return {"bad": "datetime shape"}
        return [v.year, v.month, v.day, v.hour, v.minute, v.second]
    if tname == "timedelta":
        if type(v) is not _dt.timedelta:
            return {"bad": "type:" + type(v).__name__}
        return {"s": v.days * 86400 + v.seconds, "us": v.microseconds}
    raise ValueError(tname)


@adapter("Options", "parse")
def _a(x, cfg):
    import contextlib
    import datetime as _dt
    import io
    import tempfile
    from tornado import options as to
    from . import tlc
    tname, mult, src = cfg["type"], cfg["mult"], cfg["src"]
    types = {"str": str, "int": int, "float": float, "bool": bool, "datetime": _dt.datetime, "timedelta": _dt.timedelta}
    defaults = {"str": "<default>", "int": -999, "float": -9.75, "bool": None, "datetime": _dt.datetime(1970, 1, 1),
                "timedelta": _dt.timedelta(days=999)}
    default = [defaults[tname]] if mult else defaults[tname]
    text = ",".join(T(part) for part in x)

    def run(optname):
        p = to.OptionParser()
        p.define("my_opt", default=default, type=types[tname], multiple=mult)
        p.define("other", default=5, type=int)
        with contextlib.redirect_stderr(io.StringIO()):
            if src in ("cmd", "flag", "unknown", "unset"):
                args = {"cmd": ["prog", optname + "=" + text], "flag": ["prog", optname],
                        "unknown": ["prog", "--no-such-option=" + text], "unset": ["prog"]}[src]
                rest = p.parse_command_line(args)
                if rest:
                    return {"err": "leftover arguments"}
            else:
                body = "my_opt = %r\n" % text if src == "cfgstr" else "my_opt = %s\n" % text
                import os
                os.makedirs(tlc.SCRATCH, exist_ok=True)
                with tempfile.NamedTemporaryFile("wb", suffix=".conf", dir=tlc.SCRATCH, delete=True) as f:
                    f.write(body.encode("utf-8"))
                    f.flush()
                    p.parse_config_file(f.name)
        if p.other != 5:
            return {"err": "another option changed"}
        v = p.my_opt
        if v is default or (src == "unset" and v == default):
            return {"v": ["default"]}
        if mult:
            if type(v) is not list:
                return {"err": "type:" + type(v).__name__}
            out = [_opt_project(z, tname) for z in v]
        else:
            out = _opt_project(v, tname)
        bad = [o for o in (out if mult else [out]) if isinstance(o, dict) and "bad" in o]
        if bad:
            return {"err": bad[0]["bad"]}
        return {"v": out}

    r1 = observe(lambda: run("--my-opt"))
    if src in ("cmd", "flag"):              # the option name may be given with '-' or '_': same result required
        r2 = observe(lambda: run("--my_opt"))
        if canon(r1) != canon(r2):
            return {"err": "name spelling '-' / '_' changes the result"}
    return r1


def _options_classify(fn, x, cfg, exp, obs):
    return {"type": cfg.get("type"), "mult": cfg.get("mult"), "src": cfg.get("src"),
            "empty_text": all(len(part) == 0 for part in x) and len(x) > 0}


CLASSIFY["Options"] = _options_classify
