"""C23 driver: binds specs/websec/SignedValue.tla to tornado.web.create_signed_value /
decode_signed_value.

Spec tokens are sequences of byte values and signature symbols (1000*id + i = i-th hex digit of
the id-th signature, 999 = "a different hex digit here").  `realize` turns such a sequence into
the real byte string using digests recomputed with the stdlib; `symbolize` does the inverse for
tokens recorded from the real code (C2S)."""
from . import websec_driver as W

KEYS = {1: b"k1-0123456789abcdef-secret", 2: b"k2-fedcba9876543210-secret"}
ALGS = {1: "sha1", 2: "sha256"}
HEXLEN = {1: 40, 2: 64}
FLIP = 999


def secret_of(cfgid):
    """SCfg(id) of the specification as the real cookie_secret object."""
    if cfgid == 1:
        return KEYS[1].decode()
    if cfgid == 2:
        return KEYS[2]          # one plain secret as bytes, the other as str: both accepted forms
    if cfgid == 3:
        return {0: KEYS[1].decode(), 1: KEYS[2]}
    if cfgid == 4:
        return {0: KEYS[2], 2: KEYS[1].decode()}
    raise ValueError(cfgid)


def sign_key(cfgid, kv):
    s = secret_of(cfgid)
    if isinstance(s, dict):
        s = s[kv]
    return s if isinstance(s, bytes) else s.encode()


def apply_tamper(tok, name, o):
    """Mirror of Apply / ShiftedTok of the specification on symbol sequences (input construction
    only; the specification's own result is cross-checked through its length and checksum)."""
    op, i, b = o["op"], o["i"], o["b"]
    tok = list(tok)
    if op == "id":
        return tok
    if op == "edit":
        tok[i - 1] = b
        return tok
    if op == "ins":
        return tok[:i - 1] + [b] + tok[i - 1:]
    if op == "del":
        return tok[:i - 1] + tok[i:]
    if op == "swap":
        parts, curp = [], []
        for x in tok:
            if x == 124:
                parts.append(curp)
                curp = []
            else:
                curp.append(x)
        parts.append(curp)
        parts[i - 1], parts[b - 1] = parts[b - 1], parts[i - 1]
        out = []
        for k, p in enumerate(parts):
            if k:
                out.append(124)
            out += p
        return out
    if op == "move":
        d = tok[:i - 1] + tok[i:]
        j = b - 1 if b > i else b
        return d[:j - 1] + [124] + d[j - 1:]
    if op == "shift":
        if i > 0:
            return tok[i:]
        return list(name[len(name) + i:]) + tok
    raise ValueError(op)


def checksum(tok):
    acc = 7
    for x in tok:
        acc = (acc * 31 + x) % 1000003
    return acc


def realize(tok, digests, orig=None):
    """Spec symbol sequence -> real bytes.  digests: {id: hexdigest str}.  FLIP needs `orig`, the
    untampered sequence, to know which digit it replaced (same index)."""
    out = bytearray()
    for k, x in enumerate(tok):
        if x < 256:
            out.append(x)
        elif x == FLIP:
            o = orig[k]
            ch = digests[o // 1000][o % 1000 - 1]
            out += ("%x" % (int(ch, 16) ^ 1)).encode()
        else:
            out += digests[x // 1000][x % 1000 - 1].encode()
    return bytes(out)


def symbolize(data, table):
    """Real token bytes -> spec sequence: every full occurrence of a known hex digest (table:
    list of (alg, key, msg, hexdigest), id = index + 1) becomes its symbol string."""
    seq = list(data)
    for idx, (alg, key, msg, d) in enumerate(table):
        db = list(d.encode())
        n = len(db)
        k = 0
        while k + n <= len(seq):
            if seq[k:k + n] == db:
                seq[k:k + n] = [1000 * (idx + 1) + j for j in range(1, n + 1)]
                k += n
            else:
                k += 1
    return seq


def real_create(c):
    """Run the real create_signed_value for the spec's create record; returns (token bytes or
    exception name, recorded MAC calls)."""
    from tornado import web
    shim = W.HmacShim()
    with W.WebPatch(hmac=shim):
        try:
            tok = web.create_signed_value(secret_of(c["scfg"]), bytes(c["name"]).decode("utf-8"), bytes(c["value"]),
                                          version=c["ver"], clock=lambda: c["t"],
                                          key_version=(c["kv"] if (c["ver"] == 2 and (c["kv"] or isinstance(secret_of(c["scfg"]), dict))) else None))
        except Exception as e:      # observation
            return "raised:" + type(e).__name__, shim.calls
    return tok, shim.calls


def real_decode(d, token, as_str=False):
    from tornado import web
    from .httpsim import LogCapture
    arg = token.decode("latin1") if as_str else token
    with LogCapture():
        try:
            r = web.decode_signed_value(secret_of(d["dcfg"]), bytes(d["name"]).decode("utf-8"), arg,
                                        max_age_days=d["maxAge"], clock=lambda: d["now"], min_version=d["minVer"])
        except BaseException as e:      # "decoding never raises": any exception is the observation
            return ["raised", type(e).__name__]
    if r is None:
        return ["none"]
    return ["val", list(r)]


def observe_scenario(st, creates):
    """Replay one TLC scenario state on the real functions.  Returns None or a divergence dict."""
    sc, exp = st["sc"], st["exp"]
    mode = sc["mode"]
    d = sc["de"]
    if mode == "arb":
        if sc["tam"]["op"] == "long":
            spec_tok = [49] * sc["tam"]["i"] + ([124] if sc["tam"]["b"] == 1 else [124, 97, 124, 98])
            if len(spec_tok) != exp["len"] or checksum(spec_tok) != exp["sum"]:
                raise RuntimeError("harness long-input mirror disagrees with the specification")
        else:
            spec_tok = list(st["arb"])
        token = bytes(spec_tok)
        ver = 0
        op = "arb"
    else:
        c = sc["cr"]
        key = W.json.dumps(c, sort_keys=True)
        itok, msg = creates[key]
        msg = bytes(msg)
        alg = ALGS[c["ver"]]
        # signature of the issued token, recomputed with the stdlib from the spec's flat message
        digest = W.stdlib_hexdigest(alg, sign_key(c["scfg"], c["kv"]), msg)
        real_tok, calls = real_create(c)
        want_tok = realize(itok, {1: digest})
        if real_tok != want_tok:
            return {"step": 0, "act": "create", "args": c, "exp": list(want_tok), "obs": list(real_tok) if isinstance(real_tok, bytes) else real_tok,
                    "sig": {"what": "create-format", "version": c["ver"], "dict": isinstance(secret_of(c["scfg"]), dict)}}
        if [(a, k, m) for (a, k, m, _) in calls] != [(alg, sign_key(c["scfg"], c["kv"]), msg)]:
            return {"step": 0, "act": "create", "args": c, "exp": [alg, list(msg)], "obs": [[a, list(m)] for (a, k, m, _) in calls],
                    "sig": {"what": "create-mac-input", "version": c["ver"]}}
        spec_tok = apply_tamper(itok, c["name"], sc["tam"])
        if len(spec_tok) != exp["len"] or checksum(spec_tok) != exp["sum"]:
            raise RuntimeError("harness tamper mirror disagrees with the specification: %r" % (sc,))
        token = realize(spec_tok, {1: digest}, orig=itok)
        ver = c["ver"]
        op = sc["tam"]["op"]
    variants = [False] + ([True] if all(b < 128 for b in token) else [])
    for as_str in variants:
        obs = real_decode(d, token, as_str)
        res, want = exp["res"], exp["want"]
        base = {"version": ver, "op": op, "dict": isinstance(secret_of(d["dcfg"]), dict), "detected": exp["ver"],
                "name_changed": (mode == "tok" and d["name"] != sc["cr"]["name"])}
        what = None
        if obs[0] == "raised":
            what = "raised"
            base["exc"] = obs[1]
        elif res[0] != "lenient" and obs != res:
            what = "diverges-from-format"
        elif obs != want:
            what = "accepts-other-input" if want == ["none"] else "loses-valid-value"
            base["design"] = (res[0] == "lenient" or res == obs)
        if what:
            base["what"] = what
            return {"step": 1, "act": "decode", "args": {"de": d, "token": list(token[:300]), "token_len": len(token), "as_str": as_str},
                    "exp": {"format": res, "property": want}, "obs": obs, "sig": base}
    return None


# ----------------------------------------------------------------------------- C2S: recorded sessions

def _keyid(key):
    for k, v in KEYS.items():
        if v == key:
            return k
    return 0


def random_session(args):
    """One recorded session: creates and decodes (of pristine, mutated, spliced and random tokens)
    on the real functions; returns the trace dict for Trace_SignedValue."""
    import random
    tid, seed, nev = args
    rng = random.Random(seed)
    table = []          # (alg, key, msg, digest) in order of first appearance
    toks = []           # (create record, real token)
    ev = []
    name_alpha = b"nab.Y=|:0123-_"
    t0 = rng.choice([1, 9, 10, 1234567, 1500000000, rng.randrange(1, 2000000000)])

    def rname():
        return bytes(rng.choice(name_alpha) for _ in range(rng.choice([0, 1, 1, 2, 3, 5, 8])))

    names = [rname() for _ in range(3)]
    for _ in range(nev):
        if not toks or rng.random() < 0.3:
            ver = rng.choice([1, 2, 2])
            scfg = 1 if ver == 1 else rng.choice([1, 2, 3, 4])
            kv = 0
            if ver == 2:
                s = secret_of(scfg)
                kv = rng.choice(sorted(s)) if isinstance(s, dict) else rng.choice([0, 0, 1, 7])
            if ver == 1 and rng.random() < 0.3:
                scfg = 2
            c = {"name": list(rng.choice(names)), "value": [rng.randrange(256) for _ in range(rng.choice([0, 1, 2, 3, 4, 7, 16, 30]))],
                 "t": t0 + rng.choice([0, 0, 1, 86400, 5]), "ver": ver, "scfg": scfg, "kv": kv}
            if c["t"] > 2000000000:
                c["t"] = 2000000000
            tok, calls = real_create(c)
            if not isinstance(tok, bytes) or len(calls) != 1:
                ev.append({"a": "create", "args": [c["name"], c["value"], c["t"], ver, scfg, kv], "obs": {"tok": [0], "mac": [0, 0, [0]], "note": str(tok)}})
                continue
            alg, key, msg, dig = calls[0]
            if W.stdlib_hexdigest(alg, key, msg) != dig:
                raise RuntimeError("hmac shim digest differs from the stdlib recomputation")
            if not any(e[3] == dig for e in table):
                table.append((alg, key, msg, dig))
            toks.append((c, tok))
            ev.append({"a": "create", "args": [c["name"], c["value"], c["t"], ver, scfg, kv],
                       "obs": {"tok": symbolize(tok, table), "mac": [1 if alg == "sha1" else 2, _keyid(key), list(msg)]}})
            continue
        c, tok = rng.choice(toks)
        token = bytearray(tok)
        r = rng.random()
        if r < 0.35:
            pass
        elif r < 0.7:
            for _ in range(rng.choice([1, 1, 2, 3])):
                k = rng.random()
                pos = rng.randrange(len(token) + 1)
                b = rng.choice(b"0123456789abcdef|:=.-YQ\n ")
                if k < 0.4 and pos < len(token):
                    token[pos] = b
                elif k < 0.7:
                    token.insert(pos, b)
                elif pos < len(token):
                    del token[pos]
        elif r < 0.85 and len(toks) > 1:
            c2, tok2 = rng.choice(toks)
            cut1, cut2 = rng.randrange(len(tok) + 1), rng.randrange(len(tok2) + 1)
            token = bytearray(tok[:cut1] + tok2[cut2:])
        elif r < 0.92:
            parts = bytes(token).split(b"|")
            rng.shuffle(parts)
            token = bytearray(b"|".join(parts))
        else:
            token = bytearray(rng.choice(b"012|:a=-") for _ in range(rng.randrange(0, 12)))
        dcfg = c["scfg"] if rng.random() < 0.6 else rng.choice([1, 2, 3, 4])
        name = c["name"] if rng.random() < 0.7 else list(rng.choice(names))
        max_age = rng.choice([0, 1, 31, 31, 400])
        now = c["t"] + rng.choice([0, 1, max_age * 86400, max_age * 86400 + 1, 86400 * 3])
        now = min(now, 2000000000)
        d = {"dcfg": dcfg, "name": name, "now": now, "maxAge": max_age, "minVer": rng.choice([1, 1, 2])}
        obs = real_decode(d, bytes(token), as_str=False)
        ev.append({"a": "decode", "args": [dcfg, name, symbolize(bytes(token), table), now, max_age, d["minVer"]],
                   "obs": {"res": obs}})
        if obs[0] == "raised":
            break           # an exception ends the recorded session (it is the rejected event)
    return {"id": tid, "cfg": {}, "ev": ev}
