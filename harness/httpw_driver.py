"""Drivers binding specs/httpw/*.tla (C02, C03, C07, C29) to the real tornado.web / http1connection.

Everything here only *moves bytes*: a handler program (list of output operations) is executed by a
real RequestHandler served by a real HTTPServer over harness.memstream.MemStream on the virtual-time
loop, and the raw bytes the client side received (plus whether the server closed) are recorded in a
trace.  The traces are judged by TLC: Trace_*.tla re-derives the obligation from the recorded
operations and runs the strict TLA+ response reader (RespReader.tla) on the recorded bytes.  No
response parsing happens in python (C29 gunzips an already-delimited body with the stdlib; the
encoded bytes it used are handed to TLC, which checks they are the body its reader delimited).
"""
import hashlib
import logging

from . import REPO  # noqa: F401
from .vloop import Env
from .httpsim import ServerConn, make_app_server

_quiet_done = False


def quiet_logs():
    """The tornado loggers would print every provoked error; they are not observables here."""
    global _quiet_done
    if _quiet_done:
        return
    for n in ("tornado.access", "tornado.application", "tornado.general"):
        lg = logging.getLogger(n)
        lg.handlers = [logging.NullHandler()]
        lg.propagate = False
    _quiet_done = True


def b2s(b):
    """int list -> str with one char per byte (latin-1)."""
    return bytes(b).decode("latin1")


def etag_of(ops):
    """Entity tag Tornado computes for the bytes buffered when the first finish happens."""
    h = hashlib.sha1()
    for act, args in ops:
        if act == "write":
            h.update(bytes(args[0]))
        elif act == "finish":
            h.update(bytes(args[0]))
            break
    return '"%s"' % h.hexdigest()


def request_bytes(cfg, ops, extra_headers=()):
    method, version, inm = cfg["method"], cfg["version"], cfg.get("inm", "absent")
    lines = ["%s / HTTP/%s" % (method, "1.1" if version == "1.1" else "1.0"), "Host: x"]
    if version == "1.0ka":
        lines.append("Connection: keep-alive")
    if inm == "match":
        lines.append("If-None-Match: " + etag_of(ops))
    elif inm == "differ":
        lines.append('If-None-Match: "0000"')
    elif inm == "star":
        lines.append("If-None-Match: *")
    for h in extra_headers:
        lines.append(h)
    body = b""
    if method == "POST":
        body = b"hi"
        lines.append("Content-Length: 2")
    return ("\r\n".join(lines) + "\r\n\r\n").encode("latin1") + body


def apply_op(h, act, args):
    """One handler output operation on the real RequestHandler `h` (arguments are byte lists)."""
    if act == "set_status":
        h.set_status(args[0])
    elif act == "set_header":
        h.set_header(b2s(args[0]), b2s(args[1]))
    elif act == "add_header":
        h.add_header(b2s(args[0]), b2s(args[1]))
    elif act == "clear_header":
        h.clear_header(b2s(args[0]))
    elif act == "write":
        h.write(bytes(args[0]))
    elif act == "flush":
        h.flush()
    elif act == "finish":
        if args[0]:
            h.finish(bytes(args[0]))
        else:
            h.finish()
    else:
        raise ValueError("unknown op %r" % (act,))


def run_program(cfg, ops, app_settings=None, server_kw=None, extra_headers=(), prelude=None, write_plan=None,
                follow_up=None):
    """Execute the handler program `ops` = [(act, args)...] for one request described by cfg.

    Returns (events, out_bytes, eof): events = [{"a", "args", "obs": {"err"}}...] for the calls that
    were executed (the program stops at the first call that raises, as a handler method would) plus
    the closing "end" event (implicit finish)."""
    from tornado import web
    quiet_logs()
    ev = []
    state = {"fin": False}

    def body(h):
        if prelude:
            prelude(h)
        for act, args in ops:
            try:
                apply_op(h, act, args)
            except Exception as e:
                ev.append({"a": act, "args": args, "obs": {"err": type(e).__name__}})
                raise
            ev.append({"a": act, "args": args, "obs": {"err": "none"}})
            if act == "finish":
                state["fin"] = True
        try:
            if not state["fin"]:
                h.finish()
        except Exception as e:
            ev.append({"a": "end", "args": [], "obs": {"err": type(e).__name__}})
            raise
        ev.append({"a": "end", "args": [], "obs": {"err": "none"}})

    class H(web.RequestHandler):
        def get(self):
            body(self)

        def head(self):
            body(self)

        def post(self):
            body(self)

    env = Env()
    try:
        app = web.Application([("/", H)], **(app_settings or {}))
        _, srv = make_app_server(env, app=app, **(server_kw or {}))
        conn = ServerConn(env, srv)
        if write_plan is not None:
            import collections
            conn.stream.write_plan = collections.deque(write_plan)
        conn.send(request_bytes(cfg, ops, extra_headers))
        env.settle()
        if write_plan is not None:
            conn.stream.write_plan = None
            conn.stream.pump()
        if follow_up:
            follow_up(conn)
        out, eof = conn.received(), conn.closed()
    finally:
        env.close()
    return ev, out, eof


def program_trace(tid, cfg, ops, **kw):
    ev, out, eof = run_program(cfg, ops, **kw)
    ev.append({"a": "response", "args": [], "obs": {"out": list(out), "eof": bool(eof)}})
    return {"id": tid, "cfg": cfg, "ev": ev}


def path_ops(path):
    """TLC path (list of step records) -> [(act, args)] without the closing 'end'."""
    return [(s["act"], s["args"]) for s in path if s["act"] != "end"]
