"""Drivers binding specs/httpw/*.tla (C02, C03, C07, C29) to the real tornado.web / http1connection.

Everything here only *moves bytes*: a handler program (list of output operations) is executed by a
real RequestHandler served by a real HTTPServer over harness.memstream.MemStream on the virtual-time
loop, and the raw bytes the client side received (plus whether the server closed) are recorded in a
trace.  The traces are judged by TLC: Trace_*.tla re-derives the obligation from the recorded
operations and runs the strict TLA+ response reader (RespReader.tla) on the recorded bytes.  No
response parsing happens in python (C29 gunzips an already-delimited body with the stdlib; the
encoded bytes it used are handed to TLC, which checks they are the body its reader delimited).
"""
import hashlib
import logging

from . import REPO  # noqa: F401
from .vloop import Env
from .httpsim import ServerConn, make_app_server

_quiet_done = False


def with_kind(sig_fn, first_random_id):
    """One TLC validation for enumerated and random traces together (fewer JVM starts): the violation
    signature still says which part a trace came from (ids >= first_random_id are the seeded random ones)."""
    def f(t, bad, l):
        sig = sig_fn(t, bad, l)
        sig["kind"] = "c2s" if t["id"] >= first_random_id else "s2c"
        return sig
    return f


class phase:
    """with phase(ctx, name): ... -> wall seconds of the block recorded in evidence coverage.phases_s"""

    def __init__(self, ctx, name):
        self.ctx, self.name = ctx, name

    def __enter__(self):
        import time
        self.t0 = time.time()

    def __exit__(self, *a):
        self.ctx._phase(self.name, self.t0)


def quiet_logs():
    """The tornado loggers would print every provoked error; they are not observables here."""
    global _quiet_done
    if _quiet_done:
        return
    for n in ("tornado.access", "tornado.application", "tornado.general"):
        lg = logging.getLogger(n)
        lg.handlers = [logging.NullHandler()]
        lg.propagate = False
    _quiet_done = True


def b2s(b):
    """int list -> str with one char per byte (latin-1)."""
    return bytes(b).decode("latin1")


def etag_of(ops):
    """Entity tag Tornado computes for the bytes buffered when the first finish happens."""
    h = hashlib.sha1()
    for act, args in ops:
        if act == "write":
            h.update(bytes(args[0]))
        elif act == "finish":
            h.update(bytes(args[0]))
            break
    return '"%s"' % h.hexdigest()


def request_bytes(cfg, ops, extra_headers=()):
    method, version, inm = cfg["method"], cfg["version"], cfg.get("inm", "absent")
    lines = ["%s / HTTP/%s" % (method, "1.1" if version == "1.1" else "1.0"), "Host: x"]
    if version == "1.0ka":
        lines.append("Connection: keep-alive")
    if inm == "match":
        lines.append("If-None-Match: " + etag_of(ops))
    elif inm == "differ":
        lines.append('If-None-Match: "0000"')
    elif inm == "star":
        lines.append("If-None-Match: *")
    for h in extra_headers:
        lines.append(h)
    body = b""
    if method == "POST":
        body = b"hi"
        lines.append("Content-Length: 2")
    return ("\r\n".join(lines) + "\r\n\r\n").encode("latin1") + body


def apply_op(h, act, args):
    """One handler output operation on the real RequestHandler `h` (arguments are byte lists)."""
    if act == "set_status":
        h.set_status(args[0])
    elif act == "set_header":
        h.set_header(b2s(args[0]), b2s(args[1]))
    elif act == "add_header":
        h.add_header(b2s(args[0]), b2s(args[1]))
    elif act == "clear_header":
        h.clear_header(b2s(args[0]))
    elif act == "write":
        h.write(bytes(args[0]))
    elif act == "flush":
        h.flush()
    elif act == "finish":
        if args[0]:
            h.finish(bytes(args[0]))
        else:
            h.finish()
    else:
        raise ValueError("unknown op %r" % (act,))


def run_program(cfg, ops, app_settings=None, server_kw=None, extra_headers=(), prelude=None, write_plan=None,
                follow_up=None):
    """Execute the handler program `ops` = [(act, args)...] for one request described by cfg.

    Returns (events, out_bytes, eof): events = [{"a", "args", "obs": {"err"}}...] for the calls that
    were executed (the program stops at the first call that raises, as a handler method would) plus
    the closing "end" event (implicit finish)."""
    from tornado import web
    quiet_logs()
    ev = []
    state = {"fin": False}

    def body(h):
        if prelude:
            prelude(h)
        for act, args in ops:
            try:
                apply_op(h, act, args)
            except Exception as e:
                ev.append({"a": act, "args": args, "obs": {"err": type(e).__name__}})
                raise
            ev.append({"a": act, "args": args, "obs": {"err": "none"}})
            if act == "finish":
                state["fin"] = True
        try:
            if not state["fin"]:
                h.finish()
        except Exception as e:
            ev.append({"a": "end", "args": [], "obs": {"err": type(e).__name__}})
            raise
        ev.append({"a": "end", "args": [], "obs": {"err": "none"}})

    class H(web.RequestHandler):
        def get(self):
            body(self)

        def head(self):
            body(self)

        def post(self):
            body(self)

    env = Env()
    try:
        app = web.Application([("/", H)], **(app_settings or {}))
        _, srv = make_app_server(env, app=app, **(server_kw or {}))
        conn = ServerConn(env, srv)
        if write_plan is not None:
            import collections
            conn.stream.write_plan = collections.deque(write_plan)
        conn.send(request_bytes(cfg, ops, extra_headers))
        env.settle()
        if write_plan is not None:
            conn.stream.write_plan = None
            conn.stream.pump()
        if follow_up:
            follow_up(conn)
        out, eof = conn.received(), conn.closed()
    finally:
        env.close()
    return ev, out, eof


def program_trace(tid, cfg, ops, **kw):
    ev, out, eof = run_program(cfg, ops, **kw)
    ev.append({"a": "response", "args": [], "obs": {"out": list(out), "eof": bool(eof)}})
    return {"id": tid, "cfg": cfg, "ev": ev}


def path_ops(path):
    """TLC path (list of step records) -> [(act, args)] without the closing 'end'."""
    return [(s["act"], s["args"]) for s in path if s["act"] != "end"]


# ---------------------------------------------------------------------------------------------
# C03: two-request keep-alive scenario

def ka_request1(row):
    lines = ["%s / HTTP/%s" % (row["method"], row["version"]), "Host: x"]
    if row["conn"] != "absent":
        lines.append("Connection: " + row["conn"])
    body = b""
    if row["reqbody"] == "cl":
        lines.append("Content-Length: 4")
        body = b"data"
    elif row["reqbody"] == "chunked":
        lines.append("Transfer-Encoding: chunked")
        body = b"4\r\ndata\r\n0\r\n\r\n"
    return ("\r\n".join(lines) + "\r\n\r\n").encode("latin1"), body


REQ2 = b"GET /2 HTTP/1.1\r\nHost: x\r\n\r\n"


def ka_respond(h, row):
    """Response 1 in the configured style (status, body 'one' in one or two pieces)."""
    if row["rstatus"] != 200:
        h.set_status(row["rstatus"])
    nobody = row["rstatus"] == 204
    style = row["style"]
    if style == "buffered":
        if not nobody:
            h.write(b"one")
        h.finish()
        return
    if style == "flushed_cl":
        h.set_header("Content-Length", "3")
    if not nobody:
        h.write(b"o")
    h.flush()
    if not nobody:
        h.write(b"ne")
    h.finish()


def ka_exchange(row, schedule="stepwise", streaming=False, cuts=None, stall=False):
    """Run the scenario on the real server.  schedule: 'stepwise' (request 1, observe, request 2,
    observe) or 'pipelined' (everything in one piece, one observation).
    stall: the client's receive window is closed while request 1 is handled (every socket write would
    block), so the response is still pending when the handler returns; it is drained afterwards.
    Returns the list of trace events."""
    import collections
    from tornado import web
    quiet_logs()

    class Plain(web.RequestHandler):
        def get(self):
            ka_respond(self, row)

        head = post = get

    @web.stream_request_body
    class Early(web.RequestHandler):
        def prepare(self):
            if row["early"]:
                ka_respond(self, row)

        def data_received(self, chunk):
            pass

        def post(self):
            if not row["early"]:
                ka_respond(self, row)

        get = head = post

    class Two(web.RequestHandler):
        def get(self):
            self.write(b"two")

    first = Early if (row["early"] or streaming) else Plain
    env = Env()
    ev = []
    try:
        app = web.Application([("/", first), ("/2", Two)])
        _, srv = make_app_server(env, app=app, no_keep_alive=bool(row["nka"]))
        conn = ServerConn(env, srv)
        head, body = ka_request1(row)
        if stall:
            conn.stream.write_plan = collections.deque()

        def drain():
            if stall and conn.stream.write_plan is not None:
                conn.stream.write_plan = None
                conn.stream.pump()
                env.settle()
        if schedule == "pipelined":
            data = head + body + REQ2
            for c in (cut_at(data, cuts) if cuts else [data]):
                conn.send(c)
            env.settle()
            drain()
            ev.append({"a": "respond1", "args": [], "obs": {}})
            ev.append({"a": "respond2", "args": [], "obs": {}})
            ev.append({"a": "observe2", "args": [], "obs": {"out": list(conn.received()), "eof": bool(conn.closed())}})
            return ev
        conn.send(head)
        env.settle()
        drain()
        if body:
            conn.send(body)
            env.settle()
        ev.append({"a": "respond1", "args": [], "obs": {}})
        ev.append({"a": "observe1", "args": [], "obs": {"out": list(conn.received()), "eof": bool(conn.closed())}})
        conn.send(REQ2)
        env.settle()
        ev.append({"a": "respond2", "args": [], "obs": {}})
        ev.append({"a": "observe2", "args": [], "obs": {"out": list(conn.received()), "eof": bool(conn.closed())}})
        return ev
    finally:
        env.close()


def cut_at(data, points):
    out, last = [], 0
    for p in sorted(set(points)):
        if last < p < len(data):
            out.append(data[last:p])
            last = p
    out.append(data[last:])
    return out


def ka_trace(tid, row, **kw):
    return {"id": tid, "cfg": row, "kw": {k: v for k, v in kw.items() if k != "schedule"}, "ev": ka_exchange(row, **kw)}


# ---------------------------------------------------------------------------------------------
# C07: header-producing API paths fed with application strings

INJ_BENIGN = [111, 107]          # "ok"


def inj_call(h, api, x):
    """Make the call of API path `api` with the application string x (list of code points)."""
    s = "".join(map(chr, x))
    if api == "set_header_str":
        h.set_header("X-T", s)
    elif api == "set_header_bytes":
        h.set_header("X-T", bytes(x))
    elif api == "add_header_value":
        h.add_header("X-T", s)
    elif api == "set_header_name":
        h.set_header(s, "v")
    elif api == "add_header_name":
        h.add_header(s, "v")
    elif api == "status_reason":
        h.set_status(200, reason=s)
    elif api == "cookie_name":
        h.set_cookie(s, "v")
    elif api == "cookie_value":
        h.set_cookie("n", s)
    elif api == "cookie_domain":
        h.set_cookie("n", "v", domain=s)
    elif api == "cookie_path":
        h.set_cookie("n", "v", path=s)
    elif api == "cookie_samesite":
        h.set_cookie("n", "v", samesite=s)
    elif api == "redirect":
        h.redirect(s)
    else:
        raise ValueError("unknown api %r" % (api,))


def inj_run_reason(api, x):
    """Reason phrase supplied without RequestHandler.set_status: 'conn_reason' = a request-callback application
    calling HTTPConnection.write_headers itself; 'wsgi_reason' = the status string of a WSGI application served
    by WSGIContainer (an exception there is only visible as an ERROR record of tornado.application)."""
    from tornado import httpserver, httputil, wsgi
    from .httpsim import LogCapture
    s = "".join(map(chr, x))
    res = {"raised": False, "err": "none"}

    def wsgi_app(environ, start_response):
        start_response("200 " + s, [("Content-Type", "text/plain"), ("Content-Length", "4")])
        return [b"body"]

    def callback_app(request):
        try:
            request.connection.write_headers(httputil.ResponseStartLine("HTTP/1.1", 200, s),
                                             httputil.HTTPHeaders({"Content-Length": "4"}), b"body")
            request.connection.finish()
        except Exception as e:
            res["raised"], res["err"] = True, type(e).__name__
            raise

    env = Env()
    try:
        with LogCapture() as lc:
            srv = httpserver.HTTPServer(wsgi.WSGIContainer(wsgi_app) if api == "wsgi_reason" else callback_app)
            conn = ServerConn(env, srv)
            conn.send(b"GET / HTTP/1.1\r\nHost: x\r\n\r\n")
            env.settle()
            out, eof = conn.received(), conn.closed()
        if api == "wsgi_reason" and any(n == "tornado.application" and lv == "ERROR" for n, lv, _ in lc.names("ERROR")):
            res["raised"], res["err"] = True, "logged"
        return res["raised"], res["err"], out, eof
    finally:
        env.close()
        globals()["_quiet_done"] = False      # LogCapture restored the handlers


def inj_run(api, x, flush_first=False):
    """-> (raised, err, out, eof): serve one GET whose handler makes the call and finishes."""
    if api in ("conn_reason", "wsgi_reason"):
        return inj_run_reason(api, x)
    from tornado import web
    quiet_logs()
    res = {"raised": False, "err": "none"}

    class H(web.RequestHandler):
        def get(self):
            try:
                inj_call(self, api, x)
                if api != "redirect":
                    self.write(b"body")
                    if flush_first:
                        self.flush()
                    self.finish()
            except Exception as e:
                res["raised"] = True
                res["err"] = type(e).__name__
                raise

    env = Env()
    try:
        app = web.Application([("/", H)])
        _, srv = make_app_server(env, app=app)
        conn = ServerConn(env, srv)
        conn.send(b"GET / HTTP/1.1\r\nHost: x\r\n\r\n")
        env.settle()
        return res["raised"], res["err"], conn.received(), conn.closed()
    finally:
        env.close()


_BASELINE = {}


def inj_trace(tid, api, x, flush_first=False):
    key = (api, flush_first)
    if key not in _BASELINE:
        r0 = inj_run(api, INJ_BENIGN if api not in ("set_header_name", "add_header_name") else [88, 45, 79, 107], flush_first)
        if r0[0]:
            raise RuntimeError("baseline call of %s raised %s" % (api, r0[1]))
        _BASELINE[key] = list(r0[2])
    raised, err, out, eof = inj_run(api, x, flush_first)
    return {"id": tid, "cfg": {"api": api, "x": list(x), "flush_first": bool(flush_first)},
            "ev": [{"a": "call", "args": [], "obs": {"raised": raised, "err": err}},
                   {"a": "response", "args": [], "obs": {"raised": raised, "out": list(out), "eof": bool(eof),
                                                        "out0": _BASELINE[key]}}]}


# ---------------------------------------------------------------------------------------------
# C29: compress_response=True

def rle(data):
    """bytes -> [[n, b], ...] run-length form used by Gzip.tla."""
    out = []
    for b in data:
        if out and out[-1][1] == b:
            out[-1][0] += 1
        else:
            out.append([1, b])
    return out


def unrle(runs):
    return b"".join(bytes([b]) * n for n, b in runs)


def gunzip_strict(body):
    """Opaque codec side: decode `body` as exactly one complete gzip member (stdlib zlib)."""
    import zlib
    try:
        d = zlib.decompressobj(16 + zlib.MAX_WBITS)
        dec = d.decompress(body)
        ok = d.eof and d.unused_data == b"" and d.unconsumed_tail == b""
        return bool(ok), dec
    except zlib.error:
        return False, b""


def gz_trace(tid, cfg, ops, write_plan=None):
    """ops = [(act, [runs]) | ('flush', [])]; executes on an app with compress_response=True."""
    from .httpsim import split_responses

    resp = cfg.get("resp", "200")

    def prelude(h):
        if resp == "204":
            h.set_status(204)
        if cfg["ctype"] != "default":
            h.set_header("Content-Type", cfg["ctype"])
        if cfg["pre"] == "vary":
            h.set_header("Vary", "Cookie")
        elif cfg["pre"] == "ce":
            h.set_header("Content-Encoding", "br")

    real_ops = [(a, [list(unrle(args[0]))]) if a in ("write", "finish") else (a, args) for a, args in ops]
    hdrs = [] if cfg["ae"] == "absent" else ["Accept-Encoding: " + cfg["ae"]]
    method = cfg.get("method", "GET")
    c = {"method": method, "version": cfg["version"], "inm": "match" if resp == "304" else "absent"}
    ev, out, eof = run_program(c, real_ops, app_settings={"compress_response": True}, extra_headers=hdrs,
                               prelude=prelude, write_plan=write_plan)
    gout = geof = None
    if method == "HEAD":      # the same program answered to GET: what "the body a GET would carry" is
        _, gout, geof = run_program(dict(c, method="GET"), real_ops, app_settings={"compress_response": True},
                                    extra_headers=hdrs, prelude=prelude)
    # put the run-length arguments back (the trace carries what the spec action takes)
    k = 0
    for e in ev:
        if e["a"] in ("write", "finish", "flush"):
            e["args"] = ops[k][1]
            k += 1
    gz = {"used": False, "ok": False, "enc": [], "dec": []}
    try:
        msgs = split_responses(out)           # transport plumbing: where is the body the stdlib should decode
        if msgs and msgs[0][0] is not None and any(n.lower() == "content-encoding" and v.lower() == "gzip" for n, v in msgs[0][3]):
            ok, dec = gunzip_strict(msgs[0][4])
            gz = {"used": True, "ok": ok, "enc": list(msgs[0][4]), "dec": list(dec)}
    except Exception:
        pass
    obs = {"out": list(out), "eof": bool(eof), "gz": gz}
    if gout is not None:
        obs["gout"], obs["geof"] = list(gout), bool(geof)
    ev.append({"a": "response", "args": [], "obs": obs})
    return {"id": tid, "cfg": dict(cfg, method=method, resp=resp), "ev": ev}


def _gz_job(args):
    tid, cfg, ops, kw = args
    return gz_trace(tid, cfg, ops, **kw)


def head_vs_get(ctx, sig_fn, base_id=500000, extra_random=200):
    """HEAD under compress_response: every write/flush/finish program up to 2 operations (lengths 0 / 1024) x
    {compressible, not} x {Accept-Encoding absent, gzip} answered to HEAD and to GET; TLC (Trace_Gzip,
    HeadMatchesGet) compares the two raw responses.  Used by C02 (Content-Length of a HEAD) and C29."""
    import random
    from . import framework
    paths = ctx.gen_paths("httpw", "Gen_Gzip", "Gen_Gzip.cfg",
                          overrides={"Methods": '{"HEAD"}', "Lens": "{0, 1024}", "MaxOps": 2, "L": 3,
                                     "CTypes": '{"default", "image/png"}', "AEs": '{"absent", "gzip"}'})
    jobs = []
    for i, (extra, path) in enumerate(paths):
        ops = [(s["act"], s["args"]) for s in path if s["act"] != "end"]
        jobs.append((base_id + i + 1, extra["cfg"], ops, {}))
    for i in range(extra_random):
        rng = random.Random(ctx.seed * 7919 + i)
        cfg = {"method": "HEAD", "version": rng.choice(["1.1", "1.0"]), "ctype": rng.choice(["default", "application/json", "image/png"]),
               "ae": rng.choice(["gzip", "gzip", "absent", "deflate, gzip"]), "pre": rng.choice(["none", "none", "vary"])}
        ops = []
        for _ in range(rng.randint(1, 4)):
            r = rng.random()
            if r < 0.6:
                ops.append(("write", [rle(bytes([rng.choice(b"ab")]) * rng.choice([1, 600, 1024, 3000]))]))
            elif r < 0.8:
                ops.append(("flush", []))
            else:
                ops.append(("finish", [rle(b"z" * rng.choice([0, 2000]))]))
        jobs.append((base_id + len(paths) + i + 1, cfg, ops, {}))
    traces = framework.pool_map(_gz_job, jobs)
    ctx.validate("httpw", "Trace_Gzip", "Trace_Gzip.cfg", traces, label="head-vs-get", sig_fn=sig_fn, timeout=900)
    return len(traces)
