"""Regenerates the replay files of the httpw known findings (replays/Cnn/<id>-*.json).

    /venv/bin/python -m harness.httpw_findings
    ./check C02 --replay replays/C02/F05-flush-http10-keepalive.json      -> "REJECTED by the specification"

Each file holds one minimal recorded trace (same record shape the framework writes for a violation)."""
import json
import os

from . import VERIF
from . import httpw_driver as drv

A, B = [97], [98, 99]
XA = list(b"X-A")


def _save(pid, name, what, trace, sig):
    d = os.path.join(VERIF, "replays", pid)
    os.makedirs(d, exist_ok=True)
    with open(os.path.join(d, name + ".json"), "w") as f:
        json.dump({"property": pid, "sig": sig, "seed": 0, "tier": "quick", "what": what,
                   "detail": {"trace": trace}}, f, indent=1, sort_keys=True)


def main():
    c = {"method": "GET", "version": "1.0ka", "inm": "absent"}
    _save("C02", "F05-flush-http10-keepalive", "flushed response to an HTTP/1.0 keep-alive client is undelimited and left open",
          drv.program_trace(1, c, [("write", [A]), ("flush", []), ("finish", [B])]), {"id": "F05"})
    c11 = {"method": "GET", "version": "1.1", "inm": "absent"}
    _save("C02", "F40-204-body-through-flush", "body bytes of a 204 response are sent raw through flush()",
          drv.program_trace(1, c11, [("set_status", [204]), ("write", [A]), ("flush", [])]), {"id": "F40"})
    _save("C02", "F02-clear-header-after-two-adds", "clear_header after two add_header raises KeyError (fixed in /repo by 2f9c0d0)",
          drv.program_trace(1, c11, [("add_header", [XA, [49]]), ("add_header", [XA, [50]]), ("clear_header", [XA])]), {"id": "F02"})
    row = {"version": "1.1", "conn": "close, x", "method": "GET", "reqbody": "none", "nka": False, "early": False,
           "style": "buffered", "rstatus": 200}
    _save("C03", "F21-close-in-option-list", "Connection: close, x not treated as close", drv.ka_trace(1, row), {"id": "F21"})
    _save("C03", "F05-flush-http10-keepalive", "flushed response to HTTP/1.0 keep-alive kept open",
          drv.ka_trace(1, dict(row, version="1.0", conn="keep-alive", style="flushed")), {"id": "F05"})
    _save("C03", "F41-keepalive-ack-then-close", "Connection: Keep-Alive sent by a no_keep_alive server that then closes",
          drv.ka_trace(1, dict(row, version="1.0", conn="keep-alive", nka=True)), {"id": "F41"})
    _save("C03", "F42-early-finish-no-close-header", "early finish closes an HTTP/1.1 connection without Connection: close",
          drv.ka_trace(1, dict(row, conn="absent", method="POST", reqbody="cl", early=True)), {"id": "F42"})
    _save("C07", "F06-set-header-name-nul", "set_header name with NUL reaches the wire",
          drv.inj_trace(1, "set_header_name", [97, 0]), {"id": "F06"})
    _save("C07", "F06-set-header-name-colon", "set_header name with ':' reaches the wire",
          drv.inj_trace(1, "set_header_name", [97, 58]), {"id": "F06"})
    _save("C07", "F06-set-header-name-lf-after-flush", "set_header name with LF: bare 0 CRLF CRLF on the wire after a flush",
          drv.inj_trace(1, "set_header_name", [97, 10, 98], True), {"id": "F06"})
    _save("C07", "F43-cookie-path-wide-char", "set_cookie path with U+010A: no response, connection left open",
          drv.inj_trace(1, "cookie_path", [97, 266]), {"id": "F43"})
    print("replay files written under %s/replays/{C02,C03,C07}" % VERIF)


if __name__ == "__main__":
    main()
