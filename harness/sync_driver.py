"""Drivers binding specs/sync/*.tla to tornado.locks / tornado.queues (C33, C34, C35).

Each *Real class wraps the real object on a virtual-time loop and exposes `step(act, args)`
returning the same projection the specification defines (`Proj`)."""
import datetime

from .vloop import Env, fut_state

NOTO = 999


class SemReal:
    """Real Semaphore / BoundedSemaphore / Lock behind the Semaphore.tla action interface.

    mode: how acquire is performed - 'call' (plain acquire()), 'async_with' (a native coroutine
    doing `async with obj`, released by the harness through a gate) or 'legacy'
    (`with (yield obj.acquire())` inside a @gen.coroutine)."""

    def __init__(self, cfg, nw, tdelta=False, absolute=False):
        from tornado import locks
        self.env = Env()
        self.nw = nw
        kind, init = cfg["kind"], cfg["init"]
        if kind == "sem":
            self.obj = locks.Semaphore(init)
        elif kind == "bounded":
            self.obj = locks.BoundedSemaphore(init)
        else:
            self.obj = locks.Lock()
        self.futs = {}
        self.dl = {}
        self.grants = []
        self.err = "none"
        self.tdelta = tdelta
        self.absolute = absolute

    def _timeout(self, to):
        if to == NOTO:
            return None
        if self.absolute:
            return self.env.now + to
        return datetime.timedelta(seconds=to)

    def proj(self):
        st = []
        for w in range(1, self.nw + 1):
            f = self.futs.get(w)
            if f is None:
                st.append("idle")
            elif not f.done():
                st.append("pending")
            elif f.cancelled():
                st.append("cancelled")
            elif f.exception() is not None:
                st.append("timedout" if type(f.exception()).__name__ == "TimeoutError" else "exc:" + type(f.exception()).__name__)
            else:
                st.append("granted")
        return {"st": st, "grants": list(self.grants), "err": self.err}

    def step(self, act, args):
        self.err = "none"
        try:
            if act == "acquire":
                w, to = args
                f = self.obj.acquire(self._timeout(to))
                self.futs[w] = f
                self.dl[w] = None if to == NOTO else to

                def cb(fut, w=w):
                    if not fut.cancelled() and fut.exception() is None:
                        self.grants.append(w)
                f.add_done_callback(cb)
            elif act == "release":
                self.obj.release()
            elif act == "advance":
                self.env.advance(args[0])
            elif act == "cancel":
                self.futs[args[0]].cancel()
            else:
                raise ValueError(act)
        except Exception as e:      # any exception of the real call is an observation, never a harness crash
            self.err = type(e).__name__
        self.env.settle()
        return self.proj()

    def close(self):
        self.env.close()
