"""Drivers binding specs/sync/*.tla to tornado.locks / tornado.queues (C33, C34, C35).

Each *Real class wraps the real object on a virtual-time loop and exposes `step(act, args)`
returning the same projection the specification defines (`Proj`)."""
import datetime

from .vloop import Env, fut_state

NOTO = 999


class SemReal:
    """Real Semaphore / BoundedSemaphore / Lock behind the Semaphore.tla action interface.

    mode: how acquire is performed - 'call' (plain acquire()), 'async_with' (a native coroutine
    doing `async with obj`, released by the harness through a gate) or 'legacy'
    (`with (yield obj.acquire())` inside a @gen.coroutine)."""

    def __init__(self, cfg, nw, tdelta=False, absolute=False):
        from tornado import locks
        self.env = Env()
        self.nw = nw
        kind, init = cfg["kind"], cfg["init"]
        if kind == "sem":
            self.obj = locks.Semaphore(init)
        elif kind == "bounded":
            self.obj = locks.BoundedSemaphore(init)
        else:
            self.obj = locks.Lock()
        self.futs = {}
        self.dl = {}
        self.grants = []
        self.err = "none"
        self.tdelta = tdelta
        self.absolute = absolute

    def _timeout(self, to):
        if to == NOTO:
            return None
        if self.absolute:
            return self.env.now + to
        return datetime.timedelta(seconds=to)

    def proj(self):
        st = []
        for w in range(1, self.nw + 1):
            f = self.futs.get(w)
            if f is None:
                st.append("idle")
            elif not f.done():
                st.append("pending")
            elif f.cancelled():
                st.append("cancelled")
            elif f.exception() is not None:
                st.append("timedout" if type(f.exception()).__name__ == "TimeoutError" else "exc:" + type(f.exception()).__name__)
            else:
                st.append("granted")
        return {"st": st, "grants": list(self.grants), "err": self.err}

    def step(self, act, args):
        self.err = "none"
        try:
            if act == "acquire":
                w, to = args
                f = self.obj.acquire(self._timeout(to))
                self.futs[w] = f
                self.dl[w] = None if to == NOTO else to

                def cb(fut, w=w):
                    if not fut.cancelled() and fut.exception() is None:
                        self.grants.append(w)
                f.add_done_callback(cb)
            elif act == "release":
                self.obj.release()
            elif act == "advance":
                self.env.advance(args[0])
            elif act == "cancel":
                self.futs[args[0]].cancel()
            else:
                raise ValueError(act)
        except Exception as e:      # any exception of the real call is an observation, never a harness crash
            self.err = type(e).__name__
        self.env.settle()
        return self.proj()

    def close(self):
        self.env.close()


# ---------------------------------------------------------------------------------------
# C34: Condition / Event behind the CondEvent.tla action interface

def _wait_state(fut):
    """Terminal state name of a finished wait future (CondEvent.tla's st values)."""
    if fut.cancelled():
        return "cancelled"
    e = fut.exception()
    if e is not None:
        return "timeout" if type(e).__name__ == "TimeoutError" else "exc:" + type(e).__name__
    r = fut.result()
    if r is True:
        return "true"
    if r is False:
        return "false"
    if r is None:
        return "ok"
    return "res:" + repr(r)[:20]


class _Fused:
    """Placement of event-loop iterations between calls (used by the fused replays of C34 / C35).

    The specifications are sequential: one action = one public call, and whether the loop runs
    between two calls is not part of a behaviour.  `step` runs the loop to quiescence after every
    call; `run_group` performs several calls back to back inside ONE loop iteration (no callback
    runs between them); `advance_then` lets the clock reach the deadline and performs the calls from
    a callback that runs in the same loop iteration as the timers due at that deadline (delay = 0,
    right after them) or `delay` iterations later, i.e. while the clean-up callbacks of the expired
    waiters are still queued.  A call with timeout 0 must be followed by a settle (the spec lets it
    expire before the next call), which is the caller's business."""

    EPS = 1e-12     # the follow-up callback is due this much after the deadline: same iteration, after the timers

    def _finish_calls(self, errs):
        self.env.settle()
        if self.env.loop.uncaught:
            errs.append("uncaught:" + str(self.env.loop.uncaught[0].get("message"))[:60])
            del self.env.loop.uncaught[:]
        return errs

    def run_group(self, calls):
        """calls: [(act, args)] performed without running the loop in between; returns their err names."""
        errs = [self._call(a, args) for a, args in calls]
        return self._finish_calls(errs)

    def advance_then(self, d, calls, delay=0):
        errs = []
        loop = self.env.loop

        def run():
            for a, args in calls:
                errs.append(self._call(a, args))

        def hop(n):
            if n <= 0:
                run()
            else:
                loop.call_soon(hop, n - 1)
        self.env.settle()
        t = self.env.now + d + self.EPS
        loop.call_at(t, hop, delay)
        self.env.advance_to(t)
        if len(errs) != len(calls):
            errs.append("harness:follow-up-not-run")
        return self._finish_calls(errs)


class CondEventReal(_Fused):
    """Real tornado.locks.Condition / Event on the virtual loop.

    style: timeouts are passed alternately as datetime.timedelta and as absolute deadlines
    (IOLoop.time() + t), starting with timedelta when style is even.

    Event waits are held through weak references only: the harness drops the future as soon as
    the call returns, a done-callback (which does not refer to the future) records the outcome.
    `held[w]` is whether the future object is still alive after the step's settle - for a
    pending wait the event itself must keep it reachable, for a finished wait nothing may
    ("finished waits leave no residue").  Condition waits are held strongly (no residue claim:
    timed-out condition waiters are cleaned lazily by design)."""

    def __init__(self, cfg, nw, style=0):
        from tornado import locks
        self.env = Env()
        self.nw = nw
        self.kind = cfg["kind"]
        self.obj = locks.Condition() if self.kind == "cond" else locks.Event()
        self.refs = {}      # w -> callable returning the future or None
        self.final = {}     # w -> terminal state
        self.dl = {}        # w -> relative timeout given (None = no deadline)
        self.woken = []
        self.err = "none"
        self.style = style
        self.calls = 0

    def _timeout(self, to):
        if to == NOTO:
            return None
        self.calls += 1
        if (self.style + self.calls) & 1:
            return datetime.timedelta(seconds=to)
        return self.env.now + to

    def pending(self):
        return [w for w in self.refs if w not in self.final]

    def _st(self):
        st = []
        for w in range(1, self.nw + 1):
            if w not in self.refs:
                st.append("idle")
            else:
                st.append(self.final.get(w, "pending"))
        return st

    def proj(self):
        if self.kind == "cond":
            p = {"st": self._st(), "woken": list(self.woken)}
        else:
            held = [(w in self.refs and self.refs[w]() is not None) for w in range(1, self.nw + 1)]
            if any(h and (w + 1) in self.final for w, h in enumerate(held)):
                # refcounting did not free a finished wait: give the cycle collector a chance before
                # calling it residue (only reference cycles are excused, not live references)
                import gc
                gc.collect()
                held = [(w in self.refs and self.refs[w]() is not None) for w in range(1, self.nw + 1)]
            p = {"st": self._st(), "flag": self.obj.is_set(), "held": held}
        if self.err != "none":
            p["err"] = self.err
        return p

    def _track(self, w, fut):
        me = self

        def cb(f, w=w):
            s = _wait_state(f)
            me.final[w] = s
            if s == "true":
                me.woken.append(w)
        fut.add_done_callback(cb)
        if self.kind == "cond":
            self.refs[w] = (lambda fut=fut: fut)
        else:
            import weakref
            self.refs[w] = weakref.ref(fut)

    def _call(self, act, args):
        """One public call (no loop iteration); returns the exception class name or "none"."""
        try:
            if act in ("wait", "ev_wait"):
                w, to = args
                self.dl[w] = None if to == NOTO else to
                self._track(w, self.obj.wait(self._timeout(to)))
            elif act == "notify":
                self.obj.notify(args[0])
            elif act == "notify_all":
                self.obj.notify_all()
            elif act == "set":
                self.obj.set()
            elif act == "clear":
                self.obj.clear()
            elif act == "cancel":
                f = self.refs[args[0]]()
                if f is None:
                    return "lost-future"
                f.cancel()
                del f
            else:
                raise ValueError(act)
        except Exception as e:      # any exception of the real call is an observation, never a harness crash
            return type(e).__name__
        return "none"

    def observe(self, errs):
        bad = [e for e in errs if e != "none"]
        self.err = bad[0] if bad else "none"
        return self.proj()

    def step(self, act, args):
        if act == "advance":
            self.env.advance(args[0])
            return self.observe(self._finish_calls([]))
        return self.observe(self.run_group([(act, args)]))

    def close(self):
        self.env.close()


# ---------------------------------------------------------------------------------------
# C35: Queue / LifoQueue / PriorityQueue behind the Queue.tla action interface

def _op_state(f):
    """State name of a put / get / join future (Queue.tla's pst / gst / jst values)."""
    if isinstance(f, str):
        return f
    if not f.done():
        return "pending"
    if f.cancelled():
        return "cancelled"
    e = f.exception()
    if e is not None:
        return "timedout" if type(e).__name__ == "TimeoutError" else "exc:" + type(e).__name__
    return "ok"


class QueueReal(_Fused):
    """Real tornado.queues.Queue / LifoQueue / PriorityQueue on the virtual loop.

    The item of put call p with priority pr is the tuple (pr, p) - what Queue.tla calls <<pr, p>>.
    style: timeouts are passed alternately as datetime.timedelta and as absolute deadlines; with
    an odd style untimed gets go through the queue's async iterator (`q.__aiter__().__anext__()`)."""

    KINDS = {"fifo": "Queue", "lifo": "LifoQueue", "prio": "PriorityQueue"}

    def __init__(self, cfg, np_, ng, nj, style=0):
        from tornado import queues
        self.env = Env()
        self.np, self.ng, self.nj = np_, ng, nj
        self.q = getattr(queues, self.KINDS[cfg["kind"]])(maxsize=cfg["maxsize"])
        self.it = self.q.__aiter__()
        self.p, self.g, self.j = {}, {}, {}     # id -> future | terminal state name
        self.gv = {}                            # get id -> item returned by get_nowait
        self.dl = {}                            # ("p"|"g"|"j", id) -> relative timeout or None
        self.err = "none"
        self.style = style
        self.calls = 0

    def _timeout(self, to):
        if to == NOTO:
            return None
        self.calls += 1
        if (self.style + self.calls) & 1:
            return datetime.timedelta(seconds=to)
        return self.env.now + to

    def pending(self, which):
        d = {"p": self.p, "g": self.g, "j": self.j}[which]
        return [k for k, f in d.items() if not isinstance(f, str) and not f.done()]

    def timed_pending(self):
        return [(w, k) for w in "pgj" for k in self.pending(w) if self.dl.get((w, k)) is not None]

    @staticmethod
    def _item(v):
        if isinstance(v, tuple) and len(v) == 2 and all(isinstance(x, int) for x in v):
            return list(v)
        return ["?", repr(v)[:30]]

    def proj(self):
        pst = [_op_state(self.p[i]) if i in self.p else "idle" for i in range(1, self.np + 1)]
        gst = [_op_state(self.g[i]) if i in self.g else "idle" for i in range(1, self.ng + 1)]
        jst = [_op_state(self.j[i]) if i in self.j else "idle" for i in range(1, self.nj + 1)]
        gval = []
        for i in range(1, self.ng + 1):
            if i in self.gv:
                gval.append(self._item(self.gv[i]))
            elif gst[i - 1] == "ok":
                gval.append(self._item(self.g[i].result()))
            else:
                gval.append([])
        try:
            size, empty, full = self.q.qsize(), self.q.empty(), self.q.full()
        except Exception as e:
            size, empty, full = "exc:" + type(e).__name__, None, None
        return {"pst": pst, "gst": gst, "gval": gval, "jst": jst, "qsize": size, "empty": empty, "full": full,
                "err": self.err}

    def _call(self, act, args):
        """One public call (no loop iteration); returns the exception class name or "none"."""
        try:
            if act == "put":
                p, pr, to = args
                self.p[p] = "raised"
                self.dl[("p", p)] = None if to == NOTO else to
                self.p[p] = self.q.put((pr, p), self._timeout(to))
            elif act == "put_nowait":
                p, pr = args
                self.p[p] = "raised"
                try:
                    self.q.put_nowait((pr, p))
                    self.p[p] = "ok"
                except Exception as e:
                    self.p[p] = "full" if type(e).__name__ == "QueueFull" else "exc:" + type(e).__name__
                    raise
            elif act == "get":
                g, to = args
                self.g[g] = "raised"
                self.dl[("g", g)] = None if to == NOTO else to
                if to == NOTO and self.style & 1:
                    self.g[g] = self.it.__anext__()
                else:
                    self.g[g] = self.q.get(self._timeout(to))
            elif act == "get_nowait":
                g = args[0]
                self.g[g] = "raised"
                try:
                    self.gv[g] = self.q.get_nowait()
                    self.g[g] = "ok"
                except Exception as e:
                    self.g[g] = "empty" if type(e).__name__ == "QueueEmpty" else "exc:" + type(e).__name__
                    raise
            elif act == "task_done":
                self.q.task_done()
            elif act == "join":
                j, to = args
                self.j[j] = "raised"
                self.dl[("j", j)] = None if to == NOTO else to
                self.j[j] = self.q.join(self._timeout(to))
            elif act == "cancel_put":
                self.p[args[0]].cancel()
            elif act == "cancel_get":
                self.g[args[0]].cancel()
            elif act == "cancel_join":
                self.j[args[0]].cancel()
            else:
                raise ValueError(act)
        except Exception as e:      # any exception of the real call is an observation, never a harness crash
            return type(e).__name__
        return "none"

    def observe(self, errs):
        """Projection after a settled group of calls; err is the last call's (an uncaught loop error wins)."""
        self.err = errs[-1] if errs else "none"
        return self.proj()

    def step(self, act, args):
        if act == "advance":
            self.env.advance(args[0])
            return self.observe(self._finish_calls([]))
        return self.observe(self.run_group([(act, args)]))

    def close(self):
        # retrieve exceptions so that dropping the futures does not log through the closed loop
        for d in (self.p, self.g, self.j):
            for f in d.values():
                if not isinstance(f, str) and f.done() and not f.cancelled():
                    f.exception()
        self.env.close()
