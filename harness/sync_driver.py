"""Drivers binding specs/sync/*.tla to tornado.locks / tornado.queues (C33, C34, C35).

Each *Real class wraps the real object on a virtual-time loop and exposes `step(act, args)`
returning the same projection the specification defines (`Proj`)."""
import datetime

from .vloop import Env, fut_state

NOTO = 999


class SemReal:
    """Real Semaphore / BoundedSemaphore / Lock behind the Semaphore.tla action interface.

    mode: how acquire is performed - 'call' (plain acquire()), 'async_with' (a native coroutine
    doing `async with obj`, released by the harness through a gate) or 'legacy'
    (`with (yield obj.acquire())` inside a @gen.coroutine)."""

    def __init__(self, cfg, nw, tdelta=False, absolute=False):
        from tornado import locks
        self.env = Env()
        self.nw = nw
        kind, init = cfg["kind"], cfg["init"]
        if kind == "sem":
            self.obj = locks.Semaphore(init)
        elif kind == "bounded":
            self.obj = locks.BoundedSemaphore(init)
        else:
            self.obj = locks.Lock()
        self.futs = {}
        self.dl = {}
        self.grants = []
        self.err = "none"
        self.tdelta = tdelta
        self.absolute = absolute

    def _timeout(self, to):
        if to == NOTO:
            return None
        if self.absolute:
            return self.env.now + to
        return datetime.timedelta(seconds=to)

    def proj(self):
        st = []
        for w in range(1, self.nw + 1):
            f = self.futs.get(w)
            if f is None:
                st.append("idle")
            elif not f.done():
                st.append("pending")
            elif f.cancelled():
                st.append("cancelled")
            elif f.exception() is not None:
                st.append("timedout" if type(f.exception()).__name__ == "TimeoutError" else "exc:" + type(f.exception()).__name__)
            else:
                st.append("granted")
        return {"st": st, "grants": list(self.grants), "err": self.err}

    def step(self, act, args):
        self.err = "none"
        try:
            if act == "acquire":
                w, to = args
                f = self.obj.acquire(self._timeout(to))
                self.futs[w] = f
                self.dl[w] = None if to == NOTO else to

                def cb(fut, w=w):
                    if not fut.cancelled() and fut.exception() is None:
                        self.grants.append(w)
                f.add_done_callback(cb)
            elif act == "release":
                self.obj.release()
            elif act == "advance":
                self.env.advance(args[0])
            elif act == "cancel":
                self.futs[args[0]].cancel()
            else:
                raise ValueError(act)
        except Exception as e:      # any exception of the real call is an observation, never a harness crash
            self.err = type(e).__name__
        self.env.settle()
        return self.proj()

    def close(self):
        self.env.close()


# ---------------------------------------------------------------------------------------
# C34: Condition / Event behind the CondEvent.tla action interface

def _wait_state(fut):
    """Terminal state name of a finished wait future (CondEvent.tla's st values)."""
    if fut.cancelled():
        return "cancelled"
    e = fut.exception()
    if e is not None:
        return "timeout" if type(e).__name__ == "TimeoutError" else "exc:" + type(e).__name__
    r = fut.result()
    if r is True:
        return "true"
    if r is False:
        return "false"
    if r is None:
        return "ok"
    return "res:" + repr(r)[:20]


class CondEventReal:
    """Real tornado.locks.Condition / Event on the virtual loop.

    style: timeouts are passed alternately as datetime.timedelta and as absolute deadlines
    (IOLoop.time() + t), starting with timedelta when style is even.

    Event waits are held through weak references only: the harness drops the future as soon as
    the call returns, a done-callback (which does not refer to the future) records the outcome.
    `held[w]` is whether the future object is still alive after the step's settle - for a
    pending wait the event itself must keep it reachable, for a finished wait nothing may
    ("finished waits leave no residue").  Condition waits are held strongly (no residue claim:
    timed-out condition waiters are cleaned lazily by design)."""

    def __init__(self, cfg, nw, style=0):
        from tornado import locks
        self.env = Env()
        self.nw = nw
        self.kind = cfg["kind"]
        self.obj = locks.Condition() if self.kind == "cond" else locks.Event()
        self.refs = {}      # w -> callable returning the future or None
        self.final = {}     # w -> terminal state
        self.dl = {}        # w -> relative timeout given (None = no deadline)
        self.woken = []
        self.err = "none"
        self.style = style
        self.calls = 0

    def _timeout(self, to):
        if to == NOTO:
            return None
        self.calls += 1
        if (self.style + self.calls) & 1:
            return datetime.timedelta(seconds=to)
        return self.env.now + to

    def pending(self):
        return [w for w in self.refs if w not in self.final]

    def _st(self):
        st = []
        for w in range(1, self.nw + 1):
            if w not in self.refs:
                st.append("idle")
            else:
                st.append(self.final.get(w, "pending"))
        return st

    def proj(self):
        if self.kind == "cond":
            p = {"st": self._st(), "woken": list(self.woken)}
        else:
            held = [(w in self.refs and self.refs[w]() is not None) for w in range(1, self.nw + 1)]
            if any(h and (w + 1) in self.final for w, h in enumerate(held)):
                # refcounting did not free a finished wait: give the cycle collector a chance before
                # calling it residue (only reference cycles are excused, not live references)
                import gc
                gc.collect()
                held = [(w in self.refs and self.refs[w]() is not None) for w in range(1, self.nw + 1)]
            p = {"st": self._st(), "flag": self.obj.is_set(), "held": held}
        if self.err != "none":
            p["err"] = self.err
        return p

    def _track(self, w, fut):
        me = self

        def cb(f, w=w):
            s = _wait_state(f)
            me.final[w] = s
            if s == "true":
                me.woken.append(w)
        fut.add_done_callback(cb)
        if self.kind == "cond":
            self.refs[w] = (lambda fut=fut: fut)
        else:
            import weakref
            self.refs[w] = weakref.ref(fut)

    def step(self, act, args):
        self.err = "none"
        try:
            if act in ("wait", "ev_wait"):
                w, to = args
                self.dl[w] = None if to == NOTO else to
                self._track(w, self.obj.wait(self._timeout(to)))
            elif act == "notify":
                self.obj.notify(args[0])
            elif act == "notify_all":
                self.obj.notify_all()
            elif act == "set":
                self.obj.set()
            elif act == "clear":
                self.obj.clear()
            elif act == "advance":
                self.env.advance(args[0])
            elif act == "cancel":
                f = self.refs[args[0]]()
                if f is None:
                    self.err = "lost-future"
                else:
                    f.cancel()
                    del f
            else:
                raise ValueError(act)
        except Exception as e:      # any exception of the real call is an observation, never a harness crash
            self.err = type(e).__name__
        self.env.settle()
        if self.env.loop.uncaught:
            self.err = "uncaught:" + str(self.env.loop.uncaught[0].get("message"))[:60]
            del self.env.loop.uncaught[:]
        return self.proj()

    def close(self):
        self.env.close()
