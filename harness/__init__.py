"""Shared verification harness for the tornado TLA+ specifications.

Importing this package puts the repository under test on sys.path.  The
repository is /repo unless VERIF_REPO names another working tree (used to run
the checks against scratch worktrees carrying seeded changes).
"""
import os
import sys

REPO = os.environ.get("VERIF_REPO", "/repo")
VERIF = os.path.dirname(os.path.dirname(os.path.abspath(__file__)))
sys.dont_write_bytecode = True
os.environ.setdefault("PYTHONDONTWRITEBYTECODE", "1")
os.environ.setdefault("TORNADO_VERIF", "1")
# the C extension is never needed except by C18, which compiles it itself
if REPO not in sys.path:
    sys.path.insert(0, REPO)
if VERIF not in sys.path:
    sys.path.insert(0, VERIF)
