"""setup-time self test: TLA value parser, virtual loop, in-memory stream, every spec parses."""
import glob
import os
import sys

from . import VERIF, tlaval, tlc


def main():
    v = tlaval.parse_value('[a |-> <<1, "x\\"y">>, b |-> {1, 2}, c |-> (1 :> "p" @@ 2 :> "q"), d |-> TRUE]')
    assert v["a"] == (1, 'x"y') and v["b"] == frozenset({1, 2}) and v["c"] == {1: "p", 2: "q"} and v["d"] is True, v
    assert tlaval.parse_value("<<>>") == () and tlaval.parse_value("1..3") == frozenset({1, 2, 3})
    from .vloop import Env
    from tornado import gen
    import asyncio
    with Env() as env:
        async def co():
            await gen.sleep(3)
            return 7
        t = asyncio.ensure_future(co(), loop=env.loop)
        env.settle()
        assert not t.done()
        env.advance(3)
        assert t.result() == 7 and env.now == 1003.0
    bad = 0
    mods = sorted(glob.glob(os.path.join(VERIF, "specs", "*", "*.tla")))
    if "--no-sany" not in sys.argv:
        from concurrent.futures import ThreadPoolExecutor
        def one(path):
            return path, tlc.sany(os.path.dirname(path), os.path.basename(path))
        with ThreadPoolExecutor(8) as ex:
            for path, (ok, out) in ex.map(one, mods):
                if not ok:
                    bad += 1
                    print("SANY FAILED", path)
                    print(out[-1500:])
    print("selftest: %d modules parsed, %d failed" % (len(mods), bad))
    return 1 if bad else 0


if __name__ == "__main__":
    sys.exit(main())
