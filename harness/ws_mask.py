"""C18 binding: compile tornado/speedups.c from the working tree under test into a scratch
directory (outside /repo and /verif), load it with importlib, and call both the compiled
websocket_mask and tornado.util._websocket_mask_python on identical inputs.

Nothing here knows what masking *is*: expected values come from TLC (Gen_MaskRef dump for the
spec -> code direction, Trace_MaskRef for the code -> spec direction)."""
import ctypes
import importlib.machinery
import importlib.util
import os
import shutil
import subprocess
import sys
import sysconfig
import tempfile

from . import REPO
from .framework import Machinery

_CACHE = {}


def build_speedups(opt="-O2"):
    """Compile <REPO>/tornado/speedups.c; returns (module, build_dir)."""
    if opt in _CACHE:
        return _CACHE[opt]
    src = os.path.join(REPO, "tornado", "speedups.c")
    if not os.path.exists(src):
        raise Machinery("speedups.c not found in %s" % REPO)
    base = os.environ.get("VERIF_SCRATCH", "/tmp/verif-scratch")
    os.makedirs(base, exist_ok=True)
    d = tempfile.mkdtemp(prefix="c18-speedups-", dir=base)
    so = os.path.join(d, "speedups" + (sysconfig.get_config_var("EXT_SUFFIX") or ".so"))
    inc = sysconfig.get_paths()["include"]
    cmd = ["gcc", opt, "-shared", "-fPIC", "-fno-strict-aliasing", "-I", inc, src, "-o", so]
    p = subprocess.run(cmd, stdout=subprocess.PIPE, stderr=subprocess.STDOUT, text=True, timeout=120)
    if p.returncode != 0:
        shutil.rmtree(d, ignore_errors=True)
        raise Machinery("gcc failed: %s\n%s" % (" ".join(cmd), p.stdout[-3000:]))
    name = "verif_c18_speedups_%s" % opt.strip("-").replace("=", "_")
    loader = importlib.machinery.ExtensionFileLoader("speedups", so)
    spec = importlib.util.spec_from_file_location("speedups", so, loader=loader)
    mod = importlib.util.module_from_spec(spec)
    loader.exec_module(mod)
    sys.modules[name] = mod
    _CACHE[opt] = (mod, d)
    return mod, d


def cleanup():
    for opt, (mod, d) in list(_CACHE.items()):
        shutil.rmtree(d, ignore_errors=True)
        del _CACHE[opt]


def python_mask():
    from tornado import util
    return util._websocket_mask_python


def view_at(data, align):
    """A buffer object holding `data` whose first byte sits at address = align (mod 8).
    Returns (buffer, backing).  The buffer is a ctypes c_ubyte array mapped onto a bytearray:
    unlike memoryview it is accepted by the `s#` argument format of the compiled function (no
    bf_releasebuffer) and it is iterable / sized for the pure-python function."""
    n = len(data)
    backing = bytearray(n + 16)
    base = ctypes.addressof((ctypes.c_ubyte * 1).from_buffer(backing))
    off = (align - base) % 8
    backing[off:off + n] = data
    buf = (ctypes.c_ubyte * n).from_buffer(backing, off)
    if n and ctypes.addressof(buf) % 8 != align:
        raise Machinery("cannot place payload at alignment %d" % align)
    return buf, backing


def call(fn, mask, data):
    """Observation of one call: {'err': 'none'|ExceptionClass, 'res': [ints]}."""
    try:
        r = fn(mask, data)
    except Exception as e:          # an exception of the code under test is an observation
        return {"err": type(e).__name__, "res": []}
    if not isinstance(r, (bytes, bytearray)):
        return {"err": "type:" + type(r).__name__, "res": []}
    return {"err": "none", "res": list(r)}
