"""Driver binding specs/tmpl/TemplateLang.tla to tornado.template (C19, C20).

`render(cfg, src)` compiles the files of `src` (name -> list of code points) with the real
DictLoader / Template under the loader settings of `cfg`, generates "main" with the fixed
expression pool in the namespace and returns the observation:

    {"kind": "ok",    "out": [bytes...]}
    {"kind": "parse", "file": name, "line": ParseError.lineno}
    {"kind": "exc",   "mro": [class names], "phase": "compile" | "generate"}

`match(exp, obs)` is the conformance relation with the specification's result (`res` of
TemplateLang!Run, computed by TLC): equal bytes / (file, line) among the acceptable pairs /
exception class; "unspec" results are not compared.  No template semantics lives here.
"""
import logging

UNSPEC_SKIP = {"diverge", "cycle"}      # the real code would not terminate (quickly): never run


class _Obj:
    def __init__(self, text):
        self._t = text

    def __str__(self):
        return self._t


def _boom():
    return 1 // 0


def _wrap(b):
    if not isinstance(b, bytes):
        raise TypeError("apply function expects the block output as bytes")
    return b"[" + b + b"]"


def text_of(cps):
    return "".join(chr(c) for c in cps)


def namespace(cfg):
    return {
        "s": text_of(cfg["sval"]),
        "b": text_of(cfg["bval"]).encode("utf-8"),
        "n": 7,
        "o": _Obj(text_of(cfg["oval"])),
        "t": True,
        "f": False,
        "r": [1, 2],
        "e": [],
        "boom": _boom,
        "wrap": _wrap,
    }


_silenced = False


def _silence():
    global _silenced
    if not _silenced:
        logging.getLogger("tornado.application").setLevel(logging.CRITICAL)
        logging.getLogger("tornado.application").propagate = False
        logging.getLogger("tornado.application").addHandler(logging.NullHandler())
        _silenced = True


def _mro(ex):
    return [c.__name__ for c in type(ex).__mro__ if c not in (object, BaseException)]


def render(cfg, src):
    from tornado import template
    _silence()
    # physical layout of the loader (cfg.paths: logical file -> path components; default: flat names) + decoy files
    paths = {name: "/".join(text_of(c) for c in comps) for name, comps in (cfg.get("paths") or {}).items()}
    files = {paths.get(name, name): text_of(cps) for name, cps in src.items()}
    for d in cfg.get("decoys") or []:
        files["/".join(text_of(c) for c in d["path"])] = text_of(d["text"])
    logical = {v: k for k, v in paths.items()}
    ws = cfg.get("ws", "default")
    loader = template.DictLoader(files, autoescape=None if cfg["ae"] == "None" else cfg["ae"],
                                 whitespace=None if ws == "default" else ws)
    try:
        t = loader.load(paths.get("main", "main"))
    except template.ParseError as ex:
        return {"kind": "parse", "file": logical.get(ex.filename, ex.filename), "line": ex.lineno}
    except RecursionError as ex:
        return {"kind": "exc", "mro": _mro(ex), "phase": "compile"}
    except Exception as ex:
        return {"kind": "exc", "mro": _mro(ex), "phase": "compile"}
    try:
        out = t.generate(**namespace(cfg))
    except Exception as ex:
        return {"kind": "exc", "mro": _mro(ex), "phase": "generate"}
    if not isinstance(out, bytes):
        return {"kind": "exc", "mro": ["NotBytes:" + type(out).__name__], "phase": "generate"}
    return {"kind": "ok", "out": list(out)}


def norm(exp):
    """TLC prints a set of records; the value parser freezes set elements into (key, value) pair lists"""
    errs = exp.get("errs") or []
    if errs and not isinstance(errs[0], dict):
        exp = dict(exp)
        exp["errs"] = [dict((k, v) for k, v in e) for e in errs]
    return exp


def match(exp, obs):
    """exp: the specification's result record (canon form).  True iff obs conforms."""
    exp = norm(exp)
    k = exp["kind"]
    if k == "unspec":
        return True
    if k == "ok":
        return obs["kind"] == "ok" and obs["out"] == list(exp["out"])
    if k == "parse":
        return obs["kind"] == "parse" and any(e["file"] == obs["file"] and e["line"] == obs["line"] for e in exp["errs"])
    if k == "exc":
        return obs["kind"] == "exc" and exp["cls"] in obs["mro"]
    return False


def slim(exp):
    """the part of the specification's result that takes part in the comparison"""
    exp = norm(exp)
    return {k: exp[k] for k in ("kind", "out", "errs", "cls", "why") if k in exp}


def sig_of(exp, obs, src):
    """canonical low-cardinality signature of a divergence"""
    exp = norm(exp)
    sig = {"exp_kind": exp["kind"], "obs_kind": obs["kind"]}
    if exp["kind"] == "parse":
        sig["exp_lines"] = sorted({e["line"] for e in exp["errs"]})[:4]
    if exp["kind"] == "exc":
        sig["exp_cls"] = exp["cls"]
    if obs["kind"] == "parse":
        sig["obs_line"] = obs["line"]
    if obs["kind"] == "exc":
        sig["obs_cls"] = obs["mro"][0]
        sig["phase"] = obs["phase"]
    sig["main"] = text_of(src["main"])[:120]
    return sig


def check_case(cfg, src, exp):
    """Replay one specification state into the real code.  None or a divergence dict."""
    if exp["kind"] == "unspec" and exp.get("why") in UNSPEC_SKIP:
        return None
    obs = render(cfg, src)
    if match(exp, obs):
        return None
    return {"step": 0, "act": "render", "args": [], "exp": slim(exp), "obs": obs, "sig": sig_of(exp, obs, src)}


# ---------------------------------------------------------------------------------------
# code -> spec: a seeded python-side grammar producing larger templates (it only *produces*
# text; what the text means is decided by TLC lexing / parsing / evaluating it).

TEXT_ATOMS = ["a", "b", "Z", "0", " ", " ", "  ", "\n", "\n", "\t", " \n ", '"', "'", "\\", "\\n", "<", ">", "&", "&amp;",
              "é", "€", "\U0001f600", "%", "#", "!", "}", "{", "{{!", "{%!", "{#!", "{ {", "} }", "%}", "#}", "=", "</p>", "<b>"]


class TemplateGen:
    """Random template files from a grammar of nested directives (bounded depth) over literal
    text and the fixed expression pool."""

    def __init__(self, rng, max_depth=3, err_rate=0.0, esc_bias=False):
        self.esc_bias = esc_bias      # C20: more expression tags, includes, applies and autoescape directives
        self.rng = rng
        self.max_depth = max_depth
        self.err_rate = err_rate
        self.erred = False

    def tag(self, body):
        r = self.rng.random()
        if r < 0.7:
            return "{% " + body + " %}"
        if r < 0.85:
            return "{%" + body + "%}"
        return "{%  " + body + " %}"

    def expr_tag(self, e):
        r = self.rng.random()
        return ("{{ %s }}" if r < 0.7 else "{{%s}}" if r < 0.9 else "{{  %s  }}") % e

    def text(self):
        return "".join(self.rng.choice(TEXT_ATOMS) for _ in range(self.rng.randint(1, 5)))

    def value_expr(self, sc):
        pool = ["s", "s", "b", "n", "o", "t", "f", "escape(s)"]
        if sc["x"]:
            pool += ["x", "x"]
        if sc["y"]:
            pool += ["y"]
        if sc["k"]:
            pool += ["k", "k"]
        if sc["try"]:
            pool += ["boom()", "boom()"]
        elif self.rng.random() < 0.03:
            pool += ["boom()"]
        if self.rng.random() < 0.02:
            pool += ["k", "x"]          # possibly unbound
        return self.rng.choice(pool)

    def cond(self, sc):
        pool = ["t", "f", "s", "n"]
        if sc["x"]:
            pool += ["x == 1", "x == 1"]
        if sc["k"]:
            pool += ["k == 1", "k < 2"]
        return self.rng.choice(pool)

    def bad_tag(self, sc):
        self.erred = True
        opts = ["{% bogus %}", "{% end %}", "{% else %}", "{% elif t %}", "{% except %}", "{% finally %}", "{{ }}", "{{}}",
                "{% %}", "{% break %}", "{% continue %}", "{% set %}", "{% extends %}", '{% include "" %}', "{{ s", "{% if t",
                "{# open", "{% endif %}"]
        return self.rng.choice(opts)

    def body(self, depth, sc, files):
        n = self.rng.randint(0, 4) if depth else self.rng.randint(2, 6)
        return "".join(self.node(depth, sc, files) for _ in range(n))

    def maybe_end(self):
        if self.err_rate and self.rng.random() < self.err_rate / 3:
            self.erred = True
            return ""
        return self.tag(self.rng.choice(["end", "end", "end", "end if"]))

    def node(self, depth, sc, files):
        rng = self.rng
        if self.err_rate and not sc["while"] and rng.random() < self.err_rate / 6:
            return self.bad_tag(sc)
        kinds = ["text"] * 6 + ["expr"] * 5 + ["raw", "cmt", "comment", "esc", "ws"]
        if depth < self.max_depth:
            kinds += ["if"] * 3 + ["for"] * 2 + ["try"] * 2 + ["apply"] * 2 + ["while", "block", "include"]
        if self.esc_bias:
            kinds += ["expr"] * 6 + ["raw"] * 2 + (["include"] * 4 + ["apply"] * 2 + ["block"] * 2 if depth < self.max_depth else [])
        if sc["loop"] and not sc["noflow"]:
            kinds += ["flow"] * 2
        if not sc["apply"]:
            kinds += ["set"]
        k = rng.choice(kinds)
        if k == "text":
            return self.text()
        if k == "expr":
            return self.expr_tag(self.value_expr(sc))
        if k == "raw":
            return self.tag("raw " + self.value_expr(sc))
        if k == "cmt":
            return "{# " + rng.choice(["note", "{{ s }}", "a\nb", "%}"]) + " #}"
        if k == "comment":
            return self.tag("comment " + rng.choice(["x", "if t", "end"]))
        if k == "esc":
            return rng.choice(["{{!", "{%!", "{#!"]) + rng.choice(["", " s }}", " if t %}", "a"])
        if k == "ws":
            return self.tag("whitespace " + rng.choice(["all", "single", "oneline"]))
        if k == "set":
            if sc["while"] or (sc["k"] and rng.random() < 0.5):      # never reset the counter inside a while body
                return self.tag("set k = k + 1")
            sc["k"] = True
            return self.tag("set k = 0")
        if k == "flow":
            # break / continue, usually guarded
            stmt = self.tag(rng.choice(["break", "continue"]))
            if rng.random() < 0.7:
                return self.tag("if " + self.cond(sc)) + self.text() + stmt + self.maybe_end()
            return stmt
        sub = dict(sc)
        if k == "if":
            out = self.tag("if " + self.cond(sc)) + self.body(depth + 1, sub, files)
            for _ in range(rng.choice([0, 0, 1, 2])):
                out += self.tag("elif " + self.cond(sc)) + self.body(depth + 1, sub, files)
            if rng.random() < 0.5:
                out += self.tag("else") + self.body(depth + 1, sub, files)
            sc["k"] = sc["k"] and sub["k"]
            return out + self.maybe_end()
        if k == "for":
            var = "y" if sc["x"] else "x"
            if sc[var]:
                return self.text()
            sub[var] = True
            sub["loop"] = True
            sub["noflow"] = False
            hdr = "%s in %s" % (var, "e" if var == "x" and rng.random() < 0.15 else "r")
            out = self.tag("for " + hdr) + self.body(depth + 1, sub, files)
            if rng.random() < 0.25:
                sub2 = dict(sc)
                sub2["noflow"] = True
                out += self.tag("else") + self.body(depth + 1, sub2, files)
            return out + self.maybe_end()
        if k == "while":
            if sc["apply"] or sc["while"]:
                return self.text()
            sub["k"] = True
            sub["loop"] = True
            sub["noflow"] = False
            sub["while"] = True
            sc["k"] = True
            inner = self.tag("set k = k + 1") + self.body(depth + 1, sub, files)
            return self.tag("set k = 0") + self.tag("while k < 2") + inner + self.tag("end")
        if k == "try":
            sub["try"] = True
            out = self.tag("try") + self.body(depth + 1, sub, files)
            form = rng.choice(["except", "except", "typed", "finally", "full", "mismatch"])
            h = dict(sc)
            if form in ("except", "full"):
                out += self.tag("except") + self.body(depth + 1, h, files)
            elif form == "typed":
                out += self.tag("except ZeroDivisionError") + self.body(depth + 1, h, files)
            elif form == "mismatch":
                out += self.tag("except NameError") + self.body(depth + 1, h, files)
            if form == "full" and rng.random() < 0.6:
                out += self.tag("else") + self.body(depth + 1, h, files)
            if form in ("finally", "full") or rng.random() < 0.2:
                out += self.tag("finally") + self.body(depth + 1, h, files)
            sc["k"] = False if sub["k"] != sc["k"] else sc["k"]
            return out + self.maybe_end()
        if k == "apply":
            sub["apply"] = True
            sub["loop"] = False
            sub["while"] = sc["while"]
            # assignments inside an apply body are local to a nested function: keep them out
            sub_body = self.body(depth + 1, sub, files)
            return self.tag("apply " + rng.choice(["wrap", "xhtml_escape", "escape"])) + sub_body + self.maybe_end()
        if k == "block":
            if not files["blocks"] or sc["apply"] or sc["while"]:
                return self.text()
            name = files["blocks"].pop()
            return self.tag("block " + name) + self.body(depth + 1, sub, files) + self.maybe_end()
        if k == "include":
            if not files["include"] or sc["while"]:
                return self.text()
            q = rng.choice(['"', "'", ""])
            return self.tag("include " + q + "inc" + q)
        return self.text()

    def scope(self):
        return {"x": False, "y": False, "k": False, "try": False, "loop": False, "noflow": False, "apply": False, "while": False}

    def file(self, name, blocks, include, extends=None):
        files = {"blocks": list(blocks), "include": include}
        out = ""
        if self.rng.random() < (0.6 if self.esc_bias else 0.3):
            out += self.tag("autoescape " + self.rng.choice(["None", "xhtml_escape", "escape"])) + self.rng.choice(["", "\n"])
        if extends:
            out += self.tag('extends "%s"' % extends) + "\n"
            # a child template: blocks at the top level (anything else is ignored)
            for b in list(files["blocks"]):
                if b in files["blocks"] and self.rng.random() < 0.7:
                    files["blocks"].remove(b)
                    out += self.tag("block " + b) + self.body(1, self.scope(), files) + self.maybe_end() + self.rng.choice(["", "\n", "x"])
            return out
        return out + self.body(0, self.scope(), files)

    def fileset(self):
        rng = self.rng
        inc = self.file("inc", [], False)
        if rng.random() < 0.4:
            base = self.file("base", ["p", "q"], True)
            main = self.file("main", ["p", "q"], True, extends="base")
        else:
            base = self.file("base", ["p"], False)
            main = self.file("main", ["p", "q"], True)
        return {"main": main, "base": base, "inc": inc}


S_ATOMS = ["<", ">", "&", '"', "'", "a", "b", " ", "&amp;", "é", "€", "\U0001f600", "<script>", "</", "\\", "\n", "{{", "%}", "0"]


def random_case(args):
    """(id, seed, err_rate) -> trace record {"id", "cfg", "ev"} recorded from the real code."""
    import random
    tid, seed, err_rate = args[:3]
    esc_bias = len(args) > 3 and args[3]
    rng = random.Random(seed)
    g = TemplateGen(rng, max_depth=rng.choice([2, 3, 3]), err_rate=err_rate if rng.random() < 0.3 else 0.0, esc_bias=esc_bias)
    files = g.fileset()

    def val(lo, hi):
        return "".join(rng.choice(S_ATOMS) for _ in range(rng.randint(lo, hi)))
    cfg = {"fam": "trace", "lib": 0, "fuel": 4,
           "ae": rng.choice(["xhtml_escape", "xhtml_escape", "None"] if not esc_bias else ["xhtml_escape", "None"]),
           "ws": rng.choice(["default", "all", "single", "oneline"]),
           "sval": [ord(c) for c in val(0, 6)], "bval": [ord(c) for c in val(1, 4)], "oval": [ord(c) for c in val(1, 4)]}
    src = {k: [ord(c) for c in v] for k, v in files.items()}
    obs = guarded_render(cfg, src)
    full = {"kind": obs["kind"], "out": obs.get("out", []), "file": obs.get("file") or "", "line": obs.get("line", 0),
            "mro": obs.get("mro", [])}
    c = dict(cfg)
    c["files"] = src
    return {"id": tid, "cfg": c, "ev": [{"a": "render", "args": [], "obs": full}]}


def guarded_render(cfg, src, seconds=20):
    """render() under an interval timer: a template the real code does not finish is an observation"""
    import signal

    class _Timeout(BaseException):
        pass

    armed = [True]

    def on_alarm(signum, frame):
        if armed[0]:                # never raise outside the guarded region (the timer keeps firing)
            raise _Timeout()
    try:
        # CPU time of this process, not wall time: machine load must not turn a slow render into a verdict
        old = signal.signal(signal.SIGVTALRM, on_alarm)
    except ValueError:          # not in the main thread
        return render(cfg, src)
    signal.setitimer(signal.ITIMER_VIRTUAL, seconds, 0.2)      # keeps firing: a bare {% except %} may swallow one
    import resource
    limit = resource.getrlimit(resource.RLIMIT_AS)
    try:
        if limit[0] == resource.RLIM_INFINITY or limit[0] > 6 << 30:
            resource.setrlimit(resource.RLIMIT_AS, (6 << 30, limit[1]))   # a runaway template must not exhaust the machine
    except Exception:
        pass
    try:
        try:
            return render(cfg, src)
        finally:
            armed[0] = False
    except _Timeout:
        return {"kind": "timeout"}
    except MemoryError:
        return {"kind": "exc", "mro": ["MemoryError", "Exception"], "phase": "generate"}
    finally:
        armed[0] = False
        signal.setitimer(signal.ITIMER_VIRTUAL, 0)
        signal.signal(signal.SIGVTALRM, old)
        try:
            resource.setrlimit(resource.RLIMIT_AS, limit)      # children (TLC) must not inherit the cap
        except Exception:
            pass


# ---------------------------------------------------------------------------------------
def mc_plain(ctx, module, cfg, overrides, timeout=600, spec_dir="tmpl"):
    """Model-check without `-coverage`.

    ctx.mc always passes `-coverage 1`; TLC's CostModelCreator expands every operator
    application of this specification recursively and does not get past start-up within
    minutes (layered folds / mutual recursion).  This wrapper runs the same MC config through
    harness.tlc.run, accounts states / transitions like ctx.mc, reports a violated invariant as
    a specification-level violation, and establishes non-vacuity from the transition count (the
    specification has the single action Add: every generated non-initial state is one Add)."""
    import os
    from . import VERIF, tlc, framework
    sd = os.path.join(VERIF, "specs", spec_dir)
    cfgp = framework.make_cfg(os.path.join(sd, cfg), overrides, ctx.scratch, "%s_plain_%s" % (module, cfg))
    r = tlc.run(sd, module, cfgp, coverage=False, timeout=timeout, deadlock=False)
    ctx.cov["states"] += r.distinct
    ctx.cov["transitions"] += r.generated
    ctx.cov["mc_runs"].append({"module": module, "cfg": cfg, "overrides": framework.canon(overrides), "distinct": r.distinct,
                               "generated": r.generated, "depth": r.depth, "wall_s": round(r.wall_s, 2), "ok": r.ok,
                               "coverage": "off (see harness/tmpl_driver.mc_plain)"})
    ctx.cov["checker_cmd"].append("tlc -config %s %s" % (cfg, module))
    if r.ok:
        if r.depth < 2 or r.distinct < 10:
            raise framework.Machinery("vacuity: action Add of %s never taken under %s" % (module, cfg))
        key = module + ".Add"
        ctx.cov["coverage_by_action"][key] = ctx.cov["coverage_by_action"].get(key, 0) + r.generated
    else:
        states = tlc.parse_error_trace(r.violation["text"])
        sig = {"kind": "spec", "module": module, "name": r.violation["name"], "what": r.violation["kind"]}
        ctx.violation(sig, {"tlc_trace": framework.canon([[a, s] for a, s in states]) or r.violation["text"][:6000]})
    return r


# ---------------------------------------------------------------------------------------
# Generation + replay in one pass.  ctx.gen_states / ctx.replay parse every dumped state with the
# generic TLA value parser in the parent and ship (state, path) pairs around; for ~10^5 states
# carrying three file texts and an output each that dominated the run.  Here each forked worker
# converts its slice of the dump to JSON text (the states only contain records, sequences, sets,
# strings, ints and booleans), replays it and returns only counters and divergences.

import json as _json
import re as _re

_DUMP = None
_FIELD = _re.compile(r'([A-Za-z_]\w*) \|->')
_VAR = _re.compile(r'^/\\ (\w+) = ', _re.M)
_HDR = _re.compile(r'^State \d+:.*$', _re.M)


def tla_to_json(text):
    """TLC's printed value -> JSON text (records -> objects; sequences and sets -> arrays)."""
    t = text.replace("{", "\x01").replace("}", "\x02").replace("[", "{").replace("]", "}")
    t = t.replace("<<", "[").replace(">>", "]").replace("\x01", "[").replace("\x02", "]")
    t = _FIELD.sub(r'"\1":', t)
    return t.replace("TRUE", "true").replace("FALSE", "false")


def parse_state_fast(body, wanted):
    ms = list(_VAR.finditer(body))
    out = {}
    for i, m in enumerate(ms):
        if m.group(1) not in wanted:
            continue
        end = ms[i + 1].start() if i + 1 < len(ms) else len(body)
        out[m.group(1)] = _json.loads(tla_to_json(body[m.end():end]))
    return out


def _replay_slice(rng):
    lo, hi = rng
    text = _DUMP[lo:hi]
    hs = list(_HDR.finditer(text))
    n = nt = 0
    kinds = {}
    div = []
    samples = []
    for i, m in enumerate(hs):
        end = hs[i + 1].start() if i + 1 < len(hs) else len(text)
        st = parse_state_fast(text[m.end():end], ("cfg", "src", "res"))
        cfg, src, res = st["cfg"], st["src"], st["res"]
        n += 1
        k = cfg["fam"] + ":" + res["kind"]
        kinds[k] = kinds.get(k, 0) + 1
        if len(src["main"]) >= 2 and res["kind"] != "unspec":
            nt += 1
        r = check_case(cfg, src, res)
        if r is not None:
            div.append({"extra": {"cfg": cfg, "src": src}, "path": [{"act": "render", "args": [], "exp": slim(res)}], "divergence": r})
        elif len(samples) < 1 and res["kind"] == "ok" and len(src["main"]) > 20:
            samples.append({"kind": "s2c", "extra": {"cfg": cfg, "main": text_of(src["main"])},
                            "exp": {"kind": "ok", "out": bytes(res["out"]).decode("utf-8", "replace")}})
    return {"n": n, "nt": nt, "kinds": kinds, "div": div[:40], "ndiv": len(div), "samples": samples}


def gen_and_replay(ctx, module, cfg, overrides, timeout=600, spec_dir="tmpl", label="s2c"):
    """TLC enumerates the templates (checking the INVARIANT lines of the cfg on each) and dumps the
    states; every state is replayed into the real code.  Returns the number of states."""
    global _DUMP
    import os
    from . import VERIF, tlc, framework
    sd = os.path.join(VERIF, "specs", spec_dir)
    cfgp = framework.make_cfg(os.path.join(sd, cfg), overrides, ctx.scratch, "%s_%d_%s" % (module, len(os.listdir(ctx.scratch)), cfg))
    dump = os.path.join(ctx.scratch, "%s_%d" % (module, len(os.listdir(ctx.scratch))))
    r = tlc.run(sd, module, cfgp, timeout=timeout, dump=dump, deadlock=False)
    ctx.cov["checker_cmd"].append("tlc -dump -config %s %s" % (cfg, module))
    if not r.ok:
        states = tlc.parse_error_trace(r.violation["text"])
        ctx.violation({"kind": "spec", "module": module, "name": r.violation["name"], "what": r.violation["kind"]},
                      {"tlc_trace": framework.canon([[a, s] for a, s in states]) or r.violation["text"][:6000]})
        return 0
    ctx.cov["states"] += r.distinct
    ctx.cov["transitions"] += r.generated
    fn = dump + ".dump"
    _DUMP = open(fn).read()
    os.remove(fn)
    idx = [m.start() for m in _re.finditer(r"^State \d+:", _DUMP, _re.M)]
    if len(idx) != r.distinct:
        raise framework.Machinery("dump holds %d states, TLC reported %d" % (len(idx), r.distinct))
    nproc = int(os.environ.get("VERIF_WORKERS", "16"))
    per = max(1, len(idx) // (nproc * 8))
    cuts = idx[::per] + [len(_DUMP)]
    ranges = [(cuts[i], cuts[i + 1]) for i in range(len(cuts) - 1)]
    if len(ranges) < 256 and len(idx) > 4000:        # pool_map runs < 256 items inline: split finer to get the pool
        per = max(1, len(idx) // 300)
        cuts = idx[::per] + [len(_DUMP)]
        ranges = [(cuts[i], cuts[i + 1]) for i in range(len(cuts) - 1)]
    try:
        parts = framework.pool_map(_replay_slice, ranges)
    finally:
        _DUMP = None
    n = sum(p["n"] for p in parts)
    if n != r.distinct:
        raise framework.Machinery("replayed %d of %d dumped states" % (n, r.distinct))
    kinds = {}
    for p in parts:
        for k, v in p["kinds"].items():
            kinds[k] = kinds.get(k, 0) + v
        for d in p["div"]:
            sig = {"kind": label}
            sig.update(d["divergence"]["sig"])
            ctx.violation(sig, d)
        for s in p["samples"]:
            if len(ctx.cov["samples"]) < 6:
                ctx.cov["samples"].append(s)
    ctx.cov["traces_validated_against_impl"] += n
    ctx.cov["evaluations"] += n
    ctx.cov["distinct_nontrivial"] += sum(p["nt"] for p in parts)
    ctx.cov.setdefault("templates_by_family_and_result", {}).update(kinds)
    ctx.cov["mc_runs"].append({"module": module, "cfg": cfg, "overrides": framework.canon(overrides), "distinct": r.distinct,
                               "generated": r.generated, "depth": r.depth, "wall_s": round(r.wall_s, 2), "ok": True,
                               "note": "invariants of the cfg checked on every dumped state; coverage off"})
    key = "TemplateLang.Add"
    ctx.cov["coverage_by_action"][key] = ctx.cov["coverage_by_action"].get(key, 0) + r.generated
    if r.depth < 2:
        raise framework.Machinery("vacuity: action Add never taken under %s" % cfg)
    ctx.cov["gen_runs"] = ctx.cov.get("gen_runs", []) + [
        {"module": module, "cfg": cfg, "overrides": framework.canon(overrides), "states": r.distinct, "wall_s": round(r.wall_s, 2)}]
    return n


# ---------------------------------------------------------------------------------------
def validate_shards_threads(spec_dir, module, cfgp, traces, shards, scratch, timeout, verbose, env=None):
    """Drop-in for framework._validate_shards that runs the shards from *threads* (each shard is a
    TLC subprocess, so threads parallelise as well as processes do).  The shared version uses
    multiprocessing.Pool.map, which waits forever when a worker process dies (observed three
    times on the shared build machine, see notes/tmpl.md); a thread cannot be lost that way and a
    failing TLC surfaces as TLCError.  Installed by checks/C19.run_traces for this process only."""
    import time
    from concurrent.futures import ThreadPoolExecutor
    from . import framework
    shards = max(1, shards)
    stamp = "%d_%d" % (int(verbose), int(time.time() * 1000) % 1000000)
    jobs = []
    for i in range(shards):
        part = traces[i::shards]
        if part:
            jobs.append((spec_dir, module, cfgp, part, scratch, "%s_%d" % (stamp, i), timeout, verbose, env))
    if len(jobs) == 1:
        res = [framework._validate_one(jobs[0])]
    else:
        with ThreadPoolExecutor(len(jobs)) as ex:
            res = list(ex.map(framework._validate_one, jobs))
    accepted, at_all, inv_viol = set(), {}, {}
    for acc, at, inv in res:
        accepted |= acc
        at_all.update(at)
        inv_viol.update(inv)
    if verbose:
        return accepted, inv_viol, at_all
    return accepted, inv_viol
