"""Driver for specs/net/StreamCancel.tla (C13 extension): a real stream whose futures the application
cancels before the stream closes.  Reuses StreamReal (in-memory transport, real IOStream.connect)."""
from harness.framework import canon
from harness import net_driver as nd


class CancelReal(nd.StreamReal):
    def __init__(self, cfg, variant=None):
        super().__init__({"conn": cfg.get("conn", 0), "cc": 1, "mwb": 0}, variant)
        self.raised = 0

    def _tag(self, o):
        if o[0] in ("none", "pending", "cancelled"):
            return o[0]
        if o[0] == "ok":
            return "ok"
        if o[0] == "exc" and o[1] == "StreamClosedError":
            return "closed"
        return "other:" + ":".join(str(x) for x in o[:2])

    def cproj(self, p):
        wr = [self._tag(w) for w in p["wr"]]
        return {"rd": self._tag(p["rd"]), "wr": wr[0] if wr else "none", "co": self._tag(p["co"]),
                "st": p["st"], "ccb": p["ccb"], "cbl": p["cbl"], "raised": self.raised}

    def step(self, act, args):
        if act in ("cancelrd", "cancelwr", "cancelco"):
            f = {"cancelrd": self.rf[1] if self.rf else None, "cancelwr": self.wfs[0] if self.wfs else None,
                 "cancelco": self.cf}[act]
            f.cancel()
            self.order = []
            self.env.settle()
            return self.cproj(self.proj())
        if act == "read":
            p = super().step("read", [["bytes", 5, 0]])
        elif act == "deliver":
            p = super().step("deliver", [[97, 98, 99, 100, 101]])
        elif act == "write":
            p = super().step("write", [[120, 121]])
        else:
            p = super().step(act, [])
        if any(o.startswith("raised:") for o in self.order):
            self.raised = 1
        if act in ("close", "closeexc", "eof", "reset") and p["cbl"] == "na" and p["ccb"]:
            p["cbl"] = "yes"
        return self.cproj(p)


def replay_cancel(extra, path):
    for variant in nd.VARIANTS[:2]:
        real = CancelReal(extra["cfg"], variant)
        try:
            for i, s in enumerate(path):
                obs = canon(real.step(s["act"], s["args"]))
                if obs != s["exp"]:
                    return {"step": i, "act": s["act"], "exp": s["exp"], "obs": obs,
                            "sig": {"spec": "StreamCancel", "act": s["act"],
                                    "differs": sorted(k for k in s["exp"] if obs.get(k) != s["exp"][k])}}
        finally:
            real.close()
    return None
