"""Streaming spec -> code replay for the sync family (C34, C35).

Same contract as `ctx.gen_paths` + `ctx.replay` (TLC enumerates every behaviour of the
history-extended Gen_* spec up to the bound and `-dump`s it; each dumped state carries one
behaviour with the specification's expected projection after every step; the real objects are
stepped through it and compared after every step), but the dump file is cut into byte ranges
that forked workers parse and replay on the fly, so the parent never materialises the paths
(an L=6 enumeration is several 10^5 behaviours).  Every dumped state is replayed - prefixes
included - so no maximality bookkeeping is needed and the enumeration is complete by
construction.

The values of the `hist` and `cfg` variables of these specs consist of records, tuples,
strings, integers and booleans only; they are converted to JSON text by substitution and
parsed by the json module.  The first states of every dump are cross-checked against the
generic TLA value parser (harness.tlaval); a disagreement is a machinery failure.
"""
import hashlib
import json
import multiprocessing
import os
import re
import traceback

from . import VERIF, tlc, tlaval
from .framework import Machinery, make_cfg, canon, jdump

_KEY = re.compile(r"(\w+) \|->")
_HDR = re.compile(r"^State \d+:.*$", re.M)


def tla2json(s):
    s = s.replace("[", "{").replace("]", "}").replace("<<", "[").replace(">>", "]")
    s = _KEY.sub(r'"\1":', s)
    s = s.replace("TRUE", "true").replace("FALSE", "false")
    return json.loads(s)


def _vars_of(body):
    """Split one dumped state into {var: value text}."""
    out = {}
    for seg in ("\n" + body.strip()).split("\n/\\ ")[1:]:
        k, _, v = seg.partition(" = ")
        out[k.strip()] = v
    return out


def parse_state_fast(body, hist_var="hist", extra_vars=("cfg",)):
    vs = _vars_of(body)
    extra = {v: tla2json(vs[v]) for v in extra_vars if v in vs}
    return extra, tla2json(vs[hist_var])


def _bodies(text):
    hs = list(_HDR.finditer(text))
    for i, m in enumerate(hs):
        end = hs[i + 1].start() if i + 1 < len(hs) else len(text)
        yield text[m.end():end]


_REPLAYER = None
_NONTRIVIAL = None


def _work(job):
    fn, lo, hi = job
    try:
        with open(fn, "rb") as f:
            f.seek(lo)
            text = f.read(hi - lo).decode()
        n = 0
        digests = []
        divs = []
        sample = None
        steps = 0
        for body in _bodies(text):
            extra, path = parse_state_fast(body)
            if not path:
                continue
            n += 1
            steps += len(path)
            if sample is None:
                sample = (extra, path)
            if _NONTRIVIAL(extra, path):
                digests.append(hashlib.sha1(jdump([extra, [[s["act"], s["args"]] for s in path]]).encode()).digest()[:8])
            res = _REPLAYER(extra, path)
            if res is not None and len(divs) < 200:
                divs.append((extra, path, res))
        return {"n": n, "steps": steps, "digests": digests, "divs": divs, "sample": sample}
    except BaseException:
        return {"machinery": traceback.format_exc()[-3000:]}


def _cuts(fn, nchunks):
    size = os.path.getsize(fn)
    offs = [0]
    with open(fn, "rb") as f:
        for k in range(1, nchunks):
            pos = max(offs[-1], k * size // nchunks)
            f.seek(pos)
            while True:
                buf = f.read(1 << 20)
                if not buf:
                    pos = size
                    break
                i = buf.find(b"\nState ")
                if i >= 0:
                    pos += i + 1
                    break
                pos += len(buf) - 8
                f.seek(pos)
            if pos >= size:
                break
            if pos > offs[-1]:
                offs.append(pos)
    offs.append(size)
    return [(fn, offs[i], offs[i + 1]) for i in range(len(offs) - 1) if offs[i + 1] > offs[i]]


def _crosscheck(fn, hist_var="hist", extra_vars=("cfg",), count=40):
    with open(fn, "rb") as f:
        text = f.read(400000).decode(errors="ignore")
    hs = list(_HDR.finditer(text))
    for i in range(min(count, len(hs) - 1)):
        body = text[hs[i].end():hs[i + 1].start()]
        st = tlaval.parse_state(body)
        slow = ({v: canon(st[v]) for v in extra_vars if v in st}, canon(st[hist_var]))
        fast = parse_state_fast(body, hist_var, extra_vars)
        if jdump(slow) != jdump(fast):
            raise Machinery("sync_paths: fast dump parser disagrees with tlaval on state %d of %s" % (i + 1, fn))


def gen_dump(ctx, module, cfg, overrides, label, timeout=None, spec_dir="sync", workers=None):
    """TLC path enumeration of `module` under `cfg` (+overrides) with -dump; returns (TLCResult, dump file)."""
    spec_dir = os.path.join(VERIF, "specs", spec_dir)
    cfgp = make_cfg(os.path.join(spec_dir, cfg), overrides or {}, ctx.scratch,
                    "%s_%s_%s" % (module, label, os.path.basename(cfg)))
    dump = os.path.join(ctx.scratch, "%s_%s" % (module, label))
    r = tlc.run(spec_dir, module, cfgp, timeout=timeout or ctx.pick(900, 3000), dump=dump, workers=workers)
    if not r.ok:
        raise Machinery("generation spec reported %s" % r.violation)
    return r, dump + ".dump"


def stream_replay_many(ctx, module, cfg, families, replayer, nontrivial=None, timeout=None, parallel=3):
    """families: [(label, overrides)].  The TLC enumerations run concurrently (`parallel` JVMs at a time,
    the workers shared between them), the replays one after the other."""
    from concurrent.futures import ThreadPoolExecutor
    nproc = int(os.environ.get("VERIF_WORKERS", "16"))
    par = max(1, min(parallel, len(families)))
    w = max(2, nproc // par)
    with ThreadPoolExecutor(par) as ex:
        futs = [ex.submit(gen_dump, ctx, module, cfg, ov, label, timeout, "sync", w) for label, ov in families]
        total = 0
        for (label, ov), f in zip(families, futs):
            r, fn = f.result()
            total += stream_replay(ctx, module, cfg, ov, replayer, label=label, nontrivial=nontrivial, dumped=(r, fn))
    return total


def stream_replay(ctx, module, cfg, overrides, replayer, label="s2c", nontrivial=None, timeout=None,
                  spec_dir="sync", dumped=None):
    """TLC path enumeration of `module` under `cfg` (+overrides) replayed into the real code.
    Returns the number of behaviours replayed.  Divergences go through ctx.violation with the same
    record shape as ctx.replay ({extra, path, divergence})."""
    global _REPLAYER, _NONTRIVIAL
    r, fn = dumped or gen_dump(ctx, module, cfg, overrides, label, timeout, spec_dir)
    ctx.cov["checker_cmd"].append("tlc -dump -config %s %s" % (cfg, module))
    _crosscheck(fn)
    nproc = int(os.environ.get("VERIF_WORKERS", "16"))
    jobs = _cuts(fn, nproc * 6 if os.path.getsize(fn) > (1 << 22) else 1)
    _REPLAYER = replayer
    _NONTRIVIAL = nontrivial or (lambda e, p: len(p) >= 2)
    if len(jobs) == 1:
        results = [_work(jobs[0])]
    else:
        with multiprocessing.get_context("fork").Pool(min(nproc, len(jobs))) as pool:
            results = pool.map(_work, jobs, chunksize=1)
    os.remove(fn)
    n = steps = 0
    digests = []
    for res in results:
        if res.get("machinery"):
            raise Machinery("sync_paths worker crashed: %s" % res["machinery"])
        n += res["n"]
        steps += res["steps"]
        digests.extend(res["digests"])
        for extra, path, d in res["divs"]:
            if isinstance(d, dict) and d.get("machinery"):
                raise Machinery("replayer crashed: %s" % d["machinery"])
            sig = {"kind": label}
            sig.update(d.get("sig") or {"act": d.get("act"), "exp": d.get("exp"), "obs": d.get("obs")})
            ctx.violation(sig, {"extra": extra, "path": path, "divergence": d})
    if n + 64 < r.distinct:              # every dumped state except the initial ones is a behaviour
        raise Machinery("sync_paths: %d behaviours parsed from a dump of %d states" % (n, r.distinct))
    samples = []
    for res in results[:1] + results[-1:]:
        if res["sample"]:
            samples.append({"kind": label, "extra": res["sample"][0], "path": res["sample"][1]})
    ctx.cov["traces_validated_against_impl"] += n
    ctx.add_eval(n, distinct_keys=digests, samples=samples)
    ctx.cov["gen_runs"] = ctx.cov.get("gen_runs", []) + [
        {"module": module, "cfg": cfg, "label": label, "overrides": canon(overrides or {}), "states": r.distinct,
         "paths_replayed": n, "steps_replayed": steps, "tlc_wall_s": round(r.wall_s, 2)}]
    return n


# ---------------------------------------------------------------------------------------
# seeded TLC simulation walks (tlc -simulate file=...), only the last state of each walk is
# parsed (its `hist` holds the whole behaviour)

_SIM_HDR = re.compile(r"^STATE_(\d+) ==\s*$", re.M)


def read_sim_last(path, hist_var="hist", extra_vars=("cfg",)):
    with open(path) as f:
        text = f.read()
    hs = list(_SIM_HDR.finditer(text))
    if not hs:
        return None
    body = text[hs[-1].end():]
    lines = [ln for ln in body.splitlines() if not ln.startswith("\\*") and ln.strip() != "" and not ln.startswith("====")]
    return parse_state_fast("\n".join(lines), hist_var, extra_vars)


_SIM_LINE = re.compile(r'^<<"SIMPATH", "(.*)", "(.*)">>\s*$')


def parse_sim_line(line):
    m = _SIM_LINE.match(line)
    if not m:
        return None
    cfg_s, hist_s = (x.replace('\\"', '"') for x in m.groups())
    return {"cfg": tla2json(cfg_s)}, tla2json(hist_s)


def _sim_work(lines):
    try:
        n = steps = 0
        digests, divs, sample = [], [], None
        for ln in lines:
            ep = parse_sim_line(ln)
            if ep is None or not ep[1]:
                continue
            extra, path = ep
            n += 1
            steps += len(path)
            if sample is None:
                sample = (extra, path)
            digests.append(hashlib.sha1(jdump([extra, [[s["act"], s["args"]] for s in path]]).encode()).digest()[:8])
            res = _REPLAYER(extra, path)
            if res is not None and len(divs) < 200:
                divs.append((extra, path, res))
        return {"n": n, "steps": steps, "digests": digests, "divs": divs, "sample": sample}
    except BaseException:
        return {"machinery": traceback.format_exc()[-3000:]}


def sim_replay(ctx, module, cfg, num, depth, overrides, replayer, label="s2c-sim", timeout=None, spec_dir="sync"):
    """`num` seeded random walks of length `depth` through the Gen_* spec, replayed into the real code.
    `cfg` is a Sim_*.cfg: its invariant SimPrint prints (cfg, hist) of every walk once it has reached
    length L = depth, on one line of TLC's output (no per-state files)."""
    global _REPLAYER
    spec_dir = os.path.join(VERIF, "specs", spec_dir)
    ov = dict(overrides or {})
    ov["L"] = depth
    cfgp = make_cfg(os.path.join(spec_dir, cfg), ov, ctx.scratch, "%s_%s_%s" % (module, label, os.path.basename(cfg)))
    r = tlc.run(spec_dir, module, cfgp, timeout=timeout or ctx.pick(900, 3000), workers=1,
                simulate={"num": num}, depth=depth + 1, seed=ctx.seed + 1)
    if not r.ok:
        raise Machinery("simulation spec reported %s" % r.violation)
    ctx.cov["checker_cmd"].append("tlc -simulate num=%d -depth %d -config %s %s" % (num, depth + 1, cfg, module))
    lines, seen = [], set()
    for ln in r.out.splitlines():
        if ln.startswith('<<"SIMPATH"') and ln not in seen:
            seen.add(ln)
            lines.append(ln)
    # TLC evaluates the invariant on every candidate successor of the last step, so each walk yields
    # several printed behaviours (same prefix, different last step); all of them are behaviours of the spec
    if len(lines) < num // 2:
        raise Machinery("sync_paths: %d simulation walks printed for num=%d" % (len(lines), num))
    # cross-check the fast line reader against the generic TLA value parser on the first walk
    m = _SIM_LINE.match(lines[0])
    slow = ({"cfg": canon(tlaval.parse_value(m.group(1).replace('\\"', '"')))}, canon(tlaval.parse_value(m.group(2).replace('\\"', '"'))))
    if jdump(slow) != jdump(parse_sim_line(lines[0])):
        raise Machinery("sync_paths: fast simulation reader disagrees with tlaval")
    nproc = int(os.environ.get("VERIF_WORKERS", "16"))
    _REPLAYER = replayer
    per = max(1, len(lines) // (nproc * 3))
    jobs = [lines[i:i + per] for i in range(0, len(lines), per)]
    if len(lines) < 64:
        results = [_sim_work(j) for j in jobs]
    else:
        with multiprocessing.get_context("fork").Pool(min(nproc, len(jobs))) as pool:
            results = pool.map(_sim_work, jobs, chunksize=1)
    n = steps = 0
    digests = []
    for res in results:
        if res.get("machinery"):
            raise Machinery("sync_paths sim worker crashed: %s" % res["machinery"])
        n += res["n"]
        steps += res["steps"]
        digests.extend(res["digests"])
        for extra, path, dv in res["divs"]:
            if isinstance(dv, dict) and dv.get("machinery"):
                raise Machinery("replayer crashed: %s" % dv["machinery"])
            sig = {"kind": label}
            sig.update(dv.get("sig") or {"act": dv.get("act"), "exp": dv.get("exp"), "obs": dv.get("obs")})
            ctx.violation(sig, {"extra": extra, "path": path, "divergence": dv})
    samples = [{"kind": label, "extra": res["sample"][0], "path": res["sample"][1][:12]} for res in results[:1] if res["sample"]]
    ctx.cov["traces_validated_against_impl"] += n
    ctx.add_eval(n, distinct_keys=digests, samples=samples)
    ctx.cov["sim_runs"] = ctx.cov.get("sim_runs", []) + [
        {"module": module, "cfg": cfg, "label": label, "overrides": canon(ov), "walks": n,
         "steps_replayed": steps, "depth": depth, "tlc_wall_s": round(r.wall_s, 2)}]
    return n


# ---------------------------------------------------------------------------------------
# binding self-test: a corrupted observation and a dropped event must be rejected by the trace
# specification, a corrupted expected value must be reported by the replayer (non-vacuity of both
# directions; a failure here is a machinery failure, never a verdict)

def binding_selftest(ctx, module, cfg, overrides, trace, corrupt_obs, replayer, spec_dir="sync"):
    """trace: a short recorded run ({id, cfg, ev}) of the unchanged real object that the spec accepts.
    corrupt_obs(obs) -> a different, wrong observation."""
    import copy
    from . import framework
    spec_dir = os.path.join(VERIF, "specs", spec_dir)
    cfgp = make_cfg(os.path.join(spec_dir, cfg), overrides or {}, ctx.scratch, "%s_selftest_%s" % (module, os.path.basename(cfg)))
    k = len(trace["ev"]) // 2
    good = dict(trace, id=1)
    bad_obs = copy.deepcopy(dict(trace, id=2))
    bad_obs["ev"][k]["obs"] = corrupt_obs(bad_obs["ev"][k]["obs"])
    dropped = copy.deepcopy(dict(trace, id=3))
    del dropped["ev"][0]
    accepted, _inv = framework._validate_shards(spec_dir, module, cfgp, [good, bad_obs, dropped], 1, ctx.scratch,
                                                ctx.pick(900, 3000), verbose=False)
    if 1 not in accepted:
        # the tree under test misbehaves on the fixed run itself: that is a verdict, not a machinery
        # failure - report it through the normal channel and skip the self-test
        ctx.validate(os.path.basename(spec_dir), module, cfg, [good], overrides=overrides, label="c2s-fixed-run",
                     timeout=ctx.pick(900, 3000))
        ctx.cov["binding_selftest"] = "skipped: the fixed run is itself rejected by %s (reported as a violation)" % module
        return
    if accepted != {1}:
        raise Machinery("binding self-test of %s: accepted %s, expected only the uncorrupted trace" % (module, sorted(accepted)))
    extra = {"cfg": trace["cfg"]}
    path = [{"act": e["a"], "args": e["args"], "exp": canon(e["obs"])} for e in trace["ev"]]
    if replayer(extra, path) is not None:
        ctx.cov["binding_selftest"] = "trace direction ok; replay direction skipped (the replay of the fixed run diverges, see violations)"
        return
    path[k] = dict(path[k], exp=canon(corrupt_obs(copy.deepcopy(path[k]["exp"]))))
    d = replayer(extra, path)
    if d is None or d.get("step") != k:
        raise Machinery("binding self-test of %s: corrupted expected value at step %d not reported (%r)" % (module, k, d))
    ctx.cov["binding_selftest"] = "ok: corrupted observation and dropped event rejected by %s; corrupted expectation reported by the replayer" % module


# ---------------------------------------------------------------------------------------
# fused replay: the same TLC behaviours, other placements of event-loop iterations

def fused_segments(path, needs_settle, fuse):
    """Cut a behaviour into segments executed inside one loop iteration each.
    needs_settle(step): the loop must run after this step (a call with timeout 0).
    fuse(i): may step i+1 follow step i without the loop running in between.
    Returns [("calls", [i, ...]) | ("adv", i, [k, ...])]: a group of calls back to back, or an advance
    whose follow-up calls are performed from a callback due at the deadline."""
    segs = []
    n = len(path)
    i = 0
    while i < n:
        if path[i]["act"] == "advance":
            grp = []
            k = i + 1
            while k < n and path[k]["act"] != "advance" and fuse(k - 1) and (k == i + 1 or not needs_settle(path[k - 1])):
                grp.append(k)
                k += 1
            segs.append(("adv", i, grp))
        else:
            grp = [i]
            k = i + 1
            while k < n and path[k]["act"] != "advance" and fuse(k - 1) and not needs_settle(path[k - 1]):
                grp.append(k)
                k += 1
            segs.append(("calls", grp))
        i = k
    return segs


def fused_replay(real, path, needs_settle, fuse, delay):
    """Execute `path` on `real` (a harness.sync_driver._Fused object) with the given placement of loop
    iterations; the projection is compared with the specification's after every segment and the
    exception class of every single call with the specification's `err`.  Returns None or
    {step, act, args, exp, obs} for the first difference."""
    for seg in fused_segments(path, needs_settle, fuse):
        if seg[0] == "calls":
            idx = seg[1]
            errs = real.run_group([(path[k]["act"], path[k]["args"]) for k in idx])
        else:
            idx = seg[2]
            errs = real.advance_then(path[seg[1]]["args"][0], [(path[k]["act"], path[k]["args"]) for k in idx], delay)
        last = idx[-1] if idx else seg[1]
        for k, e in zip(idx, errs):
            if e != path[k]["exp"].get("err", "none"):
                exp = path[k]["exp"]
                return {"step": k, "act": path[k]["act"], "args": path[k]["args"], "exp": {"err": exp.get("err", "none")},
                        "obs": {"err": e}, "segment": [path[j]["act"] for j in ([seg[1]] if seg[0] == "adv" else []) + idx]}
        obs = canon(real.observe(errs))
        if obs != path[last]["exp"]:
            return {"step": last, "act": path[last]["act"], "args": path[last]["args"], "exp": path[last]["exp"], "obs": obs,
                    "segment": [path[j]["act"] for j in ([seg[1]] if seg[0] == "adv" else []) + idx]}
    return None
