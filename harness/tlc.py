"""TLC runner: every invocation is under a hard timeout with a private metadir that is
removed afterwards.  Parses statistics, per-action coverage, violations, state dumps and
simulation behaviours."""
import os
import re
import shutil
import subprocess
import tempfile
import time

from . import tlaval

JAR = "/opt/veriftools/tla/tla2tools.jar:/opt/veriftools/tla/CommunityModules-deps.jar"
SCRATCH = os.environ.get("VERIF_SCRATCH", "/tmp/verif-scratch")


class TLCError(Exception):
    """Machinery failure (parse error, crash, timeout) - never a verdict."""


class TLCResult:
    def __init__(self):
        self.rc = None
        self.out = ""
        self.generated = 0
        self.distinct = 0
        self.depth = 0
        self.violation = None      # dict(kind, name, text) or None
        self.coverage = {}         # action -> (distinct, total)
        self.wall_s = 0.0
        self.cmd = ""

    @property
    def ok(self):
        return self.violation is None


def dev_limits():
    """Development-time throttle shared by parallel builders: if the file
    $VERIF_SCRATCH/DEV_LIMITS exists ({"workers": n, "slots": k}) TLC runs use at most n workers
    and at most k run concurrently machine-wide.  Absent (as in any fresh restore): no limit."""
    try:
        import json
        with open(os.path.join(SCRATCH, "DEV_LIMITS")) as f:
            return json.load(f)
    except Exception:
        return None


class _Slot:
    def __init__(self, k):
        self.k = k
        self.f = None

    def __enter__(self):
        import fcntl
        d = os.path.join(SCRATCH, "slots")
        os.makedirs(d, exist_ok=True)
        while True:
            for i in range(self.k):
                f = open(os.path.join(d, "%d.lock" % i), "w")
                try:
                    fcntl.flock(f, fcntl.LOCK_EX | fcntl.LOCK_NB)
                    self.f = f
                    return self
                except OSError:
                    f.close()
            time.sleep(0.5)

    def __exit__(self, *a):
        if self.f:
            self.f.close()


class _NoSlot:
    def __enter__(self):
        return self

    def __exit__(self, *a):
        pass


def scratch_dir(prefix="tlc"):
    os.makedirs(SCRATCH, exist_ok=True)
    return tempfile.mkdtemp(prefix=prefix + "-", dir=SCRATCH)


_STATS = re.compile(r"(\d+) states generated, (\d+) distinct states found, (\d+) states left on queue")
_DEPTH = re.compile(r"The depth of the complete state graph search is (\d+)")
_COV = re.compile(r"^<(\w+) line \d+, col \d+ to line \d+, col \d+ of module (\w+)(?: \([\d ]+\))?>: (\d+):(\d+)", re.M)
_ERR_KINDS = [
    (re.compile(r"Error: Invariant (\w+) is violated"), "invariant"),
    (re.compile(r"Error: Action property (\w+) is violated"), "action_property"),
    (re.compile(r"Error: Temporal properties were violated"), "liveness"),
    (re.compile(r"Error: Temporal property (\w+) was violated"), "liveness"),
    (re.compile(r"Error: Deadlock reached"), "deadlock"),
    (re.compile(r"Error: The postcondition (\w*)"), "postcondition"),
    (re.compile(r"Error: Assumption .* is false"), "assumption"),
]


def run(spec_dir, module, cfg, *, workers=None, timeout=600, coverage=False, simulate=None,
        dump=None, depth=None, seed=None, extra=(), env=None, deadlock=None, jvm=(), dfs=False,
        heap="8g"):
    """Run TLC on spec_dir/module.tla with spec_dir/cfg.  Returns TLCResult.

    simulate: dict(num=N, file=prefix or None) -> -simulate;  dump: path for `-dump`.
    Raises TLCError on timeout / parse errors / crashes (exit 2 material)."""
    workers = workers or int(os.environ.get("VERIF_WORKERS", "16"))
    lim = dev_limits()
    slot = _NoSlot()
    gc_threads = min(8, max(2, workers))
    if lim:
        workers = min(workers, int(lim.get("workers", workers)))
        gc_threads = 2
        slot = _Slot(int(lim.get("slots", 6)))
    meta = scratch_dir("meta")
    cmd = ["java", "-XX:+UseParallelGC", "-XX:ParallelGCThreads=%d" % gc_threads, "-Xmx" + heap, "-Xss64m"]
    if dfs:
        cmd.append("-Dtlc2.tool.queue.IStateQueue=StateDeque")
    cmd += list(jvm)
    cmd += ["-cp", JAR, "tlc2.TLC", "-metadir", meta, "-noGenerateSpecTE",
            "-workers", str(workers), "-config", cfg]
    if coverage:
        cmd += ["-coverage", "1"]
    if simulate:
        s = "num=%d" % simulate["num"]
        if simulate.get("file"):
            s = "file=%s,%s" % (simulate["file"], s)
        cmd += ["-simulate", s]
    if depth is not None:
        cmd += ["-depth", str(depth)]
    if seed is not None:
        cmd += ["-seed", str(seed)]
    if dump:
        cmd += ["-dump", dump]
    if deadlock is False:
        cmd += ["-deadlock"]
    cmd += list(extra)
    cmd.append(module)
    e = dict(os.environ)
    e.pop("JAVA_TOOL_OPTIONS", None)
    if env:
        e.update(env)
    res = TLCResult()
    res.cmd = " ".join(cmd)
    t0 = time.time()
    try:
        with slot:
            t0 = time.time()
            p = subprocess.run(cmd, cwd=spec_dir, env=e, stdout=subprocess.PIPE, stderr=subprocess.STDOUT,
                               timeout=timeout, text=True, errors="replace")
    except subprocess.TimeoutExpired as ex:
        shutil.rmtree(meta, ignore_errors=True)
        raise TLCError("TLC timed out after %ss: %s" % (timeout, " ".join(cmd))) from ex
    finally:
        res.wall_s = time.time() - t0
    shutil.rmtree(meta, ignore_errors=True)
    res.rc = p.returncode
    out = res.out = p.stdout
    for m in _STATS.finditer(out):
        res.generated, res.distinct = int(m.group(1)), int(m.group(2))
    m = _DEPTH.search(out)
    if m:
        res.depth = int(m.group(1))
    if coverage:
        for m in _COV.finditer(out):
            name = m.group(1)
            d, t = int(m.group(3)), int(m.group(4))
            od, ot = res.coverage.get(name, (0, 0))
            res.coverage[name] = (max(od, d), max(ot, t))
    for rx, kind in _ERR_KINDS:
        m = rx.search(out)
        if m:
            name = m.group(1) if m.groups() else kind
            start = m.start()
            res.violation = {"kind": kind, "name": name, "text": out[start:start + 20000]}
            break
    if res.violation is None and res.rc not in (0,):
        # parse errors, semantic errors, evaluation errors, OOM ...
        raise TLCError("TLC failed rc=%s\n%s\n%s" % (res.rc, res.cmd, out[-4000:]))
    return res


_STATE_HDR = re.compile(r"^State (\d+):.*$", re.M)


def iter_dump_states(path, only=None):
    """Yield state dicts from a `-dump` file.  `only`: parse just this variable (fast path)."""
    with open(path) as f:
        text = f.read()
    hdrs = list(_STATE_HDR.finditer(text))
    for i, m in enumerate(hdrs):
        end = hdrs[i + 1].start() if i + 1 < len(hdrs) else len(text)
        body = text[m.end():end]
        if only:
            k = body.find("/\\ %s = " % only)
            if k < 0:
                mm = re.match(r"\s*%s = " % only, body)
                if not mm:
                    continue
                yield {only: tlaval.parse_value(body[mm.end():])}
                continue
            k2 = body.find("\n/\\ ", k + 1)
            seg = body[k + len("/\\ %s = " % only): k2 if k2 >= 0 else len(body)]
            yield {only: tlaval.parse_value(seg)}
        else:
            yield tlaval.parse_state(body)


_SIM_STATE = re.compile(r"^STATE_(\d+) ==\s*$", re.M)
_SIM_ACT = re.compile(r"\\\* <(\w+)")


def read_sim_file(path):
    """Parse one `-simulate file=` behaviour: list of (action_name, state dict)."""
    with open(path) as f:
        text = f.read()
    hdrs = list(_SIM_STATE.finditer(text))
    out = []
    for i, m in enumerate(hdrs):
        end = hdrs[i + 1].start() if i + 1 < len(hdrs) else len(text)
        body = text[m.end():end]
        # the action comment precedes the STATE_n header
        prev = text[hdrs[i - 1].end() if i else 0: m.start()]
        am = None
        for am in _SIM_ACT.finditer(prev):
            pass
        act = am.group(1) if am else "Init"
        # strip trailing comment lines / separators
        lines = [ln for ln in body.splitlines() if not ln.startswith("\\*") and ln.strip() != "" and not ln.startswith("====")]
        out.append((act, tlaval.parse_state("\n".join(lines))))
    return out


def parse_error_trace(text):
    """Parse the states of a TLC counterexample printed on stdout."""
    hdr = re.compile(r"^State (\d+): <([^>]*)>\s*$", re.M)
    hs = list(hdr.finditer(text))
    states = []
    for i, m in enumerate(hs):
        end = hs[i + 1].start() if i + 1 < len(hs) else len(text)
        body = text[m.end():end]
        stop = re.search(r"^\S*(Error|Finished|The |\d+ states|Progress|Back to)", body, re.M)
        if stop:
            body = body[:stop.start()]
        try:
            states.append((m.group(2).split(" line")[0], tlaval.parse_state(body)))
        except Exception:
            states.append((m.group(2), {"_raw": body.strip()}))
    return states


def sany(spec_dir, module):
    cmd = ["java", "-cp", JAR, "tla2sany.SANY", module]
    p = subprocess.run(cmd, cwd=spec_dir, stdout=subprocess.PIPE, stderr=subprocess.STDOUT, text=True, timeout=120)
    ok = p.returncode == 0 and "Semantic errors" not in p.stdout and "Parse Error" not in p.stdout and "*** Errors" not in p.stdout
    return ok, p.stdout
