"""Seeded random generators of HTTP/1.x byte streams for the code -> spec direction of C01 C04 C05 C08.

These build *inputs* only (richer than the TLC token grammar: random header sets, bodies up to a few
hundred bytes, pipelining, single-byte mutations at framing-relevant positions, random segmentations).
What the reader must do with them is decided by TLC (Trace_HttpReader), never here.

Deliberately not generated (DESIGN section 6: reference meaning disputed): HTTP/1.0 with
Transfer-Encoding, chunk extensions, trailers, more than one leading empty line, versions other
than 1.0 / 1.1, chunk-size lines longer than 64 bytes."""

METHODS = [b"GET", b"POST", b"PUT", b"HEAD", b"DELETE", b"OPTIONS", b"PATCH", b"M-SEARCH", b"X"]
NAMES = [b"Accept", b"X-A", b"x-b", b"User-Agent", b"Cookie", b"X-Long-Header-Name", b"Accept-Encoding", b"A", b"Via"]
VCH = bytes(range(0x21, 0x7f))
MUT = [b"0", b"9", b"a", b"F", b"g", b" ", b"\t", b"\r", b"\n", b"+", b"-", b",", b";", b":", b"\x00", b"\x7f",
       b"\x80", b"\xff", b"x", b"_", b"."]


def rand_value(rng, maxlen=20):
    n = rng.randrange(0, maxlen)
    alpha = VCH + b"  \t" + (b"\xe9\x80\xff" if rng.random() < 0.2 else b"")
    v = bytes(rng.choice(alpha) for _ in range(n))
    return v.strip(b" \t")


class Wire:
    """bytes plus the framing-relevant positions (where a one-byte change alters the framing)."""

    def __init__(self):
        self.b = bytearray()
        self.hot = []

    def add(self, data, hot=False):
        if hot:
            self.hot.extend(range(len(self.b), len(self.b) + len(data)))
        self.b += data

    def eol(self, rng, p_lf=0.05):
        if rng.random() < p_lf:
            self.add(b"\n", hot=True)
        else:
            self.add(b"\r\n", hot=True)


def chunked_body(rng, w, body):
    pos = 0
    while pos < len(body):
        n = rng.randrange(1, max(2, min(len(body) - pos, 64) + 1))
        size = (b"%x" if rng.random() < 0.7 else b"%X") % n
        if rng.random() < 0.1:
            size = b"0" * rng.randrange(1, 3) + size
        w.add(size, hot=True)
        w.add(b"\r\n", hot=True)
        w.add(body[pos:pos + n])
        w.add(b"\r\n", hot=True)
        pos += n
    w.add(b"0", hot=True)
    w.add(b"\r\n\r\n", hot=True)


def gen_request(rng, w, max_body=300, force_version=None):
    """Append one well-formed request to w (mutations are applied afterwards by the caller)."""
    method = rng.choice(METHODS)
    target = b"/" + bytes(rng.choice(VCH) for _ in range(rng.randrange(0, 12)))
    if rng.random() < 0.05:
        target += b"\xe9"
    version = force_version or (b"HTTP/1.1" if rng.random() < 0.85 else b"HTTP/1.0")
    if rng.random() < 0.05:
        w.add(b"\r\n", hot=True)                    # one leading empty line
    w.add(method)
    w.add(b" ", hot=True)
    w.add(target)
    w.add(b" ", hot=True)
    w.add(version, hot=True)
    w.eol(rng)
    fields = []
    if version == b"HTTP/1.1" or rng.random() < 0.5:
        fields.append(("host", rng.choice([b"h", b"example.com:8080", b"[::1]", b"a-b.c", b"127.0.0.1"])))
    for _ in range(rng.randrange(0, 5)):
        fields.append(("x", None))
    framing = rng.choice(["none", "none", "cl", "cl", "chunked"])
    if version == b"HTTP/1.0" and framing == "chunked":
        framing = "cl"
    body = bytes(rng.randrange(256) for _ in range(rng.choice([0, 1, 2, 5, 17, 64, 65, 130, max_body])))
    if framing == "cl":
        fields.append(("cl", None))
        if rng.random() < 0.08:
            fields.append(("cl", None))             # duplicated identical Content-Length
    elif framing == "chunked":
        fields.append(("te", None))
    if rng.random() < 0.25:
        fields.append(("conn", rng.choice([b"close", b"keep-alive", b"Keep-Alive", b"Close"])))
    rng.shuffle(fields)
    for kind, val in fields:
        if kind == "host":
            w.add(rng.choice([b"Host", b"host", b"HOST"]), hot=True)
            w.add(b":")
            w.add(rng.choice([b" ", b"", b"\t "]))
            w.add(val, hot=True)
        elif kind == "x":
            w.add(rng.choice(NAMES))
            w.add(b":")
            w.add(rng.choice([b" ", b"", b"  "]))
            fold = rng.random() < 0.08
            w.add(rand_value(rng))
            if fold:                                 # obs-fold
                w.eol(rng)
                w.add(rng.choice([b" ", b"\t", b"  "]), hot=True)
                w.add(rand_value(rng))
            w.add(rng.choice([b"", b"", b" "]))
        elif kind == "cl":
            w.add(rng.choice([b"Content-Length", b"content-length", b"CONTENT-LENGTH"]), hot=True)
            w.add(b":")
            w.add(rng.choice([b" ", b""]))
            digits = b"%d" % len(body)
            if rng.random() < 0.1:
                digits = b"0" + digits
            if rng.random() < 0.05:
                digits = digits + rng.choice([b",", b", "]) + digits
            w.add(digits, hot=True)
        elif kind == "te":
            w.add(rng.choice([b"Transfer-Encoding", b"transfer-encoding"]), hot=True)
            w.add(b":")
            w.add(b" ")
            w.add(rng.choice([b"chunked", b"chunked", b"Chunked", b"CHUNKED"]), hot=True)
        elif kind == "conn":
            w.add(b"Connection: ")
            w.add(val, hot=True)
        w.eol(rng)
    w.eol(rng, p_lf=0.03)
    if framing == "cl":
        w.add(body)
    elif framing == "chunked":
        chunked_body(rng, w, body)
    return framing


def mutate(rng, w):
    """One single-byte edit at a framing-relevant position: replace / delete / duplicate / insert."""
    if not w.hot:
        return
    p = rng.choice(w.hot)
    kind = rng.random()
    b = w.b
    if kind < 0.5:
        b[p:p + 1] = rng.choice(MUT)
    elif kind < 0.7:
        del b[p:p + 1]
    elif kind < 0.85:
        b[p:p] = b[p:p + 1]
    else:
        b[p:p] = rng.choice(MUT)


def gen_request_stream(rng, max_body=300, p_mut=0.5):
    w = Wire()
    n = rng.choice([1, 1, 2, 2, 3, 4])
    for _ in range(n):
        gen_request(rng, w, max_body=max_body)
    if rng.random() < p_mut:
        mutate(rng, w)
    return bytes(w.b)


def segmentation(rng, n):
    """A random segmentation of n bytes as a list of piece lengths."""
    if n == 0:
        return []
    r = rng.random()
    if r < 0.15:
        return [n]
    if r < 0.25 and n <= 200:
        return [1] * n
    k = rng.randrange(1, 8)
    pts = sorted(set(rng.randrange(1, n) for _ in range(k))) if n > 1 else []
    out, last = [], 0
    for p in pts:
        out.append(p - last)
        last = p
    out.append(n - last)
    return out


# ---------------------------------------------------------------------------------------------
# responses (C08)

STATUS = [(200, b"OK"), (200, b"OK"), (201, b"Created"), (204, b"No Content"), (304, b"Not Modified"), (404, b"Not Found"),
          (500, b"Internal Server Error"), (200, b""), (299, b"Odd reason \xe9")]


def gen_response_stream(rng, gz_table=(), max_body=200, p_mut=0.4):
    """One response (optionally preceded by interim 1xx responses), possibly mutated at a framing-relevant
    position.  Returns (bytes, info) with info = {"gz": bool}."""
    w = Wire()
    for _ in range(rng.choice([0, 0, 0, 1, 2])):
        w.add(rng.choice([b"HTTP/1.1 100 Continue", b"HTTP/1.1 103 Early Hints", b"HTTP/1.1 102 Processing"]), hot=True)
        w.eol(rng)
        if rng.random() < 0.3:
            w.add(b"X-Interim: " + rand_value(rng))
            w.eol(rng)
        w.eol(rng, p_lf=0.03)
    code, reason = rng.choice(STATUS)
    w.add(rng.choice([b"HTTP/1.1", b"HTTP/1.1", b"HTTP/1.0"]), hot=True)
    w.add(b" ", hot=True)
    w.add(b"%d" % code, hot=True)
    w.add(b" ", hot=True)
    w.add(reason)
    w.eol(rng)
    use_gz = bool(gz_table) and code == 200 and rng.random() < 0.3
    if use_gz:
        enc, dec = rng.choice(gz_table)
        body = enc[:len(enc) - rng.choice([0, 0, 0, 1, 7])]
    else:
        body = bytes(rng.randrange(256) for _ in range(rng.choice([0, 1, 3, 17, 64, 65, max_body])))
    framing = rng.choice(["cl", "cl", "chunked", "close"])
    if code in (204, 304):
        framing, body = rng.choice(["none", "none", "cl0"]), b""
    fields = [("x", None) for _ in range(rng.randrange(0, 4))]
    if framing in ("cl", "cl0"):
        fields.append(("cl", None))
        if rng.random() < 0.08:
            fields.append(("cl", None))
    elif framing == "chunked":
        fields.append(("te", None))
    if use_gz:
        fields.append(("ce", None))
    if rng.random() < 0.2:
        fields.append(("sc", None))
    rng.shuffle(fields)
    for kind, _ in fields:
        if kind == "x":
            w.add(rng.choice(NAMES))
            w.add(b": ")
            w.add(rand_value(rng) or b"v")
        elif kind == "cl":
            w.add(rng.choice([b"Content-Length", b"content-length"]), hot=True)
            w.add(b": ")
            w.add(b"%d" % len(body), hot=True)
        elif kind == "te":
            w.add(b"Transfer-Encoding", hot=True)
            w.add(b": ")
            w.add(rng.choice([b"chunked", b"Chunked"]), hot=True)
        elif kind == "ce":
            w.add(b"Content-Encoding: ")
            w.add(rng.choice([b"gzip", b"gzip", b"GZIP"]))
        elif kind == "sc":
            w.add(b"Set-Cookie: a=1")
            w.eol(rng)
            w.add(b"Set-Cookie: b=2")
        w.eol(rng)
    w.eol(rng, p_lf=0.03)
    if framing == "chunked":
        chunked_body(rng, w, body)
    else:
        w.add(body)
    if rng.random() < 0.1 and not (use_gz and framing == "close"):
        w.add(b"trailing garbage")      # (after a close-delimited gzip member it would be part of the coded body)
    if rng.random() < p_mut:
        mutate(rng, w)
    return bytes(w.b), {"gz": use_gz}
