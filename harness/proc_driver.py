"""Drivers binding specs/proc/*.tla to tornado.process (C41 fork_processes, C42 Subprocess).

Nothing in /repo is edited.  The real functions run against *module-level names of
tornado.process replaced from here* (`tornado.process.os`, `.sys`, `.multiprocessing`,
`.subprocess`): fork / wait / waitpid / Popen answer from a script (a TLC-generated behaviour
or a seeded random responder); everything else (`os.W*` status decoding, `os.urandom`, ...) is
delegated to the real modules.  Module / class globals (`_task_id`, `Subprocess._waiting`,
`Subprocess._initialized`) are reset before every run.

C41  run_supervisor(cfg, responder) runs the real fork_processes once; the supervisor's
     observable after every answered call is what it does next (`pc`: fork / wait / ret /
     exit / raise), its return value or exit code, and task_id() - the spec's `Proj`.
C42  SubReal wraps real Subprocess objects on the virtual-time loop behind
     step(act, args) -> projection (callback values, future states, returncodes).
"""
import logging
import os as _real_os
import subprocess as _real_subprocess
import sys as _real_sys

from . import REPO  # noqa: F401  (puts the repo under test on sys.path)

NO_N = 99
NO_BUDGET = 999
NO_TID = -1
NO_RC = 999
PID_BASE = 4000          # spec pid p  <->  OS pid PID_BASE + p


class ScriptEnd(BaseException):
    """Raised inside the shimmed call when the script has no further answer: unwinds the code
    under test (BaseException, so that `except Exception` in Tornado would not swallow it)."""


class _Delegate:
    """Module stand-in: attributes not overridden come from the real module."""

    def __init__(self, real, **over):
        self.__dict__["_real"] = real
        self.__dict__.update(over)

    def __getattr__(self, name):
        return getattr(self.__dict__["_real"], name)


class _Quiet:
    """Silence tornado's loggers during a run (records are collected, not printed)."""

    def __init__(self):
        self.records = []

    def __enter__(self):
        self._h = logging.Handler()
        self._h.emit = self.records.append
        self._saved = []
        for name in ("tornado.general", "tornado.application", "asyncio"):
            lg = logging.getLogger(name)
            self._saved.append((lg, lg.handlers[:], lg.propagate, lg.level))
            lg.handlers = [self._h]
            lg.propagate = False
            lg.setLevel(logging.DEBUG)
        return self

    def __exit__(self, *a):
        for lg, handlers, prop, level in self._saved:
            lg.handlers = handlers
            lg.propagate = prop
            lg.setLevel(level)


# ---------------------------------------------------------------------------------------- C41

def _tid(process):
    t = process.task_id()
    return NO_TID if t is None else t


def run_supervisor(cfg, responder):
    """Run the real tornado.process.fork_processes(cfg.n, cfg.budget) with fork / wait answered
    by `responder(kind, index)`:
        kind "fork" -> ("parent", spec_pid) | ("child",)        kind "wait" -> (spec_pid, raw_status)
    or raising ScriptEnd to stop.  Returns the list of observations: obs[0] after the call
    started (the supervisor's first blocking call), obs[k] after the k-th answer."""
    from tornado import process
    obs = []
    count = [0]

    def observe(pc, val=0, err="none", errclass=None):
        o = {"pc": pc, "val": val, "err": err, "tid": _tid(process)}
        if errclass:
            o["errclass"] = errclass
        obs.append(o)

    def fork():
        observe("fork")
        k = count[0]
        count[0] += 1
        r = responder("fork", k)
        if r[0] == "child":
            return 0
        return PID_BASE + r[1]

    def wait():
        observe("wait")
        k = count[0]
        count[0] += 1
        pid, raw = responder("wait", k)
        return PID_BASE + pid, raw

    def exit_(code=0):
        raise SystemExit(code)

    n = None if cfg["n"] == NO_N else cfg["n"]
    budget = None if cfg["budget"] == NO_BUDGET else cfg["budget"]
    saved = (process.os, process.sys, process.multiprocessing, process._task_id)
    process.os = _Delegate(_real_os, fork=fork, wait=wait)
    process.sys = _Delegate(_real_sys, exit=exit_)
    process.multiprocessing = _Delegate(__import__("multiprocessing"), cpu_count=lambda: cfg["cpus"])
    process._task_id = None
    try:
        with _Quiet():
            try:
                ret = process.fork_processes(n, budget)
            except ScriptEnd:
                pass
            except SystemExit as e:
                code = e.code
                observe("exit", 0 if code is None else code if isinstance(code, int) else 1)
            except Exception as e:      # the supervisor failed: an observation, not a harness crash
                observe("raise", 0, "fail", type(e).__name__)
            else:
                observe("ret", NO_TID if ret is None else ret)
    finally:
        process.os, process.sys, process.multiprocessing, process._task_id = saved
    return obs


def script_responder(path):
    """Answers taken from a TLC behaviour (list of step records act/args)."""
    def responder(kind, k):
        if k >= len(path):
            raise ScriptEnd()
        s = path[k]
        act, args = s["act"], s["args"]
        if kind == "fork" and act == "fork_parent":
            return ("parent", args[0])
        if kind == "fork" and act == "fork_child":
            return ("child",)
        if kind == "wait" and act == "wait":
            return (args[0], args[2])
        raise ScriptEnd()       # the code asked for something else than the behaviour answers: stop (already observed)
    return responder


def replay_supervisor(cfg, path):
    """Spec -> code for one behaviour: returns None or the first divergence."""
    assert path[0]["act"] == "init"
    obs = run_supervisor(cfg, script_responder(path[1:]))
    # obs[k] is the projection after step k (obs[0] belongs to Init: the first blocking call)
    for k, s in enumerate(path):
        o = dict(obs[k]) if k < len(obs) else {"pc": "missing", "val": 0, "err": "none", "tid": NO_TID}
        errclass = o.pop("errclass", None)
        if o != s["exp"]:
            return {"step": k, "act": s["act"], "args": s["args"], "exp": s["exp"], "obs": o,
                    "sig": {"act": s["act"], "exp_pc": s["exp"]["pc"], "obs_pc": o["pc"],
                            "val_differs": o["val"] != s["exp"]["val"], "tid_differs": o["tid"] != s["exp"]["tid"],
                            "errclass": errclass, "status": s["args"][1] if s["act"] == "wait" else None}}
    return None


# ---------------------------------------------------------------------------------------- C42

class _FakePopen:
    """What subprocess.Popen returns under the shim: a pid and the attributes Subprocess copies."""

    def __init__(self, pid):
        self.pid = pid
        self.stdin = self.stdout = self.stderr = None
        self.returncode = None


class Kernel:
    """The kernel side of the scripted children: which are running / zombies (with the raw wait
    status the behaviour supplies) / already waited for, and the waitpid() that follows from it."""

    def __init__(self):
        self.state = {}       # os pid -> "running" | "zombie" | "reaped"
        self.raw = {}
        self.calls = 0

    def spawn(self, pid):
        self.state[pid] = "running"

    def exit(self, pid, raw):
        assert self.state[pid] == "running"
        self.state[pid] = "zombie"
        self.raw[pid] = raw

    def waitpid(self, pid, options):
        self.calls += 1
        st = self.state.get(pid)
        if st is None or st == "reaped":
            raise ChildProcessError(10, "No child processes")
        if st == "running":
            if not options & _real_os.WNOHANG:
                raise BlockingIOError("waitpid without WNOHANG on a running child would block the event loop forever")
            return 0, 0
        self.state[pid] = "reaped"
        return pid, self.raw[pid]


class SubReal:
    """Real tornado.process.Subprocess objects behind the SubprocessExit.tla action interface.

    tornado.process.subprocess.Popen and tornado.process.os.waitpid are answered by `Kernel`;
    the SIGCHLD handler Tornado installs with loop.add_signal_handler is recorded (the virtual
    loop has no signal pipe) and a delivery is the handler scheduled with call_soon, as asyncio
    does for a real signal."""

    def __init__(self, cfg, maxc):
        from tornado import process
        from .vloop import Env
        self.process = process
        self.maxc = maxc
        self.nc = cfg["nc"]
        self.kernel = Kernel()
        self.quiet = _Quiet()
        self.quiet.__enter__()
        self.env = Env()
        self.handlers = {}
        loop = self.env.loop
        loop.add_signal_handler = lambda sig, cb, *a: self.handlers.__setitem__(sig, (cb, a))
        loop.remove_signal_handler = lambda sig: self.handlers.pop(sig, None) is not None
        self._saved = (process.os, process.subprocess, process.Subprocess._initialized, process.Subprocess._waiting)
        process.os = _Delegate(_real_os, waitpid=self.kernel.waitpid)
        process.subprocess = _Delegate(_real_subprocess, Popen=self._popen)
        process.Subprocess._initialized = False
        process.Subprocess._waiting = {}
        self.err = "none"
        self.cbs = {c: [] for c in range(1, maxc + 1)}
        self.futs = {}
        self.subs = {}
        self._next = 0
        self.ctor_err = None
        try:
            for c in range(1, self.nc + 1):
                self.subs[c] = process.Subprocess(["child", str(c)])
        except Exception as e:
            self.ctor_err = type(e).__name__
        self.env.settle()

    def _popen(self, *a, **kw):
        self._next += 1
        pid = PID_BASE + self._next
        self.kernel.spawn(pid)
        return _FakePopen(pid)

    def proj(self):
        import signal
        futs = []
        for c in range(1, self.maxc + 1):
            f = self.futs.get(c)
            if f is None:
                futs.append({"s": "none", "v": 0})
            elif not f.done():
                futs.append({"s": "pending", "v": 0})
            elif f.cancelled():
                futs.append({"s": "cancelled", "v": 0})
            elif f.exception() is not None:
                e = f.exception()
                v = getattr(e, "returncode", 0)
                futs.append({"s": type(e).__name__, "v": v if isinstance(v, int) else 0})
            else:
                r = f.result()
                futs.append({"s": "ok", "v": r} if isinstance(r, int) and not isinstance(r, bool)
                            else {"s": "ok:" + type(r).__name__, "v": 0})
        rcs = []
        for c in range(1, self.maxc + 1):
            s = self.subs.get(c)
            r = None if s is None else s.returncode
            rcs.append(NO_RC if r is None else r)
        unc = len(self.env.loop.uncaught) + sum(1 for r in self.quiet.records if r.levelno >= logging.ERROR)
        return {"cbs": [list(self.cbs[c]) for c in range(1, self.maxc + 1)], "fut": futs, "rc": rcs,
                "err": self.ctor_err or self.err, "unc": unc}

    def step(self, act, args):
        import signal
        self.err = "none"
        try:
            if act == "exit":
                c, st, raw = args
                self.kernel.exit(self.subs[c].pid, raw)
            elif act == "register":
                c, k = args
                if k == "cb":
                    self.subs[c].set_exit_callback(self.cbs[c].append)
                elif k == "wr":
                    self.futs[c] = self.subs[c].wait_for_exit()
                elif k == "wn":
                    self.futs[c] = self.subs[c].wait_for_exit(raise_error=False)
                else:
                    raise ValueError(k)
            elif act == "sigchld":
                h = self.handlers.get(signal.SIGCHLD)
                if h is None:
                    self.err = "harness:no-handler"        # the spec delivers only to an installed handler
                else:
                    self.env.loop.call_soon(h[0], *h[1])
            elif act == "cancel":
                self.futs[args[0]].cancel()
            elif act == "initialize":
                self.process.Subprocess.initialize()
            elif act == "uninitialize":
                self.process.Subprocess.uninitialize()
            elif act == "init":
                pass
            else:
                raise ValueError(act)
        except Exception as e:      # any exception of the real call is an observation
            self.err = type(e).__name__
        self.env.settle()
        return self.proj()

    def close(self):
        p = self.process
        p.os, p.subprocess, p.Subprocess._initialized, p.Subprocess._waiting = self._saved
        self.env.close()
        self.quiet.__exit__()


def replay_subprocess(cfg, path, maxc):
    from .framework import canon
    real = SubReal(cfg, maxc)
    try:
        for i, s in enumerate(path):
            obs = canon(real.step(s["act"], s["args"]))
            if obs != s["exp"]:
                diff = sorted(k for k in s["exp"] if obs.get(k) != s["exp"][k])
                sig = {"act": s["act"], "differs": diff, "obs_err": obs["err"], "obs_unc": obs["unc"]}
                if s["act"] == "register":
                    sig["kind_"] = s["args"][1]
                return {"step": i, "act": s["act"], "args": s["args"], "exp": s["exp"], "obs": obs, "sig": sig}
        return None
    finally:
        real.close()
