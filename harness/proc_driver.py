"""Drivers binding specs/proc/*.tla to tornado.process (C41 fork_processes, C42 Subprocess).

Nothing in /repo is edited.  The real functions run against *module-level names of
tornado.process replaced from here* (`tornado.process.os`, `.sys`, `.multiprocessing`,
`.subprocess`): fork / wait / waitpid / Popen answer from a script (a TLC-generated behaviour
or a seeded random responder); everything else (`os.W*` status decoding, `os.urandom`, ...) is
delegated to the real modules.  Module / class globals (`_task_id`, `Subprocess._waiting`,
`Subprocess._initialized`) are reset before every run.

C41  run_supervisor(cfg, responder) runs the real fork_processes once; the supervisor's
     observable after every answered call is what it does next (`pc`: fork / wait / ret /
     exit / raise), its return value or exit code, and task_id() - the spec's `Proj`.
C42  SubReal wraps real Subprocess objects on the virtual-time loop behind
     step(act, args) -> projection (callback values, future states, returncodes).
"""
import logging
import os as _real_os
import subprocess as _real_subprocess
import sys as _real_sys

from . import REPO  # noqa: F401  (puts the repo under test on sys.path)

NO_N = 99
NO_BUDGET = 999
NO_TID = -1
NO_RC = 999
PID_BASE = 4000          # spec pid p  <->  OS pid PID_BASE + p


class ScriptEnd(BaseException):
    """Raised inside the shimmed call when the script has no further answer: unwinds the code
    under test (BaseException, so that `except Exception` in Tornado would not swallow it)."""


class _Delegate:
    """Module stand-in: attributes not overridden come from the real module."""

    def __init__(self, real, **over):
        self.__dict__["_real"] = real
        self.__dict__.update(over)

    def __getattr__(self, name):
        return getattr(self.__dict__["_real"], name)


class _Quiet:
    """Silence tornado's loggers during a run (records are collected, not printed)."""

    def __init__(self):
        self.records = []

    def __enter__(self):
        self._h = logging.Handler()
        self._h.emit = self.records.append
        self._saved = []
        for name in ("tornado.general", "tornado.application", "asyncio"):
            lg = logging.getLogger(name)
            self._saved.append((lg, lg.handlers[:], lg.propagate, lg.level))
            lg.handlers = [self._h]
            lg.propagate = False
            lg.setLevel(logging.DEBUG)
        return self

    def __exit__(self, *a):
        for lg, handlers, prop, level in self._saved:
            lg.handlers = handlers
            lg.propagate = prop
            lg.setLevel(level)


# ---------------------------------------------------------------------------------------- C41

def _tid(process):
    t = process.task_id()
    return NO_TID if t is None else t


def run_supervisor(cfg, responder):
    """Run the real tornado.process.fork_processes(cfg.n, cfg.budget) with fork / wait answered
    by `responder(kind, index)`:
        kind "fork" -> ("parent", spec_pid) | ("child",)        kind "wait" -> (spec_pid, raw_status)
    or raising ScriptEnd to stop.  Returns the list of observations: obs[0] after the call
    started (the supervisor's first blocking call), obs[k] after the k-th answer."""
    from tornado import process
    obs = []
    count = [0]

    def observe(pc, val=0, err="none", errclass=None):
        o = {"pc": pc, "val": val, "err": err, "tid": _tid(process)}
        if errclass:
            o["errclass"] = errclass
        obs.append(o)

    def fork():
        observe("fork")
        k = count[0]
        count[0] += 1
        r = responder("fork", k)
        if r[0] == "child":
            return 0
        return PID_BASE + r[1]

    def wait():
        observe("wait")
        k = count[0]
        count[0] += 1
        pid, raw = responder("wait", k)
        return PID_BASE + pid, raw

    def exit_(code=0):
        raise SystemExit(code)

    n = None if cfg["n"] == NO_N else cfg["n"]
    budget = None if cfg["budget"] == NO_BUDGET else cfg["budget"]
    saved = (process.os, process.sys, process.multiprocessing, process._task_id)
    def waitpid(pid, options=0):          # os.waitpid(-1, 0) is os.wait()
        if pid != -1 or options != 0:
            raise NotImplementedError("harness: waitpid(%r, %r) is not scripted for fork_processes" % (pid, options))
        return wait()

    cpus = lambda *a: cfg["cpus"]         # noqa: E731  every way of asking for the cpu count gives cfg.cpus
    process.os = _Delegate(_real_os, fork=fork, wait=wait, waitpid=waitpid, _exit=exit_, cpu_count=cpus,
                           process_cpu_count=cpus, sched_getaffinity=lambda *a: set(range(cfg["cpus"])))
    process.sys = _Delegate(_real_sys, exit=exit_)
    process.multiprocessing = _Delegate(__import__("multiprocessing"), cpu_count=lambda: cfg["cpus"])
    process._task_id = None
    try:
        with _Quiet():
            try:
                ret = process.fork_processes(n, budget)
            except ScriptEnd:
                pass
            except SystemExit as e:
                code = e.code
                observe("exit", 0 if code is None else code if isinstance(code, int) else 1)
            except Exception as e:      # the supervisor failed: an observation, not a harness crash
                observe("raise", 0, "fail", type(e).__name__)
            else:
                observe("ret", NO_TID if ret is None else ret)
    finally:
        process.os, process.sys, process.multiprocessing, process._task_id = saved
    return obs


def script_responder(path):
    """Answers taken from a TLC behaviour (list of step records act/args)."""
    def responder(kind, k):
        if k >= len(path):
            raise ScriptEnd()
        s = path[k]
        act, args = s["act"], s["args"]
        if kind == "fork" and act == "fork_parent":
            return ("parent", args[0])
        if kind == "fork" and act == "fork_child":
            return ("child",)
        if kind == "wait" and act == "wait":
            return (args[0], args[2])
        raise ScriptEnd()       # the code asked for something else than the behaviour answers: stop (already observed)
    return responder


def replay_supervisor(cfg, path):
    """Spec -> code for one behaviour: returns None or the first divergence."""
    assert path[0]["act"] == "init"
    obs = run_supervisor(cfg, script_responder(path[1:]))
    # obs[k] is the projection after step k (obs[0] belongs to Init: the first blocking call)
    for k, s in enumerate(path):
        o = dict(obs[k]) if k < len(obs) else {"pc": "missing", "val": 0, "err": "none", "tid": NO_TID}
        errclass = o.pop("errclass", None)
        if o != s["exp"]:
            return {"step": k, "act": s["act"], "args": s["args"], "exp": s["exp"], "obs": o,
                    "sig": {"act": s["act"], "exp_pc": s["exp"]["pc"], "obs_pc": o["pc"],
                            "val_differs": o["val"] != s["exp"]["val"], "tid_differs": o["tid"] != s["exp"]["tid"],
                            "errclass": errclass, "status": s["args"][1] if s["act"] == "wait" else None}}
    return None


# ---------------------------------------------------------------------------------------- C42

class _FakePopen:
    """What subprocess.Popen returns under the shim: a pid and the attributes Subprocess copies."""

    def __init__(self, pid):
        self.pid = pid
        self.stdin = self.stdout = self.stderr = None
        self.returncode = None


class Kernel:
    """The kernel side of the scripted children: which are running / zombies (with the raw wait
    status the behaviour supplies) / already waited for, and the waitpid() that follows from it."""

    def __init__(self):
        self.state = {}       # os pid -> "running" | "zombie" | "reaped"
        self.raw = {}
        self.calls = 0

    def spawn(self, pid):
        self.state[pid] = "running"

    def exit(self, pid, raw):
        assert self.state[pid] == "running"
        self.state[pid] = "zombie"
        self.raw[pid] = raw

    def waitpid(self, pid, options):
        self.calls += 1
        st = self.state.get(pid)
        if st is None or st == "reaped":
            raise ChildProcessError(10, "No child processes")
        if st == "running":
            if not options & _real_os.WNOHANG:
                raise BlockingIOError("waitpid without WNOHANG on a running child would block the event loop forever")
            return 0, 0
        self.state[pid] = "reaped"
        return pid, self.raw[pid]


class SubReal:
    """Real tornado.process.Subprocess objects behind the SubprocessExit.tla action interface.

    tornado.process.subprocess.Popen and tornado.process.os.waitpid are answered by `Kernel`;
    the SIGCHLD handler Tornado installs with loop.add_signal_handler is recorded (the virtual
    loop has no signal pipe) and a delivery is the handler scheduled with call_soon, as asyncio
    does for a real signal."""

    def __init__(self, cfg, maxc):
        from tornado import process
        from .vloop import Env
        self.process = process
        self.maxc = maxc
        self.nc = cfg["nc"]
        self.kernel = Kernel()
        self.quiet = _Quiet()
        self.quiet.__enter__()
        self.env = Env()
        self.handlers = {}
        loop = self.env.loop
        loop.add_signal_handler = lambda sig, cb, *a: self.handlers.__setitem__(sig, (cb, a))
        loop.remove_signal_handler = lambda sig: self.handlers.pop(sig, None) is not None
        self._saved = (process.os, process.subprocess, process.Subprocess._initialized, process.Subprocess._waiting)
        process.os = _Delegate(_real_os, waitpid=self.kernel.waitpid)
        process.subprocess = _Delegate(_real_subprocess, Popen=self._popen)
        process.Subprocess._initialized = False
        process.Subprocess._waiting = {}
        self.err = "none"
        self.cbs = {c: [] for c in range(1, maxc + 1)}
        self.futs = {}
        self.subs = {}
        self._next = 0
        self.ctor_err = None
        try:
            for c in range(1, self.nc + 1):
                self.subs[c] = process.Subprocess(["child", str(c)])
        except Exception as e:
            self.ctor_err = type(e).__name__
        self.env.settle()

    def _popen(self, *a, **kw):
        self._next += 1
        pid = PID_BASE + self._next
        self.kernel.spawn(pid)
        return _FakePopen(pid)

    def proj(self):
        import signal
        futs = []
        for c in range(1, self.maxc + 1):
            f = self.futs.get(c)
            if f is None:
                futs.append({"s": "none", "v": 0})
            elif not f.done():
                futs.append({"s": "pending", "v": 0})
            elif f.cancelled():
                futs.append({"s": "cancelled", "v": 0})
            elif f.exception() is not None:
                e = f.exception()
                v = getattr(e, "returncode", 0)
                futs.append({"s": type(e).__name__, "v": v if isinstance(v, int) else 0})
            else:
                r = f.result()
                futs.append({"s": "ok", "v": r} if isinstance(r, int) and not isinstance(r, bool)
                            else {"s": "ok:" + type(r).__name__, "v": 0})
        rcs = []
        for c in range(1, self.maxc + 1):
            s = self.subs.get(c)
            r = None if s is None else s.returncode
            rcs.append(NO_RC if r is None else r)
        # exceptions that escaped from a callback into the event loop (asyncio's handler, or the
        # IOLoop's "Exception in callback" log); Tornado's deliberate diagnostics are not counted
        unc = len(self.env.loop.uncaught) + sum(1 for r in self.quiet.records if r.levelno >= logging.ERROR
                                                and str(r.msg).startswith("Exception in callback"))
        return {"cbs": [list(self.cbs[c]) for c in range(1, self.maxc + 1)], "fut": futs, "rc": rcs,
                "err": self.ctor_err or self.err, "unc": unc}

    def step(self, act, args):
        import signal
        self.err = "none"
        try:
            if act == "exit":
                c, st, raw = args
                self.kernel.exit(self.subs[c].pid, raw)
            elif act == "register":
                c, k = args
                if k == "cb":
                    self.subs[c].set_exit_callback(self.cbs[c].append)
                elif k == "wr":
                    self.futs[c] = self.subs[c].wait_for_exit()
                elif k == "wn":
                    self.futs[c] = self.subs[c].wait_for_exit(raise_error=False)
                else:
                    raise ValueError(k)
            elif act == "sigchld":
                h = self.handlers.get(signal.SIGCHLD)
                if h is None:
                    self.err = "harness:no-handler"        # the spec delivers only to an installed handler
                else:
                    self.env.loop.call_soon(h[0], *h[1])
            elif act == "cancel":
                self.futs[args[0]].cancel()
            elif act == "initialize":
                self.process.Subprocess.initialize()
            elif act == "uninitialize":
                self.process.Subprocess.uninitialize()
            elif act == "init":
                pass
            else:
                raise ValueError(act)
        except Exception as e:      # any exception of the real call is an observation
            self.err = type(e).__name__
        self.env.settle()
        return self.proj()

    def close(self):
        p = self.process
        p.os, p.subprocess, p.Subprocess._initialized, p.Subprocess._waiting = self._saved
        self.env.close()
        self.quiet.__exit__()


def replay_subprocess(cfg, path, maxc):
    from .framework import canon
    real = SubReal(cfg, maxc)
    try:
        for i, s in enumerate(path):
            obs = canon(real.step(s["act"], s["args"]))
            if obs != s["exp"]:
                diff = sorted(k for k in s["exp"] if obs.get(k) != s["exp"][k])
                sig = {"act": s["act"], "differs": diff, "obs_err": obs["err"], "obs_unc": obs["unc"]}
                if s["act"] == "register":
                    sig["kind_"] = s["args"][1]
                return {"step": i, "act": s["act"], "args": s["args"], "exp": s["exp"], "obs": obs, "sig": sig}
        return None
    finally:
        real.close()


# ------------------------------------------------------------------ fast path-dump reader
# ctx.gen_paths parses every variable of every dumped state with the generic TLA value parser
# (~5 ms per state for these specs); the histories here consist of sequences, records, strings
# and integers only, so the `hist` / `cfg` conjuncts are rewritten to JSON and read by the C
# json parser instead (same result: maximal paths as (extra, path) in canon form).

import json as _json
import re as _re

_REC_KEY = _re.compile(r"([A-Za-z_]\w*) \|->")
_HDR = _re.compile(r"^State \d+:.*$", _re.M)


def _tla_to_json(text):
    if '\\"' in text or "(" in text or ":>" in text or "{" in text:
        raise ValueError("value outside the sequence/record/string/int fragment: %s" % text[:200])
    t = text.replace("[", "{").replace("]", "}").replace("<<", "[").replace(">>", "]")
    t = _REC_KEY.sub(r'"\1":', t).replace("TRUE", "true").replace("FALSE", "false")
    return _json.loads(t)


def _conjunct(body, var):
    key = "/\\ %s = " % var
    k = body.find(key)
    if k < 0:
        raise ValueError("no conjunct %s" % var)
    k2 = body.find("\n/\\ ", k + 1)
    return body[k + len(key): k2 if k2 >= 0 else len(body)]


def gen_paths_fast(ctx, spec_dir, module, cfg, overrides=None, timeout=None, workers=None):
    import os
    from . import VERIF, tlc, framework
    sd = os.path.join(VERIF, "specs", spec_dir)
    cfgp = os.path.join(sd, cfg)
    if overrides:
        cfgp = framework.make_cfg(cfgp, overrides, ctx.scratch, "%s_%s" % (module, os.path.basename(cfg)))
    dump = os.path.join(ctx.scratch, "%s_%d" % (module, len(os.listdir(ctx.scratch))))
    r = tlc.run(sd, module, cfgp, timeout=timeout or ctx.pick(300, 1500), dump=dump, workers=workers)
    if not r.ok:
        raise framework.Machinery("generation spec reported %s" % r.violation)
    ctx.cov["checker_cmd"].append("tlc -dump -config %s %s" % (cfg, module))
    fn = dump + ".dump"
    text = open(fn).read()
    os.remove(fn)
    import hashlib
    hs = [m.end() for m in _HDR.finditer(text)] + [len(text)]
    starts = [m.start() for m in _HDR.finditer(text)] + [len(text)]
    # pass 1: digest of every path and of its parent (parsed objects are not kept)
    keys, parents = [], set()
    for i in range(len(hs) - 1):
        body = text[hs[i]: starts[i + 1]]
        ctxt = _conjunct(body, "cfg")
        acts = [[s["act"], s["args"]] for s in _tla_to_json(_conjunct(body, "hist"))]
        keys.append(hashlib.md5((ctxt + _json.dumps(acts)).encode()).digest())
        if acts:
            parents.add(hashlib.md5((ctxt + _json.dumps(acts[:-1])).encode()).digest())
    # pass 2: parse the maximal paths only
    out, seen = [], set()
    for i, k in enumerate(keys):
        if k in parents or k in seen:
            continue
        seen.add(k)
        body = text[hs[i]: starts[i + 1]]
        path = _tla_to_json(_conjunct(body, "hist"))
        if path:
            out.append((k, {"cfg": _tla_to_json(_conjunct(body, "cfg"))}, path))
    nall = len(set(keys))
    del text
    out.sort(key=lambda x: x[0])
    out = [(e, p) for _, e, p in out]
    ctx.cov["gen_runs"] = ctx.cov.get("gen_runs", []) + [
        {"module": module, "cfg": cfg, "overrides": framework.canon(overrides or {}), "states": r.distinct,
         "all_paths": nall, "maximal_paths": len(out), "wall_s": round(r.wall_s, 2)}]
    return out


# ------------------------------------------------------------------ seeded random drivers (code -> spec)

def encode_status(st):
    """Raw wait status handed to the code for abstract status st by the *random* drivers
    (TLC-generated behaviours carry their own).  Every recorded event is checked by the trace
    specs against WaitStatus!Encode, so this function is itself validated by TLC on each use."""
    if st < 1000:
        return st << 8
    return (st % 1000) | (0x80 if st >= 2000 else 0)


def random_status(rng):
    r = rng.random()
    if r < 0.40:
        return 0
    if r < 0.70:
        return rng.choice([1, 2, 3, 127, 128, 137, 254, 255, rng.randrange(1, 256)])
    s = rng.choice([1, 2, 3, 6, 9, 11, 13, 14, 15, rng.randrange(1, 65)])
    return (2000 if rng.random() < 0.25 else 1000) + s


def random_supervisor_trace(job):
    """One recorded run of the real fork_processes under a seeded random environment."""
    import random
    tid, seed, maxn, maxpid, maxlen = job
    rng = random.Random(seed)
    r = rng.random()
    if r < 0.70:
        cfg = {"n": rng.randrange(1, maxn + 1), "cpus": 1}
    else:
        cfg = {"n": rng.choice([0, -1, -3, NO_N]), "cpus": rng.randrange(1, maxn + 1)}
    r = rng.random()
    cfg["budget"] = (rng.choice([0, 1, 2, 3]) if r < 0.55 else rng.choice([4, 6, 10]) if r < 0.85
                     else NO_BUDGET if r < 0.95 else -1)
    if cfg["budget"] == NO_BUDGET:
        maxlen = max(maxlen, 400)
    p_child = rng.choice([0.0, 0.03, 0.1])
    p_normal_bias = rng.choice([0.0, 0.0, 0.5])     # some runs mostly end normally (reach sys.exit(0))
    live, pool = [], []
    nxt = [1]
    ev = []

    def responder(kind, k):
        if k >= maxlen:
            raise ScriptEnd()
        if kind == "fork":
            if rng.random() < p_child:
                ev.append({"a": "fork_child", "args": []})
                return ("child",)
            free = [p for p in pool if p not in live]
            if (free and rng.random() < 0.5) or nxt[0] > maxpid:
                p = rng.choice(free)
                pool.remove(p)
            else:
                p = nxt[0]
                nxt[0] += 1
            live.append(p)
            ev.append({"a": "fork_parent", "args": [p]})
            return ("parent", p)
        if live and rng.random() < 0.85:
            p = rng.choice(live)
            live.remove(p)
            pool.append(p)
        else:
            cand = [q for q in pool if q not in live] + [min(nxt[0], maxpid)]
            cand = [q for q in cand if q not in live]
            if not cand:
                raise ScriptEnd()
            p = rng.choice(cand)
        st = 0 if rng.random() < p_normal_bias else random_status(rng)
        raw = encode_status(st)
        ev.append({"a": "wait", "args": [p, st, raw]})
        return (p, raw)

    obs = run_supervisor(cfg, responder)
    for o in obs:
        o.pop("errclass", None)
    events = [{"a": "init", "args": [], "obs": obs[0]}]
    for e, o in zip(ev, obs[1:]):      # an answer whose effect was not observed (run cut) is dropped
        e["obs"] = o
        events.append(e)
    return {"id": tid, "cfg": cfg, "ev": events, "job": list(job)}


def random_subprocess_trace(job):
    """One recorded run of real Subprocess objects under a seeded random schedule of exits,
    registrations, SIGCHLD deliveries, cancellations and (un)initialize calls."""
    import random
    import signal
    tid, seed, maxc, length = job
    rng = random.Random(seed)
    nc = rng.randrange(1, maxc + 1)
    cfg = {"nc": nc}
    real = SubReal(cfg, maxc)
    try:
        ev = [{"a": "init", "args": [], "obs": real.step("init", [])}]
        registered = set()
        p_ext = rng.choice([0.0, 0.0, 0.08])
        for _ in range(length):
            running = [c for c in range(1, nc + 1) if real.kernel.state[real.subs[c].pid] == "running"]
            unreg = [c for c in range(1, nc + 1) if c not in registered]
            pend = [c for c, f in real.futs.items() if not f.done()]
            installed = signal.SIGCHLD in real.handlers
            choices = []
            if running:
                choices += ["exit"] * 4
            if unreg:
                choices += ["register"] * 4
            if installed:
                choices += ["sigchld"] * 3
            if pend:
                choices += ["cancel"]
            if rng.random() < p_ext:
                choices = ["uninitialize" if installed else "initialize"]
            if not choices:
                break
            a = rng.choice(choices)
            if a == "exit":
                st = random_status(rng)
                args = [rng.choice(running), st, encode_status(st)]
            elif a == "register":
                c = rng.choice(unreg)
                registered.add(c)
                args = [c, rng.choice(["cb", "wr", "wn"])]
            elif a == "cancel":
                args = [rng.choice(pend)]
            else:
                args = []
            ev.append({"a": a, "args": args, "obs": real.step(a, args)})
        return {"id": tid, "cfg": cfg, "ev": ev, "job": list(job)}
    finally:
        real.close()


# ------------------------------------------------------------------ real children (C42 thorough)

REAL_SIGNALS = [1, 2, 3, 6, 9, 10, 12, 13, 14, 15]     # terminating signals; core dumps disabled in the child


def real_children_trace(job):
    """Run real child processes through the *unshimmed* tornado.process.Subprocess on a real
    asyncio loop with the real SIGCHLD handler (the only place where wall-clock time and real
    processes are used).  items = [(abstract status, registration kind, register_late)]; a status
    3000+s asks for signal s with core dumps enabled (cwd = a scratch directory): whether the
    kernel dumps is the environment's choice, so the abstract status becomes 2000+s or 1000+s
    according to the core bit of the raw status (the other 15 bits are still checked).
    os.waitpid is tapped (pass-through) to learn the raw status the kernel reported.  Returns one
    trace of "real" events for Trace_SubprocessExit (TLC checks raw = Encode(st) and the report)."""
    import asyncio
    import shutil
    import tempfile
    tid, items = job
    from tornado import process
    raws = {}
    coredir = tempfile.mkdtemp(prefix="cores-", dir=__import__("harness.tlc", fromlist=["SCRATCH"]).SCRATCH)
    real_waitpid = _real_os.waitpid

    def tap(pid, options):
        r = real_waitpid(pid, options)
        if r[0] != 0:
            raws[r[0]] = r[1]
        return r

    saved = (process.os, process.Subprocess._initialized, process.Subprocess._waiting)
    process.os = _Delegate(_real_os, waitpid=tap)
    process.Subprocess._initialized = False
    process.Subprocess._waiting = {}
    recs = []

    async def main():
        loop = asyncio.get_running_loop()
        for st, kind, late in items:
            if st < 1000:
                cmd = ["/bin/sh", "-c", "exit %d" % st]
            elif st < 3000:
                cmd = ["/bin/sh", "-c", "ulimit -c 0; kill -%d $$; sleep 5" % (st % 1000)]
            else:
                cmd = ["/bin/sh", "-c", "ulimit -c unlimited; kill -%d $$; sleep 5" % (st % 1000)]
            sp = process.Subprocess(cmd, cwd=coredir)
            recs.append({"st": st, "kind": kind, "late": late, "sp": sp, "cbs": [], "fut": None, "done": loop.create_future()})

        def register(r):
            sp = r["sp"]
            if r["kind"] == "cb":
                def cb(v, r=r):
                    r["cbs"].append(v)
                    if not r["done"].done():
                        r["done"].set_result(None)
                sp.set_exit_callback(cb)
            else:
                r["fut"] = sp.wait_for_exit() if r["kind"] == "wr" else sp.wait_for_exit(raise_error=False)
                r["fut"].add_done_callback(lambda f, r=r: r["done"].done() or r["done"].set_result(None))

        for r in recs:
            if not r["late"]:
                register(r)
        await asyncio.sleep(0.3)           # the others have exited by now: exit precedes registration
        for r in recs:
            if r["late"]:
                register(r)
        try:
            await asyncio.wait_for(asyncio.gather(*[r["done"] for r in recs]), 60)
        except asyncio.TimeoutError:
            pass
        await asyncio.sleep(0.05)          # a second callback invocation would show up here
        process.Subprocess.uninitialize()

    try:
        with _Quiet():
            asyncio.run(main())
    finally:
        process.os, process.Subprocess._initialized, process.Subprocess._waiting = saved
        for r in recs:                      # never leave children behind
            try:
                if r["sp"].returncode is None:
                    r["sp"].proc.kill()
                    real_waitpid(r["sp"].pid, 0)
            except Exception:
                pass
        shutil.rmtree(coredir, ignore_errors=True)
    ev = []
    for r in recs:
        if r["st"] >= 3000:
            r["st"] = (2000 if raws.get(r["sp"].pid, 0) & 0x80 else 1000) + r["st"] % 1000
        f = r["fut"]
        if f is None:
            fs = {"s": "none", "v": 0}
        elif not f.done():
            fs = {"s": "pending", "v": 0}
        elif f.exception() is not None:
            fs = {"s": type(f.exception()).__name__, "v": getattr(f.exception(), "returncode", 0)}
        else:
            fs = {"s": "ok", "v": f.result()}
        rc = r["sp"].returncode
        ev.append({"a": "real", "args": [r["st"], raws.get(r["sp"].pid, -1), r["kind"]],
                   "obs": {"rc": NO_RC if rc is None else rc, "cbs": r["cbs"], "fut": fs, "late": r["late"]}})
    return {"id": tid, "cfg": {"nc": 1}, "ev": ev}


# ------------------------------------------------------------------ binding self-tests (non-vacuity of the two bindings)

def binding_selftest(ctx, module, cfg, overrides, good_traces, paths, replayer, corrupt_obs):
    """Non-vacuity of the two bindings, on behaviours the code under test follows: the trace
    validator must accept an accepted trace again but reject it after one observation was
    corrupted and after one (observable) event was dropped; the replayer must report a
    divergence when one expected value of a TLC path is corrupted.  Anything else is a machinery
    failure.  With nothing accepted / followed (a broken tree) there is nothing to demonstrate."""
    import copy
    import os
    from . import VERIF, framework
    done = []
    if good_traces:
        trace = max(good_traces, key=lambda t: len(t["ev"]))
        sd = os.path.join(VERIF, "specs", "proc")
        cfgp = framework.make_cfg(os.path.join(sd, cfg), overrides, ctx.scratch, "selftest_%s" % cfg)
        good = copy.deepcopy(trace)
        good["id"] = 1
        bad1 = copy.deepcopy(trace)
        bad1["id"] = 2
        corrupt_obs(bad1["ev"][-1]["obs"])
        bad2 = copy.deepcopy(trace)
        bad2["id"] = 3
        ks = [i for i, e in enumerate(bad2["ev"][:-1]) if i > 0 and e["obs"] != bad2["ev"][i - 1]["obs"]]
        if ks:
            del bad2["ev"][ks[0]]
        batch = [good, bad1] + ([bad2] if ks else [])
        accepted, _ = framework._validate_shards(sd, module, cfgp, batch, 1, ctx.scratch, 300, verbose=False)
        if accepted != {1}:
            raise framework.Machinery("binding self-test: trace validator accepted %s of [unmodified, corrupted observation, "
                                      "dropped event] (expected only the first)" % sorted(accepted))
        done.append("corrupted observation and dropped event rejected by TLC")
    mid = len(paths) // 2
    for extra, path in paths[mid: mid + 20]:
        if replayer(extra, path) is not None:
            continue
        p2 = copy.deepcopy(path)
        corrupt_obs(p2[-1]["exp"])
        if replayer(extra, p2) is None:
            raise framework.Machinery("binding self-test: replayer did not notice a corrupted expected value")
        done.append("corrupted expectation reported by the replayer")
        break
    ctx.cov["binding_selftest"] = "; ".join(done) or "skipped: the code under test follows no behaviour"
