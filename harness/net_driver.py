"""Drivers binding specs/net/*.tla to tornado.iostream / tornado.tcpclient (C10 - C13).

StreamReal wraps a real BaseIOStream (harness.memstream.MemStream: only the four transport
methods are the harness's) or, for behaviours that start with connect(), the real
IOStream.connect/_handle_connect over the same in-memory transport, behind the action
interface of IOStreamContract.tla and returns the projection `Proj` after every step.

graph_paths() asks TLC for the action-labelled state graph of a specification (states
include the observation `step`) bounded by a step counter and enumerates every path through
it - the same path set as a history-variable dump, at a fraction of the TLC/parse cost.

BranchIndex implements replay against a *nondeterministic* specification: a divergence at
step i is excused iff another enumerated behaviour with the same observed prefix and the same
(action, arguments) at i expects exactly what the code did (that behaviour is replayed too).
"""
import array
import collections
import errno
import hashlib
import logging
import multiprocessing
import os
import re
import socket as _socket

from . import VERIF, tlc, tlaval
from .framework import canon, jdump, make_cfg, Machinery
from .vloop import Env
from .memstream import MemStream, FakeSocket, READ, WRITE, ERROR

for _n in ("tornado.general", "tornado.application", "tornado.access"):
    # the code under test logs what the harness provokes on purpose; observations are taken from the objects
    logging.getLogger(_n).addHandler(logging.NullHandler())
    logging.getLogger(_n).propagate = False

REGEX = {1: rb"\r?\n\r?\n", 2: rb"a+b"}


# ----------------------------------------------------------------------------- TLC graph -> paths

_NODE = re.compile(r'^(-?\d+) \[label="((?:[^"\\]|\\.)*)"', re.M)
_EDGE = re.compile(r'^(-?\d+) -> (-?\d+) \[label="((?:[^"\\]|\\.)*)"', re.M)
_ESC = re.compile(r"\\(.)")


def _unesc(s):
    return _ESC.sub(lambda m: "\n" if m.group(1) == "n" else m.group(1), s)


def _parse_node(args):
    nid, label, want = args
    text = _unesc(label)
    out = {}
    for seg in re.split(r"(?m)^/\\ ", text):
        m = re.match(r"(\w+) = ", seg)
        if m and m.group(1) in want:
            out[m.group(1)] = canon(tlaval.parse_value(seg[m.end():]))
    return nid, out


def read_dot(fn, want=("step", "cfg"), nproc=None):
    """Parse a `-dump dot,actionlabels` file: returns (nodes {id: {var: value}}, succ {id: [ids]})."""
    nproc = nproc or int(os.environ.get("VERIF_WORKERS", "16"))
    text = open(fn).read()
    seen = {}
    for m in _NODE.finditer(text):
        if m.group(1) not in seen:
            seen[m.group(1)] = m.group(2)
    jobs = [(k, v, tuple(want)) for k, v in seen.items()]
    if len(jobs) < 1500 or nproc <= 1:
        res = [_parse_node(j) for j in jobs]
    else:
        with multiprocessing.get_context("fork").Pool(nproc) as pool:
            res = pool.map(_parse_node, jobs, chunksize=max(1, len(jobs) // (nproc * 4)))
    nodes = dict(res)
    succ = collections.defaultdict(list)
    for m in _EDGE.finditer(text):
        a, b = m.group(1), m.group(2)
        if b not in succ[a]:
            succ[a].append(b)
    return nodes, succ


def graph_paths(ctx, spec_dir, module, cfg, overrides=None, timeout=None, extra_vars=("cfg",), max_paths=3000000):
    """All maximal paths through the TLC state graph of `module` under `cfg` (which must bound the
    depth with a step counter).  Returns [(extra, path)], path = list of step records, deduplicated
    by what is visible (hidden nondeterministic state gives identical visible paths)."""
    spec_dir = os.path.join(VERIF, "specs", spec_dir) if not os.path.isabs(spec_dir) else spec_dir
    cfgp = os.path.join(spec_dir, cfg)
    if overrides:
        cfgp = make_cfg(cfgp, overrides, ctx.scratch, "%s_%s" % (module, os.path.basename(cfg)))
    dot = os.path.join(ctx.scratch, "%s_%d" % (module, len(os.listdir(ctx.scratch))))
    r = tlc.run(spec_dir, module, cfgp, timeout=timeout or ctx.pick(900, 3000),
                extra=["-dump", "dot,actionlabels", dot], deadlock=False)
    if not r.ok:
        raise Machinery("generation spec reported %s" % r.violation)
    nodes, succ = read_dot(dot + ".dot", want=("step",) + tuple(extra_vars))
    os.remove(dot + ".dot")
    vis = {}          # jdump(step) -> small int
    vid = {}
    for nid, st in nodes.items():
        k = jdump(st["step"])
        vid[nid] = vis.setdefault(k, len(vis))
    inits = sorted((n for n, st in nodes.items() if st["step"]["act"] == "init"), key=lambda n: jdump(nodes[n]))
    out = []
    seen = set()
    for root in inits:
        extra = {v: nodes[root][v] for v in extra_vars}
        ek = jdump(extra)
        stack = [(root, ())]
        while stack:
            nid, pth = stack.pop()
            nxt = succ.get(nid)
            if not nxt:
                if pth:
                    key = (ek, tuple(vid[x] for x in pth))
                    if key not in seen:
                        seen.add(key)
                        out.append((extra, [nodes[x]["step"] for x in pth]))
                        if len(out) > max_paths:
                            raise Machinery("graph_paths: more than %d paths" % max_paths)
                continue
            for b in sorted(nxt, key=lambda x: vid[x], reverse=True):
                stack.append((b, pth + (b,)))
    ctx.cov["checker_cmd"].append("tlc -dump dot,actionlabels -config %s %s" % (cfg, module))
    ctx.cov["gen_runs"] = ctx.cov.get("gen_runs", []) + [
        {"module": module, "cfg": cfg, "overrides": canon(overrides or {}), "graph_states": r.distinct,
         "graph_edges": sum(len(v) for v in succ.values()), "maximal_paths": len(out), "wall_s": round(r.wall_s, 2)}]
    return out


class BranchIndex:
    """For replay against a nondeterministic specification (see module docstring)."""

    def __init__(self, paths):
        self.idx = collections.defaultdict(set)
        self._j = {}
        for extra, path in paths:
            h = hashlib.sha1(jdump(extra).encode()).digest()
            for s in path:
                aj, ej = self._parts(s)
                self.idx[hashlib.sha1(h + aj).digest()].add(ej)
                h = hashlib.sha1(h + aj + ej).digest()

    def _parts(self, s):
        r = self._j.get(id(s))
        if r is None:
            r = (jdump([s["act"], s["args"]]).encode(), jdump(s["exp"]).encode())
            self._j[id(s)] = r
        return r

    def allowed(self, extra, path, i, obs):
        """Is `obs` what some enumerated behaviour expects at step i after the same prefix?"""
        h = hashlib.sha1(jdump(extra).encode()).digest()
        for s in path[:i]:
            aj, ej = self._parts(s)
            h = hashlib.sha1(h + aj + ej).digest()
        aj, _ = self._parts(path[i])
        return jdump(obs).encode() in self.idx.get(hashlib.sha1(h + aj).digest(), ())


# ----------------------------------------------------------------------------- real IOStream

class FakeConnSocket(FakeSocket):
    """Socket shim for IOStream.connect / _handle_connect: connect() is "in progress" (or fails
    synchronously when sync_error is set); SO_ERROR is what the harness scripts."""

    def __init__(self, *a, **kw):
        super().__init__(*a, **kw)
        self.so_error = 0
        self.sync_error = None
        self.connect_calls = []

    def setblocking(self, flag):
        pass

    def connect(self, address):
        self.connect_calls.append(address)
        if self.sync_error is not None:
            raise self.sync_error
        raise BlockingIOError(errno.EINPROGRESS, "in progress")

    def getsockopt(self, level, opt):
        return self.so_error


class CreditStream(MemStream):
    """MemStream whose write side is driven by a byte credit: write_to_fd accepts at most
    min(credit, next per-call cap) bytes and would block at credit 0."""

    def __init__(self, env, *args, **kwargs):
        super().__init__(env, *args, **kwargs)
        self.credit = 0
        self.caps = None            # None or a cyclic list of per-call caps (partial sends)
        self._capi = 0

    def write_to_fd(self, data):
        if self.write_error is not None:
            raise self.write_error
        if self.credit <= 0:
            raise BlockingIOError()
        n = min(len(data), self.credit)
        if self.caps:
            n = min(n, self.caps[self._capi % len(self.caps)])
            self._capi += 1
        self.credit -= n
        self.out += bytes(data[:n])
        self.out_calls.append(n)
        return n

    def _writable(self):
        return self.credit > 0 or self.write_error is not None


def _conn_stream_class():
    from tornado.iostream import IOStream

    class ConnMemStream(CreditStream, IOStream):
        """The real IOStream (connect, _handle_connect) over the in-memory transport."""

        def __init__(self, env, sock, **kwargs):
            CreditStream.__init__(self, env, sock, sock=sock, **kwargs)

    return ConnMemStream


def _exc_outcome(e):
    real = getattr(e, "real_error", None)
    return ["exc", type(e).__name__, type(real).__name__ if real is not None else "none"]


class StreamReal:
    """A real stream behind the IOStreamContract.tla action interface.

    variant: dict(rcs=read_chunk_size or None, thr=_StreamBuffer threshold or None,
                  wkind='bytes'|'mv'|'mvH', split=how a grant is cut into write_to_fd allowances)"""

    def __init__(self, cfg, variant=None):
        v = dict(rcs=None, thr=None, wkind="bytes", split=0, mbs=1 << 20)
        v.update(variant or {})
        self.v = v
        self.cfg = cfg
        self.env = Env()
        kw = dict(max_buffer_size=v["mbs"], read_chunk_size=v["rcs"],
                  max_write_buffer_size=(cfg.get("mwb") or None))
        self.sock = None
        if cfg.get("conn"):
            self.sock = FakeConnSocket()
            self.s = _conn_stream_class()(self.env, self.sock, **kw)
        else:
            self.s = CreditStream(self.env, **kw)
        self.s.caps = v["split"] or None
        if v["thr"] is not None:
            self.s._write_buffer._large_buf_threshold = v["thr"]
        self.order = []
        self.ccb = 0
        self.rf = None          # (kind, future | outcome, buf)
        self.wfs = []           # future | outcome per write call
        self.cf = None
        self.credit_held = 0    # bytes granted while connecting
        if cfg.get("cc"):
            self.s.set_close_callback(self._on_close)
        if cfg.get("conn"):
            try:
                self.cf = self.s.connect(("192.0.2.1", 80))
                self.cf.add_done_callback(lambda f: self.order.append("c"))
            except Exception as e:
                self.cf = _exc_outcome(e)
        self.env.settle()

    def _on_close(self):
        # "after the futures": when the close callback runs, every future handed out is settled
        self.ccb += 1
        fs = [self.rf[1] if self.rf else None, self.cf] + list(self.wfs)
        late = [f for f in fs if f is not None and not isinstance(f, list) and not f.done()]
        self.order.append("cb" if not late and self.s.closed() else "cb-early")

    # -- projection -------------------------------------------------------------
    def _fut(self, f, conv=None):
        if isinstance(f, list):
            return f
        if f is None:
            return ["none"]
        if not f.done():
            return ["pending"]
        if f.cancelled():
            return ["cancelled"]
        e = f.exception()
        if e is not None:
            return _exc_outcome(e)
        r = conv(f.result()) if conv else []
        if r[:1] == ["!type"]:
            return ["oktype", r[1]]       # a result of the wrong type (distinct tag: TLC compares tuples elementwise)
        return ["ok", r]

    def _read_conv(self, kind, buf):
        def conv(r):
            if kind == "into":
                if not isinstance(r, int) or isinstance(r, bool):
                    return ["!type", type(r).__name__]
                return list(buf[:r])
            if not isinstance(r, bytes):
                return ["!type", type(r).__name__]
            return list(r)
        return conv

    def proj(self):
        if self.rf is None:
            rd = ["none"]
        else:
            kind, f, buf = self.rf
            rd = self._fut(f, self._read_conv(kind, buf))
        order = self.order
        cbl = "na"
        cbs = [o for o in order if o.startswith("cb")]
        if cbs:
            cbl = "yes" if cbs == ["cb"] else "no"
        return {
            "rd": rd,
            "wr": [self._fut(f, lambda r: [] if r is None else ["!type", type(r).__name__]) for f in self.wfs],
            "co": self._fut(self.cf, lambda r: [] if r is self.s else ["!notself"]),
            "st": "closed" if self.s.closed() else "open",
            "serr": type(self.s.error).__name__ if self.s.error is not None else "none",
            "sent": list(self.s.out),
            "ccb": self.ccb,
            "cbl": cbl,
        }

    # -- actions ------------------------------------------------------------------
    def _payload(self, data):
        b = bytes(data)
        k = self.v["wkind"]
        if k == "mv":
            return memoryview(bytearray(b))
        if k == "mvH" and len(b) % 2 == 0 and len(b) > 0:
            return memoryview(array.array("H", b))       # itemsize 2: len() != nbytes
        return b

    def step(self, act, args):
        s = self.s
        self.order = []
        try:
            if act == "read":
                k = args[0]
                kind = k[0]
                buf = None
                try:
                    if kind == "bytes":
                        f = s.read_bytes(k[1], partial=bool(k[2]))
                    elif kind == "into":
                        # the caller's buffer is reused memory: pre-filled with content that matches every
                        # delimiter / regex the reads use, so bytes that were never received show if the
                        # stream ever serves them
                        buf = bytearray((b"\n\nab\r\n\r\n" * (k[1] // 8 + 1))[:k[1]])
                        f = s.read_into(buf, partial=bool(k[2]))
                    elif kind == "until":
                        f = s.read_until(bytes(k[1]), max_bytes=(k[2] or None))
                    elif kind == "regex":
                        f = s.read_until_regex(REGEX[k[1]], max_bytes=(k[2] or None))
                    elif kind == "close":
                        f = s.read_until_close()
                    else:
                        raise ValueError(kind)
                    f.add_done_callback(lambda f: self.order.append("r"))
                except Exception as e:
                    f = _exc_outcome(e)
                self.rf = (kind, f, buf)
            elif act == "deliver":
                s.feed(bytes(args[0]), pump=False)
            elif act == "eof":
                s.feed_eof(pump=False)
            elif act == "reset":
                s.feed_error(ConnectionResetError(errno.ECONNRESET, "reset by peer"), pump=False)
            elif act == "terror":
                s.feed_error(OSError(errno.EIO, "i/o error"), pump=False)
            elif act == "close":
                s.close()
            elif act == "closeexc":
                s.close(exc_info=ValueError("application error"))
            elif act == "write":
                try:
                    data = self._payload(args[0])
                    f = s.write(data)
                    if isinstance(data, memoryview):
                        # write() has taken the data: the caller is free to release its own view
                        # (`with memoryview(buf) as v: stream.write(v)`) while bytes are still queued
                        data.release()
                    i = len(self.wfs)
                    f.add_done_callback(lambda f, i=i: self.order.append("w%d" % i))
                except Exception as e:
                    f = _exc_outcome(e)
                self.wfs.append(f)
            elif act == "grant":
                if s._connecting:
                    self.credit_held += args[0]       # the transport cannot take bytes before it is connected
                else:
                    s.credit += args[0]
            elif act == "wreset":
                s.write_error = ConnectionResetError(errno.ECONNRESET, "reset by peer")
            elif act == "werror":
                s.write_error = OSError(errno.EIO, "i/o error")
            elif act == "connok":
                s.credit += self.credit_held
                self.credit_held = 0
                s.fire(WRITE)
            elif act == "connfail":
                self.sock.so_error = errno.ECONNREFUSED
                s.fire(WRITE)
            else:
                raise ValueError(act)
        except Exception as e:          # an exception of the code under test is an observation
            self.order.append("raised:" + type(e).__name__)
        for _ in range(100000):
            before = (len(s.inq), sum(len(c) for c in s.inq), len(s.out), s.closed(), s._read_buffer_size)
            try:
                s.pump(limit=64)
                break
            except RuntimeError:
                after = (len(s.inq), sum(len(c) for c in s.inq), len(s.out), s.closed(), s._read_buffer_size)
                if after == before:
                    # readiness keeps being reported and handled without any progress: on a real
                    # selector loop this is a busy loop.  An observation, never a harness crash.
                    p = self.proj()
                    p["st"] = "livelock"
                    return p
        return self.proj()

    def close(self):
        self.env.close()


# the replay variants: transport granularity and payload types the contract must not depend on
VARIANTS = [
    dict(rcs=2, thr=4, wkind="bytes", split=None),
    dict(rcs=None, thr=2, wkind="mv", split=[1, 2]),       # 3/5-byte writes are "large" pieces, sent 1-2 bytes at a time
    dict(rcs=1, thr=4, wkind="mvH", split=[2, 1, 3]),
    dict(rcs=3, thr=None, wkind="mv", split=[1]),
]


def stream_sig(cfg, path, i, obs):
    """Canonical low-cardinality description of a divergence (matches findings, names replays)."""
    s = path[i]
    exp = s["exp"]
    diff = sorted(k for k in exp if exp[k] != obs.get(k))
    k0 = s["args"][0][0] if s["act"] == "read" else None

    def tag(o):
        if not o:
            return None
        if o[0] == "exc":
            return "/".join(str(x) for x in o[:3])
        if o[0] == "oktype":
            return "ok:!type:" + str(o[1])
        return o[0]
    # history shape: kind and outcome of the previous read
    prev_kind, prev_out, into_failed, delim_failed = None, None, False, False
    for t in path[:i]:
        if t["act"] == "read":
            prev_kind = t["args"][0][0]
        if prev_kind is not None:
            prev_out = t["exp"]["rd"][0]
            into_failed = into_failed or (prev_kind == "into" and prev_out == "exc")
            delim_failed = delim_failed or (prev_kind in ("until", "regex") and prev_out == "exc")
    sig = {"act": s["act"], "differs": diff, "exp_st": exp["st"], "obs_st": obs.get("st"),
           "exp_rd": tag(exp["rd"]), "obs_rd": tag(obs.get("rd") or []),
           "prev_read": "%s:%s" % (prev_kind, prev_out) if prev_kind else "none",
           "failed_into_before": into_failed, "failed_delim_before": delim_failed}
    if k0:
        sig["read_kind"] = k0
    return sig


def replay_stream(extra, path, variant, index=None):
    """Replay one TLC behaviour of IOStreamContract on a real stream; None or the first divergence."""
    cfg = extra["cfg"]
    real = StreamReal(cfg, variant)
    try:
        for i, s in enumerate(path):
            obs = canon(real.step(s["act"], s["args"]))
            if obs != s["exp"]:
                if index is not None and index.allowed(extra, path, i, obs):
                    return None          # the code took another branch the specification allows
                return {"step": i, "act": s["act"], "args": s["args"], "exp": s["exp"], "obs": obs,
                        "variant": variant, "sig": stream_sig(cfg, path, i, obs)}
        return None
    finally:
        real.close()


# ----------------------------------------------------------------------------- _StreamBuffer

class BufReal:
    """The real tornado.iostream._StreamBuffer behind the StreamBuffer.tla action interface."""

    def __init__(self, cfg, variant=0):
        from tornado.iostream import _StreamBuffer
        self.b = _StreamBuffer()
        self.b._large_buf_threshold = cfg.get("thr", 2048)     # instance attribute: small pieces reach every path
        self.variant = variant
        self.last = []
        self.napp = 0

    def step(self, act, args):
        self.last = []
        if act == "append":
            data = bytes(args[0])
            k = (self.napp + self.variant) % 3
            self.napp += 1
            if k == 1:
                data = memoryview(bytearray(data))
            elif k == 2:
                data = bytearray(data)
            self.b.append(data)
        elif act == "peek":
            v = self.b.peek(args[0])
            self.last = list(bytes(v))
        elif act == "advance":
            self.b.advance(args[0])
        else:
            raise ValueError(act)
        return {"len": len(self.b), "peek": self.last}


def replay_buf(extra, path, variant, index=None):
    real = BufReal(extra["cfg"], variant)
    for i, s in enumerate(path):
        try:
            obs = canon(real.step(s["act"], s["args"]))
        except Exception as e:
            obs = {"len": -1, "peek": [], "raised": type(e).__name__}
        if obs != s["exp"]:
            if index is not None and index.allowed(extra, path, i, obs):
                return None
            return {"step": i, "act": s["act"], "args": s["args"], "exp": s["exp"], "obs": obs, "variant": variant,
                    "sig": {"act": s["act"], "module": "StreamBuffer", "len_differs": obs["len"] != s["exp"]["len"],
                            "peek_differs": obs["peek"] != s["exp"]["peek"], "raised": obs.get("raised", "none")}}
    return None


# ----------------------------------------------------------------------------- TCPClient / _Connector

class _SocketModuleShim:
    """Stands in for the `socket` module inside tornado.tcpclient: socket.socket(af) is scripted
    (returns a FakeConnSocket or raises), everything else is the real module."""

    def __init__(self, owner):
        self._owner = owner

    def __getattr__(self, name):
        return getattr(_socket, name)

    def socket(self, af, *a, **kw):
        return self._owner._make_socket(af)


class _CountingSocket(FakeConnSocket):
    def __init__(self, owner, idx, family):
        super().__init__(family=family)
        self.owner = owner
        self.idx = idx
        self.closed_calls = 0

    def close(self):
        self.closed_calls += 1

    def bind(self, address):
        # reached only when connect() is given a source address (cfg with a "binderr" mode)
        if self.owner._mode(self.idx) == "binderr":
            raise OSError(errno.EADDRINUSE, "Address already in use")


class ConnectorReal:
    """The real TCPClient.connect -> _Connector -> _create_stream -> IOStream.connect over scripted
    sockets, behind the Connector.tla action interface.  Projection: result of connect() and the
    state of every socket ("none" | "connecting" | "connected" | "closed")."""

    HE = 0.3
    CT = {1: 0.1, 2: 1.0}

    def __init__(self, cfg):
        import asyncio
        import tornado.tcpclient as tc
        self.asyncio = asyncio
        self.tc = tc
        self.cfg = cfg
        self.n = len(cfg["fam"])
        self.env = Env()
        self.socks = {}            # address index -> _CountingSocket
        self.streams = {}          # address index -> stream
        self.current = None
        self.fut = None
        self.t0 = None
        self.addrs = []
        for i, f in enumerate(cfg["fam"], 1):
            if f == 4:
                self.addrs.append((_socket.AF_INET, ("10.0.0.%d" % i, 80)))
            else:
                self.addrs.append((_socket.AF_INET6, ("fd00::%d" % i, 80, 0, 0)))
        self._saved = (tc.socket, tc.IOStream)
        tc.socket = _SocketModuleShim(self)
        tc.IOStream = self._make_stream
        owner = self

        class Resolver:
            async def resolve(self, host, port, family=_socket.AF_UNSPEC):
                return list(owner.addrs)

            def close(self):
                pass
        self.client = tc.TCPClient(resolver=Resolver())
        real_create = self.client._create_stream

        def create(max_buffer_size, af, addr, **kw):
            # only notes which address the attempt is for; the real _create_stream does the work
            self.current = [a for _, a in self.addrs].index(addr) + 1
            return real_create(max_buffer_size, af, addr, **kw)
        self.client._create_stream = create

    def _mode(self, idx):
        return self.cfg["mode"][idx - 1]

    def _make_socket(self, af):
        idx = self.current
        if self._mode(idx) == "sockerr":
            raise OSError(errno.EAFNOSUPPORT, "Address family not supported by protocol")
        s = _CountingSocket(self, idx, af)
        if self._mode(idx) == "sync":
            s.sync_error = ConnectionRefusedError(errno.ECONNREFUSED, "refused")
        self.socks[idx] = s
        return s

    def _make_stream(self, sock, *a, **kw):
        if self._mode(sock.idx) == "streamerr":
            raise OSError(errno.EBADF, "Bad file descriptor")
        st = _conn_stream_class()(self.env, sock, **kw)
        self.streams[sock.idx] = st
        return st

    def proj(self):
        f = self.fut
        cls = None
        if f is None or not f.done():
            res = ["pending"]
        elif f.cancelled():
            res = ["cancelled"]
        elif f.exception() is not None:
            cls = type(f.exception()).__name__
            res = ["exc", "TimeoutError" if cls == "TimeoutError" else "error"]
        else:
            st = f.result()
            idx = [i for i, s in self.streams.items() if s is st]
            res = ["ok", idx[0] if idx else 0]
        sock = []
        for i in range(1, self.n + 1):
            s = self.socks.get(i)
            st = self.streams.get(i)
            if s is None:
                sock.append("none")
            elif s.closed_calls > 0 or (st is not None and st.fd_closed > 0):
                sock.append("closed")       # socket.close() itself, or the stream's close_fd (the transport's close)
            elif st is not None and st._connect_future is None and not st._connecting:
                sock.append("connected")
            else:
                sock.append("connecting")
        return {"res": res, "sock": sock}, cls

    def _handler(self, idx):
        st = self.streams.get(idx)
        if st is None:
            return None
        r = st._registry.get(st._fd)
        return (r[0], st._fd) if r else None

    def _complete(self, idx, outcome):
        self.socks[idx].so_error = 0 if outcome == "ok" else errno.ECONNREFUSED
        h = self._handler(idx)
        if h:
            try:
                h[0](h[1], WRITE)
            except Exception:
                pass

    def step(self, act, args):
        if act == "start":
            kw = {}
            if self.cfg["ct"]:
                kw["timeout"] = self.CT[self.cfg["ct"]]
            if "binderr" in self.cfg["mode"]:
                kw["source_port"] = 4321        # makes _create_stream bind every socket it creates
            self.t0 = self.env.now
            self.fut = self.asyncio.ensure_future(self.client.connect("example.invalid", 80, **kw), loop=self.env.loop)
        elif act == "succeed":
            self._complete(args[0], "ok")
        elif act == "fail":
            self._complete(args[0], "fail")
        elif act == "pair":
            self._complete(args[0], args[1])
            self._complete(args[2], args[3])
        elif act == "he":
            self.env.advance_to(self.t0 + self.HE)
        elif act == "ct":
            self.env.advance_to(self.t0 + self.CT[self.cfg["ct"]])
        else:
            raise ValueError(act)
        self.env.settle()
        return self.proj()

    def close(self):
        self.tc.socket, self.tc.IOStream = self._saved
        if self.fut is not None and not self.fut.done():
            self.fut.cancel()
        elif self.fut is not None and not self.fut.cancelled():
            self.fut.exception()
        self.env.close()


def replay_conn(extra, path, variant=None, index=None):
    cfg = extra["cfg"]
    real = ConnectorReal(cfg)
    try:
        for i, s in enumerate(path):
            obs, cls = real.step(s["act"], s["args"])
            obs = canon(obs)
            if obs != s["exp"]:
                if index is not None and index.allowed(extra, path, i, obs):
                    return None
                modes = sorted(set(cfg["mode"]))
                return {"step": i, "act": s["act"], "args": s["args"], "exp": s["exp"], "obs": obs,
                        "sig": {"act": s["act"], "modes": modes, "module": "Connector",
                                "create_failure": any(m in ("sockerr", "streamerr", "binderr") for m in modes), "exp_res": s["exp"]["res"][:2] if s["exp"]["res"][0] != "ok" else ["ok"],
                                "obs_res": obs["res"][:2] if obs["res"][0] != "ok" else ["ok"], "obs_class": cls or "none",
                                "sock_differs": obs["sock"] != s["exp"]["sock"],
                                "leak": any(o in ("connecting", "connected") and e in ("closed", "none")
                                            for o, e in zip(obs["sock"], s["exp"]["sock"]))}}
        return None
    finally:
        real.close()
