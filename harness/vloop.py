"""Deterministic virtual-time event loop for driving real Tornado objects.

VLoop is an asyncio.SelectorEventLoop with a fake selector (never blocks, never reports
I/O) and a virtual clock.  `settle()` runs every ready callback and every timer that is
due at the frozen clock until nothing is runnable; `advance_to(t)` moves the clock from
deadline to deadline (asyncio then fires timers in deadline order) and settles.
`make_ioloop()` returns a real tornado IOLoop bound to a fresh VLoop with IOLoop.time
pointed at the virtual clock.
"""
import asyncio
import heapq
import selectors

from . import REPO  # noqa: F401  (puts the repo on sys.path)


class _NullSelector(selectors.BaseSelector):
    def __init__(self):
        self._map = {}

    def register(self, fileobj, events, data=None):
        key = selectors.SelectorKey(fileobj, fileobj if isinstance(fileobj, int) else fileobj.fileno(), events, data)
        self._map[fileobj] = key
        return key

    def unregister(self, fileobj):
        return self._map.pop(fileobj)

    def modify(self, fileobj, events, data=None):
        self.unregister(fileobj)
        return self.register(fileobj, events, data)

    def select(self, timeout=None):
        return []

    def get_map(self):
        return self._map

    def close(self):
        self._map.clear()


class VLoop(asyncio.SelectorEventLoop):
    def __init__(self, start=1000.0):
        super().__init__(selector=_NullSelector())
        self._vtime = float(start)
        self.uncaught = []          # contexts passed to the exception handler
        self.set_exception_handler(self._on_exc)

    # no self-pipe: nothing ever blocks in select(), so no wake-up channel is needed
    def _make_self_pipe(self):
        self._ssock = None
        self._csock = None

    def _close_self_pipe(self):
        pass

    def _on_exc(self, loop, context):
        self.uncaught.append(context)

    def time(self):
        return self._vtime

    # -- driving ------------------------------------------------------------
    def _due(self):
        sched = self._scheduled
        while sched and sched[0]._cancelled:
            h = heapq.heappop(sched)
            h._scheduled = False
            self._timer_cancelled_count = max(0, self._timer_cancelled_count - 1)
        return bool(sched) and sched[0]._when <= self._vtime + self._clock_resolution

    def settle(self, limit=100000):
        n = 0
        while True:
            self.call_soon(self.stop)
            self.run_forever()
            n += 1
            if n > limit:
                raise RuntimeError("VLoop.settle: no quiescence after %d iterations" % limit)
            if not self._ready and not self._due():
                return

    def next_deadline(self):
        self._due()
        live = [h._when for h in self._scheduled if not h._cancelled]
        return min(live) if live else None

    def advance_to(self, t):
        """Move the clock to t, firing timers deadline by deadline."""
        self.settle()
        while True:
            d = self.next_deadline()
            if d is None or d > t:
                break
            if d > self._vtime:
                self._vtime = d
            self.settle()
        if t > self._vtime:
            self._vtime = float(t)
        self.settle()

    def advance(self, dt):
        self.advance_to(self._vtime + dt)

    def run_until_quiescent(self, horizon=None, max_steps=10000):
        """Advance through all timers (up to horizon) until nothing is scheduled."""
        self.settle()
        for _ in range(max_steps):
            d = self.next_deadline()
            if d is None or (horizon is not None and d > horizon):
                return
            self.advance_to(d)
        raise RuntimeError("run_until_quiescent: too many timers")


class Env:
    """A fresh virtual loop + tornado IOLoop, installed as the current loop."""

    def __init__(self, start=1000.0):
        from tornado.ioloop import IOLoop
        from tornado.platform.asyncio import AsyncIOLoop
        self.loop = VLoop(start)
        asyncio.set_event_loop(self.loop)
        self.io_loop = AsyncIOLoop(asyncio_loop=self.loop, make_current=False)
        self.io_loop.time = self.loop.time      # IOLoop clock == loop clock (virtual)
        self.IOLoop = IOLoop

    def settle(self):
        self.loop.settle()

    def advance_to(self, t):
        self.loop.advance_to(t)

    def advance(self, dt):
        self.loop.advance(dt)

    @property
    def now(self):
        return self.loop.time()

    def close(self):
        try:
            # cancel whatever is left so that closing does not warn
            for h in list(self.loop._scheduled):
                h.cancel()
            self.loop._ready.clear()
            self.io_loop.close()
        except Exception:
            pass
        finally:
            try:
                asyncio.set_event_loop(None)
            except Exception:
                pass

    def __enter__(self):
        return self

    def __exit__(self, *a):
        self.close()


def fut_state(f):
    """Projection of a future: 'pending' | ['ok', value] | ['exc', ClassName] | 'cancelled'."""
    if not f.done():
        return "pending"
    if f.cancelled():
        return "cancelled"
    e = f.exception()
    if e is not None:
        return ["exc", type(e).__name__]
    return ["ok", f.result()]
