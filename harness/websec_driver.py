"""Shared helpers of the websec family (C23 signed values, C24 XSRF, C25 cookies, C30 forms).

* cfg_with / tlc_states: run TLC on a function-like specification with `-dump` and read the
  dumped states with a fast TLA-value -> JSON transliteration (the generic tlaval parser needs
  ~1.5 ms per state for the 100-element token sequences these specifications print).
* module-boundary shims (hmac / os.urandom / time inside tornado.web) that record what the code
  under test feeds to the opaque functions and delegate to the real ones.
* a minimal in-memory HTTP exchange on top of harness.httpsim (transport plumbing only).
"""
import hashlib
import hmac as _real_hmac
import json
import os
import re
import time as _real_time

from . import VERIF, REPO, tlc  # noqa: F401
from .framework import Machinery, canon

SPEC_DIR = os.path.join(VERIF, "specs", "websec")

# ----------------------------------------------------------------------------- TLC plumbing

_CFG_LINE = r"(?m)^(\s*%s\s*(?:=|<-)\s*).*$"


def cfg_with(ctx, base, subs=None, name=None):
    """Copy specs/websec/<base> to the scratch dir replacing the right-hand side of
    `NAME = value` / `NAME <- Definition` lines."""
    path = os.path.join(SPEC_DIR, base)
    if not subs:
        return path
    text = open(path).read()
    for k, v in subs.items():
        v = str(v)
        text, n = re.subn(_CFG_LINE % re.escape(k), lambda m: m.group(1) + v, text)
        if n != 1:
            raise Machinery("cfg_with: %s not found exactly once in %s" % (k, base))
    out = os.path.join(ctx.scratch, name or ("%d_%s" % (len(os.listdir(ctx.scratch)), base)))
    with open(out, "w") as f:
        f.write(text)
    return out


_TOK = re.compile(r'"(?:[^"\\]|\\.)*"|<<|>>|\|->|[\[\]{}]|\bTRUE\b|\bFALSE\b|(\w+)(?= \|->)')
_MAP = {"<<": "[", ">>": "]", "[": "{", "]": "}", "{": "[", "}": "]", "|->": ":", "TRUE": "true", "FALSE": "false"}
_HDR = re.compile(r"^State \d+:.*$", re.M)
_VAR = re.compile(r"^/\\ (\w+) = ", re.M)


def _tr(m):
    s = m.group(0)
    if s[0] == '"':
        return s
    if m.group(1):
        return '"%s"' % s
    return _MAP[s]


def parse_dump_fast(path):
    """States of a `-dump` file as dicts.  Supports ints, strings, booleans, sequences, records
    and sets (sets become lists)."""
    text = open(path).read()
    out = []
    hs = list(_HDR.finditer(text))
    for i, m in enumerate(hs):
        end = hs[i + 1].start() if i + 1 < len(hs) else len(text)
        body = text[m.end():end].strip()
        if not body.startswith("/\\"):
            body = "/\\ " + body
        body = _TOK.sub(_tr, body)
        body = _VAR.sub(lambda mm: ',"%s":' % mm.group(1), body)
        out.append(json.loads("{" + body.lstrip(",") + "}"))
    return out


def tlc_states(ctx, module, cfg_path, timeout=None, workers=None, count=True, label=None, coverage=False,
               required_actions=()):
    """Run TLC (model checking, all invariants of the cfg) with -dump and return the reachable
    states.  An invariant violation here is reported like ctx.mc does."""
    dump = os.path.join(ctx.scratch, "%s_%d" % (module, len(os.listdir(ctx.scratch))))
    r = tlc.run(SPEC_DIR, module, cfg_path, timeout=timeout or ctx.pick(400, 1500), dump=dump, workers=workers,
                deadlock=False, coverage=coverage)
    for a, (d, t) in r.coverage.items():
        ctx.cov["coverage_by_action"][module + "." + a] = ctx.cov["coverage_by_action"].get(module + "." + a, 0) + t
    for a in required_actions:
        if r.coverage.get(a, (0, 0))[1] == 0:
            raise Machinery("vacuity: action %s of %s never taken" % (a, module))
    ctx.cov["checker_cmd"].append("tlc -dump -config %s %s" % (os.path.basename(cfg_path), module))
    if count:
        ctx.cov["states"] += r.distinct
        ctx.cov["transitions"] += r.generated
    ctx.cov["gen_runs"] = ctx.cov.get("gen_runs", []) + [
        {"module": module, "cfg": label or os.path.basename(cfg_path), "states": r.distinct, "wall_s": round(r.wall_s, 2)}]
    if not r.ok:
        states = tlc.parse_error_trace(r.violation["text"])
        ctx.violation({"kind": "spec", "module": module, "name": r.violation["name"], "what": r.violation["kind"]},
                      {"tlc_trace": canon([[a, s] for a, s in states]) or r.violation["text"][:6000]})
    fn = dump + ".dump"
    states = parse_dump_fast(fn) if os.path.exists(fn) else []
    if os.path.exists(fn):
        os.remove(fn)
    return r, states


# ----------------------------------------------------------------------------- module-boundary shims

class HmacShim:
    """Stands in for the `hmac` module inside tornado.web: records (digest name, key, message)
    of every MAC computation and delegates to the real hmac."""

    def __init__(self):
        self.calls = []     # (alg, key, msg, hexdigest)
        self.compares = 0

    class _H:
        def __init__(self, shim, key, msg, digestmod):
            self._shim, self._key, self._parts, self._dm = shim, bytes(key), [], digestmod
            if msg is not None:
                self._parts.append(bytes(msg))

        def update(self, data):
            self._parts.append(bytes(data))

        def _real(self):
            return _real_hmac.new(self._key, b"".join(self._parts), self._dm)

        def hexdigest(self):
            h = self._real()
            d = h.hexdigest()
            self._shim.calls.append((h.name.replace("hmac-", ""), self._key, b"".join(self._parts), d))
            return d

        def digest(self):
            h = self._real()
            self._shim.calls.append((h.name.replace("hmac-", ""), self._key, b"".join(self._parts), h.hexdigest()))
            return h.digest()

    def new(self, key, msg=None, digestmod=None):
        return HmacShim._H(self, key, msg, digestmod)

    def compare_digest(self, a, b):
        self.compares += 1
        return _real_hmac.compare_digest(a, b)

    def __getattr__(self, name):
        return getattr(_real_hmac, name)


class ModShim:
    """Forwards to a real module except for the overridden names."""

    def __init__(self, real, **over):
        self.__dict__["_real"] = real
        self.__dict__.update(over)

    def __getattr__(self, name):
        return getattr(self._real, name)


class WebPatch:
    """Context manager installing shims as module globals of tornado.web (the module boundary)."""

    def __init__(self, **names):
        self.names = names

    def __enter__(self):
        from tornado import web
        self._web = web
        self._saved = {k: getattr(web, k) for k in self.names}
        for k, v in self.names.items():
            setattr(web, k, v)
        return self

    def __exit__(self, *a):
        for k, v in self._saved.items():
            setattr(self._web, k, v)


def stdlib_hexdigest(alg, key, msg):
    return _real_hmac.new(key, msg, {"sha1": hashlib.sha1, "sha256": hashlib.sha256}[alg]).hexdigest()


# ----------------------------------------------------------------------------- HTTP exchange

def http_exchange(env, srv, request_bytes, head=False):
    """One request on a fresh in-memory connection; returns (status or None, headers list, body,
    closed).  Transport plumbing only."""
    from .httpsim import ServerConn, split_responses
    c = ServerConn(env, srv)
    c.send(request_bytes)
    env.settle()
    raw = c.received()
    closed = c.closed()
    if not closed:
        c.peer_close()
        env.settle()
    if not raw:
        return None, [], b"", closed
    msgs = split_responses(raw, head_requests=(0,) if head else ())
    v, code, reason, headers, body, complete = msgs[0]
    return code, headers, body, closed


def header_values(raw, name):
    """Values of the header `name` in the first response head of `raw`, stripped of optional
    whitespace (SP / HTAB) only.  harness.httpsim.split_responses uses str.strip(), which also
    removes NBSP / NEL at the edges - bytes a client would keep (seen as a false alarm in C25:
    samesite="//\xa0" looked truncated)."""
    head = raw.split(b"\r\n\r\n", 1)[0].decode("latin1")
    out = []
    for ln in head.split("\r\n")[1:]:
        n, sep, v = ln.partition(":")
        if sep and n.strip(" \t").lower() == name.lower():
            out.append(v.strip(" \t"))
    return out


def http_exchange_raw(env, srv, request_bytes):
    """Like http_exchange but also returns the raw bytes the server wrote."""
    from .httpsim import ServerConn, split_responses
    c = ServerConn(env, srv)
    c.send(request_bytes)
    env.settle()
    raw = c.received()
    closed = c.closed()
    if not closed:
        c.peer_close()
        env.settle()
    if not raw:
        return None, [], b"", closed, raw
    v, code, reason, headers, body, complete = split_responses(raw)[0]
    return code, headers, body, closed, raw
