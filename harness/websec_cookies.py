"""C25 driver: runs cookie-setting programs on a real RequestHandler served over the in-memory
transport and records, for the trace specification, which calls raised, the Set-Cookie values on
the wire, what the real httputil.parse_cookie reads back from each emitted pair, and what a real
following request carrying those pairs exposes through RequestHandler.cookies."""
import json
import time as _time

from . import websec_driver as W
from .vloop import Env
from .httpsim import make_app_server, LogCapture

_STATE = {}
FIXED_NOW = 1700000000.0


def _world():
    w = _STATE.get("w")
    if w is not None:
        return w
    from tornado import web
    env = Env()
    box = {"prog": [], "raised": [], "seen": None}

    class SetH(web.RequestHandler):
        def get(self):
            for op in box["prog"]:
                api, name, value, kw = op
                try:
                    if api == "set_cookie":
                        self.set_cookie(name, value, **kw)
                    elif api == "clear_cookie":
                        self.clear_cookie(name, **kw)
                    else:
                        self.set_signed_cookie(name, value, **kw)
                    box["raised"].append(None)
                except Exception as e:          # observation: the call raised
                    box["raised"].append(type(e).__name__)
            self.write("done")

    class GetH(web.RequestHandler):
        def get(self):
            box["seen"] = sorted((k, m.value) for k, m in self.cookies.items())
            self.write("ok")

    app = web.Application([("/set", SetH), ("/get", GetH)], cookie_secret="c25-secret")
    app2, srv = make_app_server(env, app=app)
    w = {"env": env, "srv": srv, "box": box, "time": W.ModShim(_time, time=lambda: FIXED_NOW)}
    _STATE["w"] = w
    return w


def _s(cps):
    return "".join(chr(c) for c in cps)


def _kw(a):
    kw = {}
    if a["domain"]:
        kw["domain"] = _s(a["domain"])
    kw["path"] = _s(a["path"])
    if a["samesite"]:
        kw["samesite"] = _s(a["samesite"])
    if a["maxage"]:
        kw["max_age"] = a["maxage"]
    if a["httponly"]:
        kw["httponly"] = True
    if a["secure"]:
        kw["secure"] = True
    if a["expires"]:
        kw["expires"] = 86400
    if a.get("expdays", 9) != 9:
        kw["expires_days"] = a["expdays"]
    if a.get("maxage0") and not a["maxage"]:
        kw["max_age"] = 0
    return kw


def run_program(ops):
    """ops: list of (api, name cps, value cps or bytes, attrs record).  Returns the trace events."""
    from tornado import httputil, web
    w = _world()
    box = w["box"]
    prog = []
    for api, name, value, a in ops:
        kw = _kw(a)
        if api == "clear_cookie":
            kw.pop("expires", None)
            kw.pop("max_age", None)
            kw.pop("expires_days", None)
        if api == "set_signed_cookie":
            kw.pop("expires", None)
        prog.append((api, _s(name), value if isinstance(value, bytes) else _s(value), kw))
    box["prog"], box["raised"], box["seen"] = prog, [], None
    with LogCapture(), W.WebPatch(time=w["time"]):
        code, headers, body, closed, raw = W.http_exchange_raw(w["env"], w["srv"], b"GET /set HTTP/1.1\r\nHost: x\r\n\r\n")
        ev = []
        for (api, name, value, a), (papi, pname, pvalue, pkw), r in zip(ops, prog, box["raised"] + [None] * len(ops)):
            attrs = dict(a)
            val = list(value)
            if api == "clear_cookie":
                attrs.update(expires=True, maxage=0, expdays=9, maxage0=False)
                val = []
            elif api == "set_signed_cookie":
                # the value that must be readable back is the signed token the framework produced
                attrs.update(expires=True)
                val = list(web.create_signed_value("c25-secret", pname, pvalue, clock=lambda: FIXED_NOW))
            ev.append({"a": "set", "args": [list(name), val, attrs], "obs": {"raised": r is not None, "exc": r or "", "api": api}})
        lines = W.header_values(raw, "Set-Cookie") if code is not None else []
        readback, pairs = [], []
        for ln in lines:
            nv = ln.split(";", 1)[0]
            pairs.append(nv)
            try:
                rb = [[[ord(c) for c in k], [ord(c) for c in v]] for k, v in httputil.parse_cookie(nv).items()]
            except Exception as e:
                rb = [[[0], [ord(c) for c in type(e).__name__]]]
            readback.append(rb)
        seen = []
        if pairs and code == 200:
            req = ("GET /get HTTP/1.1\r\nHost: x\r\nCookie: " + "; ".join(pairs) + "\r\n\r\n").encode("latin1")
            c2, h2, b2, cl2 = W.http_exchange(w["env"], w["srv"], req)
            seen = [[[ord(c) for c in k], [ord(c) for c in v]] for k, v in (box["seen"] or [])]
    ev.append({"a": "flush", "args": [], "obs": {"status": code or 0, "lines": [[ord(c) for c in ln] for ln in lines],
                                                  "readback": readback, "next": seen}})
    return ev


def trace_of_path(args):
    tid, path = args
    ops = [("set_cookie", s["args"][0], s["args"][1], s["args"][2]) for s in path if s["act"] == "set"]
    return {"id": tid, "cfg": {}, "ev": run_program(ops)}


PLAIN = {"domain": [], "path": [47], "samesite": [], "maxage": 0, "httponly": False, "secure": False, "expires": False,
         "expdays": 9, "maxage0": False}


def random_program(args):
    import random
    tid, seed, nops = args
    rng = random.Random(seed)
    names = ["k", "sid", "a.b", "X-1", "k;", "path", "Expires", "", "k k", "$v", "user_id", "kĀ"]
    pool = list(range(33, 127)) * 3 + [32, 34, 92, 59, 44, 61, 9, 10, 0, 127, 128, 160, 233, 255, 256, 0x20ac, 0x2003, 0x1f600]
    apool = [ord(c) for c in "abc.=,\"/-_"] * 4 + [59, 32, 127, 233, 160, 256, 9]

    def text(pool_, lens):
        return [rng.choice(pool_) for _ in range(rng.choice(lens))]

    ops = []
    for _ in range(nops):
        name = [ord(c) for c in rng.choice(names)]
        a = dict(PLAIN)
        r = rng.random()
        if r < 0.5:
            a["domain"] = text(apool, [0, 0, 1, 3, 8])
            a["path"] = text(apool, [0, 1, 1, 4]) if rng.random() < 0.5 else [47]
            a["samesite"] = text(apool, [0, 0, 3]) if rng.random() < 0.5 else rng.choice([[], [ord(c) for c in "Lax"], [ord(c) for c in "None"]])
            a["maxage"] = rng.choice([0, 0, 1, 3600])
            a["httponly"], a["secure"], a["expires"] = rng.random() < 0.3, rng.random() < 0.3, rng.random() < 0.3
            a["expdays"] = rng.choice([9, 9, 9, 0, 1, 30])
            a["maxage0"] = a["maxage"] == 0 and rng.random() < 0.15
        api = rng.choice(["set_cookie"] * 6 + ["clear_cookie", "set_signed_cookie"])
        if api == "set_signed_cookie":
            value = bytes(rng.randrange(256) for _ in range(rng.choice([0, 1, 5, 40])))
            a["maxage"] = 0
            a["maxage0"] = False
        else:
            value = text(pool, [0, 1, 2, 3, 6, 12, 40])
        ops.append((api, name, value, a))
    return {"id": tid, "cfg": {}, "ev": run_program(ops)}
