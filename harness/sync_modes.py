"""Additional acquisition modes for the C33 replay: the same Semaphore.tla behaviours are also
driven through `async with obj` (native coroutine) and the legacy `with (yield obj.acquire())`
form inside a @gen.coroutine, so __aenter__/__aexit__ and _ReleasingContextManager are bound to
the specification as well.  A waiter that the path later cancels uses the plain call (the
acquire future is not reachable from outside in the other forms)."""
import asyncio

from .sync_driver import SemReal, NOTO


class SemRealModes(SemReal):
    def __init__(self, cfg, nw, mode, cancelled_waiters=(), **kw):
        super().__init__(cfg, nw, **kw)
        self.mode = mode
        self.plain = set(cancelled_waiters)
        self.holders = []       # (w, gate) of coroutine holders, grant order, not yet released
        self.state = {}         # w -> 'pending' | 'granted' | 'timedout' | 'exc:..'
        self.tasks = {}
        self.acq = {}

    def proj(self):
        st = []
        for w in range(1, self.nw + 1):
            if w in self.state:
                st.append(self.state[w])
            else:
                f = self.futs.get(w)
                if f is None:
                    st.append("idle")
                elif not f.done():
                    st.append("pending")
                elif f.cancelled():
                    st.append("cancelled")
                elif f.exception() is not None:
                    st.append("timedout" if type(f.exception()).__name__ == "TimeoutError" else "exc:" + type(f.exception()).__name__)
                else:
                    st.append("granted")
        return {"st": st, "grants": list(self.grants), "err": self.err}

    def _start(self, w, to):
        from tornado import gen
        obj = self.obj
        gate = asyncio.Future(loop=self.env.loop)
        me = self

        def entered():
            me.state[w] = "granted"
            me.grants.append(w)
            me.holders.append((w, gate))

        self.state[w] = "pending"          # before the coroutine starts: @gen.coroutine runs synchronously
        if self.mode == "async_with" and to == NOTO:
            async def user():
                async with obj:
                    entered()
                    await gate
            coro = user()
        else:
            af = obj.acquire(self._timeout(to))
            self.acq[w] = af

            @gen.coroutine
            def user():
                with (yield af):
                    entered()
                    yield gate
            coro = user()
        t = asyncio.ensure_future(coro, loop=self.env.loop) if asyncio.iscoroutine(coro) else coro
        self.tasks[w] = t

        def done(f):
            if f.cancelled():
                me.state[w] = "cancelled"
            elif f.exception() is not None:
                n = type(f.exception()).__name__
                if me.state.get(w) == "pending":
                    me.state[w] = "timedout" if n == "TimeoutError" else "exc:" + n
                else:
                    me.err = "holder:" + n
        t.add_done_callback(done)

    def step(self, act, args):
        self.err = "none"
        try:
            if act == "acquire" and args[0] not in self.plain:
                self._start(args[0], args[1])
                self.dl[args[0]] = None if args[1] == NOTO else args[1]
            elif act == "release" and self.holders:
                w, gate = self.holders.pop(0)
                gate.set_result(None)
            else:
                return super().step(act, args)
        except Exception as e:
            self.err = type(e).__name__
        self.env.settle()
        return self.proj()

    def close(self):
        # let every coroutine finish while the loop is still open, so that no generator is
        # finalised (and releases) after the loop has been closed
        try:
            for w, gate in self.holders:
                if not gate.done():
                    gate.set_result(None)
            self.holders = []
            for w, t in self.tasks.items():
                if not t.done():
                    if w in self.acq:
                        self.acq[w].cancel()
                    else:
                        t.cancel()
            self.env.settle()
            for w, t in self.tasks.items():
                if t.done() and not t.cancelled():
                    t.exception()
        except Exception:
            pass
        super().close()
