"""C24 driver: binds specs/websec/Xsrf.tla to a real tornado.web.Application with
xsrf_cookies=True served over the in-memory transport (harness.httpsim).

os.urandom / time.time are replaced at the tornado.web module boundary so that the secret, the
mask and the clock of an issuance are the ones the specification (or the seeded random driver)
chose; everything else is the unmodified request path: HTTP1 parsing, cookie parsing,
body-argument parsing, RequestHandler._execute, check_xsrf_cookie."""
import os as _os
import time as _time
import urllib.parse

from . import websec_driver as W
from .vloop import Env
from .httpsim import make_app_server, LogCapture

MASKTAB = [bytes([1, 2, 3, 4]), bytes([255, 0, 170, 85]), bytes([171, 205, 171, 205])]
S2 = bytes([18, 52])
FRESH = bytes.fromhex("9f3c5a17e2b84d06a1c97e3355d0f4aa")

_STATE = {}


class _Rand:
    def __init__(self):
        self.secret = b""
        self.mask = b""
        self.calls = []

    def urandom(self, n):
        self.calls.append(n)
        if n == 4:
            return self.mask
        return self.secret


def _world():
    """Per-process world: one virtual loop, two applications (xsrf_cookie_version 1 and 2)."""
    w = _STATE.get("w")
    if w is not None:
        return w
    from tornado import web
    env = Env()
    ran = []

    class H(web.RequestHandler):
        def get(self):
            ran.append("GET")
            self.write(self.xsrf_token)

        def head(self):
            ran.append("HEAD")

        def options(self):
            ran.append("OPTIONS")

        def post(self):
            ran.append(self.request.method)
            self.write("ok")

        put = delete = patch = post

    @web.stream_request_body
    class SH(H):
        def data_received(self, chunk):
            pass

    apps = {}
    for v in (1, 2):
        app, srv = make_app_server(env, app=web.Application([("/", H), ("/s", SH)], xsrf_cookies=True, xsrf_cookie_version=v))
        apps[v] = srv
    rnd = _Rand()
    clock = {"t": 0}
    w = {"env": env, "ran": ran, "apps": apps, "rnd": rnd, "clock": clock,
         "os": W.ModShim(_os, urandom=rnd.urandom), "time": W.ModShim(_time, time=lambda: clock["t"])}
    _STATE["w"] = w
    return w


def _txt(cps):
    return "".join(chr(c) for c in cps)


def build_request(method, cookie, token, carrier, path="/"):
    lines = ["%s %s HTTP/1.1" % (method, path), "Host: example.test"]
    if cookie:
        lines.append("Cookie: _xsrf=" + cookie)
    body = b""
    if carrier == "form":
        if token is not None:
            body = b"_xsrf=" + urllib.parse.quote(token, safe="").encode("ascii")
        lines.append("Content-Type: application/x-www-form-urlencoded")
    elif carrier == "xsrfheader" and token:
        lines.append("X-XSRFToken: " + token)
    elif carrier == "csrfheader" and token:
        lines.append("X-CSRFToken: " + token)
    if method not in ("GET", "HEAD", "OPTIONS") or body:
        lines.append("Content-Length: %d" % len(body))
    return ("\r\n".join(lines) + "\r\n\r\n").encode("latin1") + body


def do_post(cookie, token, carrier, method, appver=2, handler="plain"):
    """Returns {"status", "ran"} of one real request."""
    w = _world()
    del w["ran"][:]
    w["rnd"].secret = FRESH                # the secret drawn for an absent / undecodable cookie: nobody knows it
    w["rnd"].mask = FRESH[:4]
    w["clock"]["t"] = 1700000000
    with LogCapture() as lc, W.WebPatch(os=w["os"], time=w["time"]):
        code, headers, body, closed = W.http_exchange(w["env"], w["apps"][appver], build_request(method, cookie, token, carrier, "/s" if handler == "stream" else "/"),
                                                      head=(method == "HEAD"))
    errs = [r for r in lc.records if r[1] in ("ERROR", "CRITICAL")]
    return {"status": code if code is not None else 0, "ran": bool(w["ran"]), "errors": len(errs)}


def do_issue(cookie, outver, secret, mask, t):
    """GET that renders xsrf_token.  Returns {"status", "token", "setcookie", "draws"}."""
    w = _world()
    del w["ran"][:]
    w["rnd"].secret, w["rnd"].mask = secret, mask
    del w["rnd"].calls[:]
    w["clock"]["t"] = t + 0.75         # the real clock is a float; the token carries int(t)
    with LogCapture(), W.WebPatch(os=w["os"], time=w["time"]):
        code, headers, body, closed = W.http_exchange(w["env"], w["apps"][outver], build_request("GET", cookie, None, "none"))
    sc = ""
    n = 0
    for k, v in headers:
        if k.lower() == "set-cookie":
            n += 1
            if v.startswith("_xsrf="):
                sc = v[len("_xsrf="):].split(";", 1)[0]
    return {"status": code or 0, "token": body.decode("latin1"), "setcookie": sc, "ncookies": n, "draws": list(w["rnd"].calls)}


def replay_state(st, _path=None):
    sc, exp = st["sc"], st["exp"]
    cookie = _txt(sc["cookie"]["s"])
    if sc["mode"] == "post":
        token = _txt(sc["token"]["s"])
        appver = 1 + (len(cookie) + len(token)) % 2
        obs = do_post(cookie, token, sc["carrier"], sc["method"], appver, sc.get("handler", "plain"))
        if obs["status"] != exp["status"] or obs["ran"] != exp["ran"] or obs["errors"]:
            return {"step": 0, "act": "post", "args": {"cookie": cookie, "token": token, "carrier": sc["carrier"], "method": sc["method"]},
                    "exp": {"status": exp["status"], "ran": exp["ran"]}, "obs": obs,
                    "sig": {"what": "post-outcome", "exp_ran": exp["ran"], "obs_ran": obs["ran"], "obs_status": obs["status"],
                            "cookie_kind": sc["cookie"]["kind"], "token_kind": sc["token"]["kind"], "carrier": sc["carrier"],
                            "method": sc["method"], "handler": sc.get("handler", "plain")}}
        return None
    if sc["mode"] == "issue":
        v, m, t = sc["iss"]
        obs = do_issue(cookie, v, S2, MASKTAB[m - 1], t)
        want = {"status": 200, "token": _txt(exp["token"]), "setcookie": _txt(exp["setcookie"])}
        got = {k: obs[k] for k in want}
        if got != want or obs["ncookies"] != (1 if want["setcookie"] else 0):
            return {"step": 0, "act": "issue", "args": {"cookie": cookie, "outver": v, "mask": m, "t": t}, "exp": want, "obs": obs,
                    "sig": {"what": "issuance", "outver": v, "cookie_kind": sc["cookie"]["kind"],
                            "token_differs": got["token"] != want["token"], "setcookie_differs": got["setcookie"] != want["setcookie"]}}
        return None
    return None


# ----------------------------------------------------------------------------- C2S

def random_session(args):
    """A browser-like session against the real application: issuances with real 16-byte secrets
    and 4-byte masks (seeded), posts with right / foreign / mutated / stale tokens over all
    carriers and methods.  Events are validated one by one by Trace_Xsrf."""
    import random
    tid, seed, nev = args
    rng = random.Random(seed)
    ev = []
    jar = ""                # the _xsrf cookie the "browser" holds
    tokens = []             # tokens rendered for this session
    foreign = []            # tokens of other sessions
    outver = rng.choice([1, 2])
    # another session (different cookie jar) issues a few tokens first
    for _ in range(2):
        o = do_issue("", rng.choice([1, 2]), bytes(rng.randrange(256) for _ in range(16)), bytes(rng.randrange(256) for _ in range(4)),
                     rng.randrange(1, 2000000000))
        foreign.append(o["token"])
    for _ in range(nev):
        if not tokens or rng.random() < 0.3:
            secret = bytes(rng.randrange(256) for _ in range(16))
            mask = bytes(rng.randrange(256) for _ in range(4))
            t = rng.randrange(1, 2000000000)
            if rng.random() < 0.15:
                outver = 3 - outver          # the operator switches xsrf_cookie_version
            sent = jar if rng.random() < 0.9 else ""
            o = do_issue(sent, outver, secret, mask, t)
            ev.append({"a": "issue", "args": [list(sent.encode("latin1")), outver, list(secret), list(mask), t],
                       "obs": {"status": o["status"], "token": list(o["token"].encode("latin1")),
                               "setcookie": list(o["setcookie"].encode("latin1"))}})
            if o["setcookie"]:
                jar = o["setcookie"]
            if sent == jar or o["setcookie"]:
                tokens.append(o["token"])
            continue
        r = rng.random()
        if r < 0.4:
            tok = rng.choice(tokens)
        elif r < 0.55:
            tok = rng.choice(foreign)
        elif r < 0.85:
            tok = list(rng.choice(tokens))
            for _ in range(rng.choice([1, 1, 2])):
                k, pos = rng.random(), rng.randrange(len(tok) + 1)
                ch = rng.choice("0123456789abcdefABCDEF|g2z")
                if k < 0.4 and pos < len(tok):
                    tok[pos] = ch
                elif k < 0.7:
                    tok.insert(pos, ch)
                elif pos < len(tok):
                    del tok[pos]
            tok = "".join(tok)
        elif r < 0.92:
            tok = ""
        else:
            tok = "".join(rng.choice("2|0a7z") for _ in range(rng.randrange(1, 8)))
        cookie = jar
        rc = rng.random()
        if rc < 0.1:
            cookie = ""
        elif rc < 0.2:
            cookie = rng.choice(tokens + foreign)
        elif rc < 0.3 and jar:
            c = list(jar)
            pos = rng.randrange(len(c))
            c[pos] = rng.choice("0123456789abcdef|g")
            cookie = "".join(c)
        carrier = rng.choice(["form", "xsrfheader", "csrfheader"])
        method = rng.choice(["POST"] * 6 + ["PUT", "DELETE", "PATCH", "GET", "HEAD", "OPTIONS"])
        if method in ("GET", "HEAD", "OPTIONS") and carrier == "form":
            carrier = "xsrfheader"
        handler = "stream" if (carrier != "form" and method not in ("GET", "HEAD", "OPTIONS") and rng.random() < 0.3) else "plain"
        o = do_post(cookie, tok, carrier, method, outver, handler)
        ev.append({"a": "post", "args": [list(cookie.encode("latin1")), list(tok.encode("latin1")), carrier, method, handler],
                   "obs": {"status": o["status"], "ran": o["ran"]}})
    return {"id": tid, "cfg": {}, "ev": ev}
