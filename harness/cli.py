import importlib
import sys

from . import framework


def main():
    if len(sys.argv) < 2:
        print("usage: ./check <Cnn> [--tier quick|thorough] [--replay FILE] [--seed N]")
        return 2
    pid = sys.argv[1]
    try:
        mod = importlib.import_module("checks." + pid)
    except ImportError as ex:
        print("MACHINERY-FAILURE: no check module for %s (%s)" % (pid, ex))
        return 2
    return framework.main(pid, mod.run, getattr(mod, "replay", None))


if __name__ == "__main__":
    sys.exit(main())
