"""Drivers binding specs/httpr/HttpReader.tla to the real Tornado HTTP/1.x reader (C01 C04 C05 C08).

Server side: a real `HTTPServer` serves a `MemStream` (harness.httpsim.ServerConn); the application is
  * 'delegate': a recording HTTPServerConnectionDelegate / HTTPMessageDelegate that builds the
    HTTPServerRequest exactly as tornado.httpserver._CallableAdapter does (H/D/F/C events),
  * 'callback': a plain request callback (whole requests),
  * 'app': a tornado.web.Application with a counting RequestHandler (on_finish / on_connection_close).
Client side: a real `SimpleAsyncHTTPClient.fetch` over a fake TCPClient whose connect() returns a MemStream.

Nothing here knows HTTP: the expected projections come from TLC (Gen_HttpReader trails, Trace_HttpReader
verdicts); this module only moves bytes, records callbacks and folds TLC's trail entries into the
projection `{msgs, out, closed, rej}` (plumbing: concatenation of event lists)."""
import logging

from . import REPO  # noqa: F401
from tornado import httputil
from .httpsim import LogCapture, ServerConn, split_responses
from .memstream import MemStream
from .vloop import Env

NONE = 2000000001


def b2l(x):
    if isinstance(x, str):
        x = x.encode("latin1")
    return list(x)


def norm_headers(pairs):
    """[(name, value)] -> [[name_lower_bytes, value_bytes]] stably sorted by name (the order of
    different field names is not part of the contract; the order of equal names is)."""
    out = [[b2l(n.lower()), b2l(v)] for n, v in pairs]
    out.sort(key=lambda p: p[0])
    return out


# ----------------------------------------------------------------------------------------------
# recording applications

class RecMsg(httputil.HTTPMessageDelegate):
    """One message delegate: raw record of the callbacks it received."""

    def __init__(self, rec, conn):
        self.rec = rec
        self.conn = conn
        self.h = None            # projected headers event or None (not received / refused)
        self.refused = False
        self.body = bytearray()
        self.nd = 0
        self.end = ""            # "F"/"C" appended per notification: anything but "", "F", "C" is a double notification
        self.request = None

    # HTTPMessageDelegate interface -------------------------------------------------------
    def headers_received(self, start_line, headers):
        try:
            # exactly what tornado.httpserver._CallableAdapter.headers_received does
            self.request = httputil.HTTPServerRequest(connection=self.conn, start_line=start_line, headers=headers)
        except Exception:
            self.refused = True
            raise
        # the application keeps the live header object (as HTTPServerRequest.headers does)
        self.h = {"sl": [b2l(start_line.method), b2l(start_line.path), b2l(start_line.version)], "live": headers}
        self.rec.order.append(self)
        if self.rec.override is not None:
            self.conn.set_max_body_size(self.rec.override)
        if self.rec.btimeout is not None:
            self.conn.set_body_timeout(self.rec.btimeout)
        if self.rec.respond == "early":
            self.respond()              # the application answers before the request body is read
        return None

    def data_received(self, chunk):
        self.nd += 1
        self.body += chunk
        if self.h is None and self not in self.rec.order:
            self.rec.order.append(self)
        if self.rec.respond == "earlydata":
            self.respond()
        return None

    def finish(self):
        self.end += "F"
        if self.h is None and self not in self.rec.order:
            self.rec.order.append(self)
        if self.rec.respond == "raise":
            self.rec.raised += 1
            raise RuntimeError("application error in finish()")     # (after the F event has been recorded)
        if self.rec.respond == "async":
            self.rec.waiting.append(self)
        else:
            self.respond()

    def on_connection_close(self):
        if self.refused and self.h is None:
            return                  # headers were refused by the application: told "closed", nothing to project
        self.end += "C"
        if self.h is None and self not in self.rec.order:
            self.rec.order.append(self)

    def respond(self):
        if getattr(self, "responded", False):
            return
        self.responded = True
        try:
            self.conn.write_headers(httputil.ResponseStartLine("HTTP/1.1", 200, "OK"),
                                    httputil.HTTPHeaders({"Content-Length": "0"}))
            self.conn.finish()
        except Exception as e:       # an exception of the code under test is an observation
            self.rec.errors.append(type(e).__name__)

    def proj(self):
        if self.h is None:
            return {"sl": "NOHEADERS", "hs": [], "body": list(self.body), "end": self.end}
        return {"sl": self.h["sl"], "hs": norm_headers(self.h["live"].get_all()), "body": list(self.body), "end": self.end}


class Recorder(httputil.HTTPServerConnectionDelegate):
    def __init__(self, respond="sync", override=None, btimeout=None):
        self.respond = respond
        self.override = override
        self.btimeout = btimeout
        self.order = []          # message delegates that received something, in order
        self.waiting = []        # finished messages whose response is outstanding (async)
        self.errors = []
        self.closed_conns = 0
        self.raised = 0          # exceptions the application itself raised on purpose

    def start_request(self, server_conn, request_conn):
        return RecMsg(self, request_conn)

    def on_close(self, server_conn):
        self.closed_conns += 1


class WrapMsg(RecMsg):
    """Recording wrapper around the message delegate of a real tornado.web.Application: records the
    callbacks (same projection as RecMsg) and forwards them to the framework's own delegate."""

    def __init__(self, rec, conn, inner):
        RecMsg.__init__(self, rec, conn)
        self.inner = inner

    def headers_received(self, start_line, headers):
        try:
            ret = self.inner.headers_received(start_line, headers)
        except Exception:
            self.refused = True
            raise
        self.h = {"sl": [b2l(start_line.method), b2l(start_line.path), b2l(start_line.version)], "live": headers}
        self.rec.order.append(self)
        return ret

    def data_received(self, chunk):
        self.nd += 1
        self.body += chunk
        return self.inner.data_received(chunk)

    def finish(self):
        self.end += "F"
        return self.inner.finish()

    def on_connection_close(self):
        if not (self.refused and self.h is None):
            self.end += "C"
        return self.inner.on_connection_close()


class WrapApp(httputil.HTTPServerConnectionDelegate):
    def __init__(self, app):
        self.app = app
        self.order = []
        self.errors = []
        self.waiting = []        # futures the asynchronous handlers are waiting on
        self.handlers = []       # every RequestHandler instance created: counters

    def start_request(self, server_conn, request_conn):
        return WrapMsg(self, request_conn, self.app.start_request(server_conn, request_conn))

    def on_close(self, server_conn):
        self.app.on_close(server_conn)


def make_app(wrap_holder, style):
    """A tornado.web.Application whose single handler answers every generated method with an empty
    200; style 'sync' | 'async' (awaits a harness future before answering) | 'stream'
    (@stream_request_body, answers after the body)."""
    from tornado import web
    from tornado.concurrent import Future

    class Base(web.RequestHandler):
        def initialize(self):
            # every method the wire names is "supported" (the reader, not the routing, is under test)
            self.SUPPORTED_METHODS = tuple(web.RequestHandler.SUPPORTED_METHODS) + (self.request.method,)
            self.n_finish = 0
            self.n_close = 0
            self.streamed = 0
            wrap_holder[0].handlers.append(self)

        def on_finish(self):
            self.n_finish += 1

        def on_connection_close(self):
            self.n_close += 1

        async def _answer(self):
            if style == "async":
                f = Future()
                wrap_holder[0].waiting.append(f)
                await f
            self.set_header("Content-Length", "0")
            self.finish()

        async def get(self):
            await self._answer()
        post = put = delete = head = options = patch = get

        def check_xsrf_cookie(self):
            pass

        def __getattr__(self, name):
            req = self.__dict__.get("request")
            if req is not None and name == req.method.lower():
                return self.get
            raise AttributeError(name)

    if style.startswith("stream"):
        @web.stream_request_body
        class Handler(Base):
            def prepare(self):
                if style == "stream-early":          # answers before the body is read
                    self.set_header("Content-Length", "0")
                    self.finish()

            def data_received(self, chunk):
                self.streamed += len(chunk)
                if style == "stream-earlydata" and not self._finished:
                    self.set_header("Content-Length", "0")
                    self.finish()

            async def _answer(self):
                if not self._finished:
                    self.set_header("Content-Length", "0")
                    self.finish()
    else:
        Handler = Base
    return web.Application([(r".*", Handler)])


class ServerRun:
    """One connection to a real HTTPServer in one of the application modes."""

    def __init__(self, cfg, mode="delegate", env=None, chunk_size=None):
        from tornado import httpserver
        self.own_env = env is None
        self.env = env or Env()
        self.cfg = cfg
        self.mode = mode
        self.requests = []           # callback mode
        kw = {}
        if cfg.get("maxHdr", 65536) != 65536:
            kw["max_header_size"] = cfg["maxHdr"]
        if cfg.get("maxBody", 1000000) != 1000000:
            kw["max_body_size"] = cfg["maxBody"]
        if cfg.get("decompress"):
            kw["decompress_request"] = True
        if cfg.get("btimeout"):
            kw["body_timeout"] = 10
        if chunk_size or cfg.get("decompress"):
            kw["chunk_size"] = chunk_size or 16      # small, so that the decompress loop iterates
        override = cfg.get("override", NONE)
        self.log = LogCapture()
        self.log.__enter__()
        if mode == "delegate":
            self.rec = Recorder(respond=cfg.get("respond", "sync"),
                                override=None if override == NONE else override)
            self.server = httpserver.HTTPServer(self.rec, **kw)
        elif mode == "callback":
            self.rec = None
            self.server = httpserver.HTTPServer(self._callback, **kw)
        elif mode.startswith("app-"):
            holder = [None]
            self.rec = holder[0] = WrapApp(make_app(holder, mode[4:]))
            self.server = httpserver.HTTPServer(self.rec, **kw)
        else:
            raise ValueError(mode)
        self.shutdown_done = None
        self.conn = ServerConn(self.env, self.server)

    def _callback(self, request):
        self.requests.append({"sl": [b2l(request.method), b2l(request.uri), b2l(request.version)],
                              "hs": norm_headers(request.headers.get_all()), "body": list(request.body), "end": "F"})
        request.connection.write_headers(httputil.ResponseStartLine("HTTP/1.1", 200, "OK"),
                                         httputil.HTTPHeaders({"Content-Length": "0"}))
        request.connection.finish()

    # -- stimuli --------------------------------------------------------------------------
    def arrive(self, data):
        if not self.conn.closed():
            self.conn.send(bytes(data))

    def eof(self):
        self.conn.peer_close()

    def respond(self):
        m = self.rec.waiting.pop(0)
        if isinstance(m, RecMsg):
            m.respond()
        else:
            m.set_result(None)      # the asynchronous RequestHandler continues
        self.env.settle()
        self.conn.stream.pump()

    def timeout(self):
        self.env.advance(10)
        self.conn.stream.pump()

    def shutdown(self):
        import asyncio
        t = asyncio.ensure_future(self.server.close_all_connections(), loop=self.env.loop)
        self.env.settle()
        self.shutdown_done = t.done()

    # -- projection -----------------------------------------------------------------------
    def proj(self):
        if self.mode != "callback":
            msgs = [m.proj() for m in self.rec.order]
        else:
            msgs = list(self.requests)
        out = []
        raw = self.conn.received()
        try:
            for (version, code, reason, headers, body, complete) in split_responses(raw):
                if code is not None and code != 400 and self.mode.startswith("app-"):
                    code = 200          # which status the web application chose is not the reader's business
                out.append(code if code is not None else "garbage")
        except Exception:
            out.append("unparsable")
        logs = sorted(set((n, l) for (n, l, m, exc) in self.log.records
                          if n != "tornado.access" and (getattr(logging, l) >= logging.WARNING or n == "tornado.application")))
        if getattr(self.rec, "raised", 0):
            # the application raised on purpose: tornado rightly reports that on tornado.application
            logs = [x for x in logs if x != ("tornado.application", "ERROR")]
        errs = [type(c.get("exception")).__name__ for c in self.env.loop.uncaught]
        if self.rec is not None:
            errs += self.rec.errors
        errs += [type(e).__name__ for e in self.conn.stream.handler_errors]
        if self.shutdown_done is False:
            errs.append("close_all_connections did not complete")
        if self.mode.startswith("app-"):
            for h in self.rec.handlers:      # RequestHandler.on_finish at most once
                if h.n_finish > 1:
                    errs.append("on_finish x%d" % h.n_finish)
        return {"msgs": msgs, "out": out, "closed": self.conn.closed(),
                "logs": [list(x) for x in logs], "errors": errs}

    def close(self):
        self.log.__exit__()
        if self.own_env:
            self.env.close()


# ----------------------------------------------------------------------------------------------
# folding TLC's trail into the expected projection (event-list concatenation only)

class Expect:
    def __init__(self):
        self.msgs = []
        self.out = []
        self.closed = False
        self.rej = "none"
        self.gzflux = False
        self.gzdec = []
        self.gzover = False
        self.maxb = 0

    def copy(self):
        e = Expect()
        e.msgs = [dict(m, body=list(m["body"])) for m in self.msgs]
        e.out, e.closed, e.rej, e.gzflux, e.gzdec = list(self.out), self.closed, self.rej, self.gzflux, self.gzdec
        return e

    def apply(self, entry):
        for ev in entry["ev"]:
            if ev[0] == "H":
                self.msgs.append({"sl": ev[1], "hs": sorted(ev[2], key=lambda p: p[0]), "body": [], "end": "",
                                  "opt": ev[4], "gz": ev[5]})
            elif ev[0] == "D":
                self.msgs[-1]["body"] += ev[1]
            else:
                self.msgs[-1]["end"] += ev[0]
        self.out = entry["out"]
        self.closed = entry["closed"]
        self.rej = entry["rej"]
        self.gzflux = entry.get("gzflux", False)
        self.gzdec = entry.get("gzdec", [])
        self.gzover = entry.get("gzover", False)
        self.maxb = entry.get("maxb", 0)
        return self


_CL = b2l("content-length")


def _msg_eq(e, o):
    if e.get("opt"):
        # a message refused for its framing: whether Content-Length was already normalised is immaterial
        eh = [h for h in e["hs"] if h[0] != _CL]
        oh = [h for h in o["hs"] if h[0] != _CL]
        return e["sl"] == o["sl"] and eh == oh and e["body"] == o["body"] and e["end"] == o["end"]
    return e["sl"] == o["sl"] and e["hs"] == o["hs"] and e["body"] == o["body"] and e["end"] == o["end"]


def _flux_eq(exp, e, o, end):
    """the gzip message in flight (or refused for its decoded size): how much of the decoded content
    has been handed over is the codec's business; it is a prefix of it, within the limit"""
    return (e["sl"] == o["sl"] and e["hs"] == o["hs"] and o["end"] == end and
            o["body"] == exp.gzdec[:len(o["body"])] and len(o["body"]) <= exp.maxb)


def _out_ok(exp_out, rej, obs_out):
    if rej:
        base = [c for c in exp_out if c != 400]
        return obs_out in (base, base + [400])
    return obs_out == exp_out


def compare_server(exp, obs, complete_only=False):
    """None if the observed projection is one the specification allows, else a short reason.
    Permissive points (DESIGN 5.C01/C04): a refusal answers 400 or just closes; the headers of a message
    refused for its framing / size may or may not have reached the application before the close;
    while a gzip body is in flight only 'a prefix of the decoded content, within the limit' is fixed,
    and a body that will exceed the limit may be refused as soon as the decoder notices."""
    em = exp.msgs
    om = obs["msgs"]
    if complete_only:
        em = [m for m in em if m["end"] == "F"]
        flux = False
    else:
        flux = exp.gzflux and len(em) > 0 and em[-1]["end"] != "F"
    alts = [em]
    if em and em[-1].get("opt") and not complete_only:
        alts.append(em[:-1])
    ok = False
    for a in alts:
        if len(a) == len(om) and all(_msg_eq(x, y) for x, y in zip(a, om)):
            ok = True
    if not ok and flux and len(em) == len(om) and all(_msg_eq(x, y) for x, y in zip(em[:-1], om[:-1])):
        if _flux_eq(exp, em[-1], om[-1], em[-1]["end"]):
            ok = True
        elif exp.gzover and not exp.closed and _flux_eq(exp, em[-1], om[-1], "C"):
            # refused early: the decoder already produced more than the limit allows
            if obs["closed"] and _out_ok(exp.out, True, obs["out"]) and not obs["logs"] and not obs["errors"]:
                return None
            return "early-refusal"
    if complete_only and exp.gzflux and exp.gzover and not exp.closed and obs["closed"] and \
            len(em) == len(om) and all(_msg_eq(x, y) for x, y in zip(em, om)) and _out_ok(exp.out, True, obs["out"]):
        return None if not obs["logs"] and not obs["errors"] else "logs"
    if not ok:
        return "msgs"
    if not _out_ok(exp.out, exp.rej != "none", obs["out"]):
        return "out"
    if obs["closed"] != exp.closed:
        return "closed"
    if obs["logs"]:
        return "logs"
    if obs["errors"]:
        return "errors"
    return None


def exp_json(exp):
    return {"msgs": exp.msgs, "out": exp.out, "closed": exp.closed, "rej": exp.rej, "gzflux": exp.gzflux,
            "gzover": exp.gzover, "maxb": exp.maxb, "gzdec_len": len(exp.gzdec)}


def run_server_schedule(cfg, wire, chunks, trail, eofs, mode="delegate", eof_after=None, env=None):
    """Feed `chunks` (a segmentation of a prefix of wire) to a fresh connection, comparing after every
    chunk with the fold of the trail; then (eof_after: number of bytes after which the peer closes,
    must equal the bytes fed) close and compare with the eofs entry.  Returns None or a divergence."""
    run = ServerRun(cfg, mode=mode, env=env)
    try:
        exp = Expect()
        ti = 0
        fed = 0
        for ci, c in enumerate(chunks):
            run.arrive(c)
            fed += len(c)
            while ti < len(trail) and trail[ti]["k"] <= fed:
                exp.apply(trail[ti])
                ti += 1
            obs = run.proj()
            why = compare_server(exp, obs, complete_only=(mode == "callback"))
            if why:
                return {"step": ci, "act": "arrive", "fed": fed, "why": why, "exp": exp_json(exp), "obs": obs}
            if exp.closed:
                break
        if eof_after is not None and not exp.closed:
            ent = [e for e in eofs if e["k"] == fed]
            if ent:
                run.eof()
                exp.apply(ent[0])
                obs = run.proj()
                why = compare_server(exp, obs, complete_only=(mode == "callback"))
                if why:
                    return {"step": len(chunks), "act": "eof", "fed": fed, "why": why, "exp": exp_json(exp), "obs": obs}
        return None
    finally:
        run.close()


def record_server_trace(tid, cfg, wire, pieces, script=(), mode="delegate", chunk_size=None):
    """Run the real server over `wire` split into `pieces` (lengths) and record one trace for
    Trace_HttpReader.  `script`: extra events interleaved, as (after_piece_index, act) with act in
    eof / respond / timeout / shutdown (applied when enabled in the real run)."""
    run = ServerRun(cfg, mode=mode, chunk_size=chunk_size)
    ev = []
    try:
        pos = 0
        extra = {}
        for idx, act in script:
            extra.setdefault(idx, []).append(act)

        def do_extra(i):
            for act in extra.get(i, []):
                if run.conn.closed():
                    return
                if act == "eof":
                    if run.conn.stream.in_eof:
                        continue
                    run.eof()
                elif act == "respond":
                    if not run.rec.waiting:
                        continue
                    run.respond()
                elif act == "timeout":
                    run.timeout()
                elif act == "shutdown":
                    run.shutdown()
                ev.append({"a": act, "args": [], "obs": run.proj()})
        do_extra(-1)
        for i, n in enumerate(pieces):
            if run.conn.closed() or run.conn.stream.in_eof:
                break
            run.arrive(wire[pos:pos + n])
            pos += n
            ev.append({"a": "arrive", "args": [n], "obs": run.proj()})
            do_extra(i)
        return {"id": tid, "cfg": cfg, "wire": list(wire), "ev": ev}
    finally:
        run.close()


def explain(traces, scratch=None):
    """What the specification projects after every event of the given traces (TLC, Explain_HttpReader):
    {trace id: {event index (1-based): projection}}.  Used by --replay and while triaging."""
    import json
    import os
    import re
    from . import tlc, VERIF
    from .httpr_tokens import spec_dir
    d = scratch or tlc.scratch_dir("explain")
    fn = os.path.join(d, "explain.ndjson")
    with open(fn, "w") as f:
        for t in traces:
            f.write(json.dumps(t) + "\n")
    sd = spec_dir(d)
    r = tlc.run(sd, "Explain_HttpReader", os.path.join(sd, "Explain_HttpReader.cfg"), workers=1, timeout=3000,
                env={"TRACE_FILE": fn}, deadlock=False)
    out = {}
    for m in re.finditer(r'<<"EXP", (\d+), (\d+), "((?:[^"\\]|\\.)*)">>', r.out):
        js = m.group(3).encode().decode("unicode_escape")
        out.setdefault(int(m.group(1)), {})[int(m.group(2))] = json.loads(js)
    os.remove(fn)
    return out


# ----------------------------------------------------------------------------------------------
# C05: behaviour trees (GenT_HttpReader)

def tree_scenarios(tree):
    """Every root-to-event path of a GenT tree as a list of steps:
    ("arrive", upto_k, [trail entries]) | ("eof" | "timeout" | "shutdown" | "respond", entry)."""
    def rec(nodes, prefix, k0):
        arrs = []
        for node in nodes:
            k = node["k"]
            if k > k0:
                arrs = arrs + [node["arr"]]
            reach = prefix + ([("arrive", k, arrs)] if k > k0 else [])
            yield reach + [("eof", node["eof"])]
            for e in node["tmo"]:
                yield reach + [("timeout", e)]
            for e in node["shut"]:
                yield reach + [("shutdown", e)]
            for rp in node["resp"]:
                step = ("respond", rp["ent"])
                if not rp["sub"]:
                    yield reach + [step]
                else:
                    for x in rec(rp["sub"], reach + [step], k):
                        yield x
    return rec(tree, [], 0)


def run_scenario(cfg, wire, steps, mode, env=None):
    run = ServerRun(cfg, mode=mode, env=env)
    try:
        exp = Expect()
        pos = 0
        for i, st in enumerate(steps):
            if st[0] == "arrive":
                run.arrive(wire[pos:st[1]])
                pos = st[1]
                for e in st[2]:
                    exp.apply(e)
            else:
                if st[0] == "eof":
                    run.eof()
                elif st[0] == "timeout":
                    run.timeout()
                elif st[0] == "shutdown":
                    run.shutdown()
                elif st[0] == "respond":
                    if not run.rec.waiting:
                        return {"step": i, "act": "respond", "fed": pos, "why": "not-waiting", "exp": exp_json(exp),
                                "obs": run.proj()}
                    run.respond()
                exp.apply(st[1])
            obs = run.proj()
            why = compare_server(exp, obs)
            if why:
                return {"step": i, "act": st[0], "fed": pos, "why": why, "exp": exp_json(exp), "obs": obs}
        return None
    finally:
        run.close()


# ----------------------------------------------------------------------------------------------
# C08: the real SimpleAsyncHTTPClient over a fake TCP client

class FakeTCPClient:
    """Stands in for tornado.tcpclient.TCPClient: connect() hands out a MemStream the harness feeds."""

    def __init__(self, env):
        self.env = env
        self.streams = []

    async def connect(self, host, port, af=None, ssl_options=None, max_buffer_size=None, source_ip=None,
                      source_port=None, timeout=None):
        s = MemStream(self.env, max_buffer_size=max_buffer_size)
        self.streams.append(s)
        return s

    def close(self):
        pass


class ClientRun:
    """One fetch of a real SimpleAsyncHTTPClient whose connection is a MemStream."""

    def __init__(self, cfg, streaming=False, env=None):
        from tornado.simple_httpclient import SimpleAsyncHTTPClient
        self.own_env = env is None
        self.env = env or Env()
        self.cfg = cfg
        self.streaming = streaming
        self.log = LogCapture()
        self.log.__enter__()
        kw = {}
        if cfg.get("maxBody", 1000000) != 1000000:
            kw["max_body_size"] = cfg["maxBody"]
        if cfg.get("maxHdr", 65536) != 65536:
            kw["max_header_size"] = cfg["maxHdr"]
        self.client = SimpleAsyncHTTPClient(force_instance=True, **kw)
        self.tcp = FakeTCPClient(self.env)
        self.client.tcp_client = self.tcp
        self.chunks = []
        fkw = {"method": "HEAD" if cfg.get("head") else "GET", "decompress_response": bool(cfg.get("decompress")),
               "raise_error": False, "request_timeout": 0, "connect_timeout": 0}
        if streaming:
            fkw["streaming_callback"] = self.chunks.append
        self.errors = []
        try:
            self.fut = self.client.fetch("http://h/", **fkw)
        except Exception as e:
            self.fut = None
            self.errors.append(type(e).__name__)
        self.env.settle()
        self.stream = self.tcp.streams[0] if self.tcp.streams else None
        if self.stream is not None:
            self.stream.pump()
        self.request_bytes = bytes(self.stream.out) if self.stream is not None else b""

    def arrive(self, data):
        if self.stream is not None and not self.stream.closed():
            self.stream.feed(bytes(data))
        self.env.settle()

    def eof(self):
        if self.stream is not None and not self.stream.closed():
            self.stream.feed_eof()
        self.env.settle()

    def proj(self):
        logs = sorted(set((n, l) for (n, l, m, exc) in self.log.records
                          if getattr(logging, l) >= logging.WARNING or n == "tornado.application"))
        streamed = b"".join(self.chunks)
        base = {"logs": [list(x) for x in logs], "streamed": list(streamed),
                "errors": [type(c.get("exception")).__name__ for c in self.env.loop.uncaught] + self.errors}
        if self.fut is None or not self.fut.done():
            return dict(base, st="pending")
        if self.fut.exception() is not None:
            return dict(base, st="error", err=type(self.fut.exception()).__name__)
        r = self.fut.result()
        if r.code == 599:
            return dict(base, st="error", err=type(r.error).__name__)
        body = streamed if self.streaming else (r.body or b"")
        return dict(base, st="ok", code=r.code, hs=norm_headers(r.headers.get_all()), body=list(body))

    def close(self):
        self.log.__exit__()
        try:
            self.client.close()
        except Exception:
            pass
        if self.own_env:
            self.env.close()


def client_expect(exp):
    """What the fetch must have returned, given the fold of the trail (the last message is the response;
    interim 1xx messages are not part of the trail)."""
    if exp.rej != "none":
        return {"st": "error"}
    if exp.msgs and exp.msgs[-1]["end"] == "F":
        m = exp.msgs[-1]
        return {"st": "ok", "code": m["sl"][1], "hs": m["hs"], "body": m["body"]}
    return {"st": "pending"}


def compare_client(exp, obs, maxb, final=False):
    """None if the fetch's state is one the specification allows.  Permissive points: when the body
    limit of a close-delimited body is enforced (at the latest when the message ends); a gzip body
    that will exceed the limit may be refused as soon as the decoder notices."""
    e = client_expect(exp)
    why = None
    if obs["st"] != e["st"]:
        if e["st"] == "error" and exp.rej == "bodysize" and obs["st"] == "pending" and not final:
            pass
        elif e["st"] == "pending" and exp.gzflux and exp.gzover and obs["st"] == "error":
            pass
        else:
            why = "status"
    elif e["st"] == "ok":
        for k in ("code", "hs", "body"):
            if obs[k] != e[k]:
                why = k
                break
    if why is None and (len(obs["streamed"]) > maxb or len(obs.get("body", [])) > maxb):
        why = "limit"
    # (log records are not compared on the client side: C08 states what the fetch returns; e.g. corrupt gzip
    #  data makes zlib raise inside data_received, which tornado logs on tornado.application and turns into
    #  a failed fetch - an error, as the property requires)
    if why is None and obs["errors"]:
        why = "errors"
    return why


def run_client_schedule(cfg, wire, chunks, trail, eofs, streaming=False, env=None):
    run = ClientRun(cfg, streaming=streaming, env=env)
    try:
        exp = Expect()
        ti = 0
        fed = 0
        maxb = cfg["maxBody"]
        for ci, c in enumerate(chunks):
            run.arrive(c)
            fed += len(c)
            while ti < len(trail) and trail[ti]["k"] <= fed:
                exp.apply(trail[ti])
                ti += 1
            obs = run.proj()
            why = compare_client(exp, obs, maxb)
            if why:
                return {"step": ci, "act": "arrive", "fed": fed, "why": why, "exp": dict(client_expect(exp), rej=exp.rej), "obs": obs}
            if exp.closed:
                break
        if not exp.closed:
            ent = [e for e in eofs if e["k"] == fed]
            if ent:
                run.eof()
                exp.apply(ent[0])
                obs = run.proj()
                why = compare_client(exp, obs, maxb, final=True)
                if why:
                    return {"step": len(chunks), "act": "eof", "fed": fed, "why": why,
                            "exp": dict(client_expect(exp), rej=exp.rej), "obs": obs}
        return None
    finally:
        run.close()


def record_client_trace(tid, cfg, wire, pieces, eof=True, streaming=False):
    run = ClientRun(cfg, streaming=streaming)
    ev = []
    try:
        pos = 0
        for n in pieces:
            if run.stream is None or run.stream.closed():
                break
            run.arrive(wire[pos:pos + n])
            pos += n
            ev.append({"a": "arrive", "args": [n], "obs": run.proj()})
        if eof and run.stream is not None and not run.stream.closed():
            run.eof()
            ev.append({"a": "eof", "args": [], "obs": run.proj()})
        return {"id": tid, "cfg": cfg, "wire": list(wire), "ev": ev}
    finally:
        run.close()
