"""Spec -> code for C40: force the REAL SelectorThread (real threads) along a TLC behaviour.

A behaviour of specs/selthread/SelectorThread.tla (from `tlc -simulate`, full states) is a sequence
of label steps of the three processes.  Every thread of the real code parks at each shim point
of harness/selthread_driver.py *before* the corresponding event (`Harness.gate`); the controller
(this thread, which also plays the environment) releases exactly the thread whose step is next in
the behaviour, waits for the event it logs and compares it with the event the specification
state pair implies (name, thread, arguments, observations such as the `_select_args` snapshot).
Nondeterminism that belongs to the environment is resolved by the behaviour: which fds become
ready and when, the (legal) result and order of select(), when the loop runs a queued
`_handle_select`, what application callbacks do.

Divergence kinds: `gate` (the thread is about to do something else than the behaviour's step),
`event` (the logged event differs from the expected one), `stuck` (the thread never reached a shim
point / the step never completed).  After the last step all threads are released and the scenario
finishes in free mode; the complete log is additionally validated by TLC (code -> spec).
"""
import threading
import time
import traceback

from . import selthread_driver as drv
from .selthread_driver import MAIN, SEL, ENV

STEP_TIMEOUT = 15.0
NOCB = {"k": "n", "f": 0}


class Controller:
    def __init__(self, H):
        self.H = H
        self.cv = threading.Condition()
        self.parked = {}
        self.msg = {}
        self.active = True

    # thread side
    def park(self, t, what):
        with self.cv:
            self.parked[t] = what
            self.cv.notify_all()
            while self.active and t not in self.msg:
                self.cv.wait(1.0)
            self.parked.pop(t, None)
            if t in self.msg:
                return self.msg.pop(t)
            return ("free",)

    def logged(self):
        with self.cv:
            self.cv.notify_all()

    # controller side
    def wait_parked(self, t, timeout=STEP_TIMEOUT):
        end = time.monotonic() + timeout
        with self.cv:
            while t not in self.parked or t in self.msg:
                left = end - time.monotonic()
                if left <= 0:
                    return None
                self.cv.wait(min(left, 0.5))
            return self.parked[t]

    def send(self, t, m):
        with self.cv:
            self.msg[t] = m
            self.cv.notify_all()

    def wait_event(self, n0, timeout=STEP_TIMEOUT):
        end = time.monotonic() + timeout
        with self.cv:
            while len(self.H.events) <= n0:
                left = end - time.monotonic()
                if left <= 0:
                    return False
                self.cv.wait(min(left, 0.5))
            return True

    def release_all(self):
        with self.cv:
            self.active = False
            self.cv.notify_all()


# ------------------------------------------------------------------ expected events from spec states

def _first_reg(seq, regset):
    for i, x in enumerate(seq):
        if x in regset:
            return i
    return -1


def _pc(pc):
    """pc is printed by TLC as a sequence (domain 1..3) or as a function; index by process id."""
    if isinstance(pc, (tuple, list)):
        return {i + 1: v for i, v in enumerate(pc)}
    return {int(k): v for k, v in pc.items()}


def _args(a):
    return {"some": bool(a["some"]), "r": sorted(a["r"]), "w": sorted(a["w"])}


def expected(act, s, t):
    """(thread, event name, args, obs, command) implied by the step s --act--> t."""
    pc2 = _pc(t["pc"])
    if act == "e_loop":
        for k in "rw":
            d = set(t["ready"][k]) - set(s["ready"][k])
            if d:
                return ENV, "ready", [k, min(d)], None, None
    if act in ("m_init", "m_wk", "m_cl_wk", "m_cl_rm"):
        return MAIN, "wsend", None, {"ok": t["waker"] == s["waker"] + 1}, None
    if act in ("m_top", "m_run"):
        top = act == "m_top"
        if t["chg"] != s["chg"]:
            op = None
            for k in "rw":
                add = set(t["reg"][k]) - set(s["reg"][k])
                rem = set(s["reg"][k]) - set(t["reg"][k])
                if add:
                    op = ("add", k, min(add))
                if rem:
                    op = ("rem", k, min(rem))
            if op is None:
                fds = range(1, s["_nf"] + 1)
                if pc2[1] == "m_wk" or s["closed"] and any(f in s["reg"][k] for k in "rw" for f in fds):
                    # add of an fd that is already registered
                    op = [("add", k, f) for k in "rw" for f in fds if f in s["reg"][k]][0]
                else:
                    op = [("rem", k, f) for k in "rw" for f in fds if f not in s["reg"][k]][0]
            return MAIN, "reg", list(op), None, (("reg",) + op)
        if pc2[1] == "m_cl_body":
            return MAIN, "acq", [t["how"]], None, ("close", t["how"])
        if set(t["closedfds"]) != set(s["closedfds"]):
            f = min(set(t["closedfds"]) - set(s["closedfds"]))
            return MAIN, "fdclose", [f], None, ("closefd", f)
        if top and t["started"] and not s["started"]:
            return MAIN, "tstart", None, None, ("start",)
        if top and pc2[1] == "m_run":
            return MAIN, "hs", {"rs": list(t["todoR"]), "ws": list(t["todoW"])}, None, ("hs",)
        if not top:
            if t["ready"] != s["ready"]:
                return MAIN, "consume", [s["cur"]["k"], s["cur"]["f"]], None, ("consume",)
            if pc2[1] == "m_ss_body":
                return MAIN, "acq", ["ss"], None, None
            i = _first_reg(s["todoR"], s["reg"]["r"])
            if i >= 0:
                f = s["todoR"][i]
                if f == 0:
                    return MAIN, "wrecv", None, {"n": s["waker"] - t["waker"]}, None
                return MAIN, "cb", ["r", f], None, None
            i = _first_reg(s["todoW"], s["reg"]["w"])
            return MAIN, "cb", ["w", s["todoW"][i]], None, None
    if act == "m_ss_acq":
        return MAIN, "acq", ["ss"], None, None
    if act in ("m_ss_body", "m_cl_body"):
        return MAIN, "notify", None, None, None
    if act in ("m_ss_rel", "m_cl_rel"):
        return MAIN, "rel", None, {"args": _args(t["selArgs"]), "closing": bool(t["closing"])}, None
    if act == "m_cl_join":
        return MAIN, "joined", None, None, None
    if act == "m_cl_end":
        return MAIN, "closed", None, {"alive": bool(t["started"] and not t["sdone"])}, None
    if act == "s_acq":
        return SEL, "acq", ["s"], None, None
    if act == "s_cs":
        if pc2[2] == "s_woke":
            return SEL, "wait", None, None, None
        return SEL, "rel", None, {"args": _args(t["selArgs"]), "closing": bool(t["closing"])}, None
    if act == "s_woke":
        return SEL, "woke", None, None, None
    if act == "s_sel_begin":
        return SEL, "sel_begin", {"r": sorted(s["myargs"]["r"]), "w": sorted(s["myargs"]["w"])}, None, None
    if act == "s_sel_end":
        if pc2[2] == "s_poll_begin":
            return SEL, "sel_err", ["OSError", 9], {"err": True}, None
        return SEL, "sel_end", None, {"rs": list(t["res"]["rs"]), "ws": list(t["res"]["ws"])}, None
    if act == "s_poll_begin":
        return SEL, "sel_begin", {"r": [drv.RAW_WAKER], "w": []}, None, None
    if act == "s_poll_end":
        return SEL, "sel_end", None, {"rs": list(t["res"]["rs"]), "ws": list(t["res"]["ws"])}, None
    if act == "s_post":
        q = t["queue"][-1]
        return SEL, "post", {"rs": list(q["rs"]), "ws": list(q["ws"])}, None, None
    raise ValueError("no event for step %s" % act)


# ------------------------------------------------------------------ the forced run

class ForcedRun(drv.Run):
    def __init__(self, tid, seed, nf, steps):
        super().__init__(tid, seed, nf=nf, jitter=False)
        self.steps = steps            # list of (act, s, t)
        self.ctl = Controller(self.H)
        self.H.ctl = self.ctl
        self.H.small_waker = False    # the simulation constants make every waker send succeed
        self.divergence = None
        self.allow_cb_close = False
        self.allow_fdclose = False
        self.finishing = False

    # -- main thread: executes commands from the controller, then finishes in free mode
    def _main_thread(self):
        H = self.H
        H.register_thread(MAIN)
        import tornado.platform.asyncio as amod
        self.amod = amod
        saved = (amod.threading, amod.select, amod.socket)
        saved_loops = set(amod._selector_loops)
        amod._selector_loops.clear()
        loop = None
        try:
            amod.threading = drv.make_threading_shim(H)
            amod.select = drv.make_select_shim(H)
            amod.socket = drv.make_socket_shim(H)
            loop = drv.TLoop()
            loop.H = H
            loop.set_exception_handler(lambda lp, ctx: H.error(
                "loop: %s %r" % (ctx.get("message"), ctx.get("exception"))))
            self.ops, self.post_ops, self.use_atexit = [], [], False
            self.st = amod.SelectorThread(loop)        # first event: wsend (gated)
            H.owner = self.st
            while True:
                m = self.ctl.park(MAIN, ("idle",))
                if m[0] != "cmd":
                    break
                self._command(loop, m[1])
            # free-mode epilogue: deliver what the loop still owes, then finish as a recorded run does
            self.finishing = True
            for cb, rs, ws in H.pending_hs:
                loop.call_soon(cb, rs, ws)
            H.pending_hs = []
            loop.call_soon(self._next_step)
            loop.run_forever()
            self._await_selector()
            loop.run_until_complete(loop.shutdown_asyncgens())
        except drv.Hang as e:
            H.hung = True
            H.error("hang: %s" % e)
        except BaseException:
            self.fatal = traceback.format_exc()
        finally:
            amod.threading, amod.select, amod.socket = saved
            amod._selector_loops.clear()
            amod._selector_loops.update(saved_loops)
            try:
                if loop is not None and not H.hung:
                    loop.close()
            except Exception:
                pass
            for s in list(self.socks.values()) + list(self.peers.values()):
                try:
                    s.close()
                except Exception:
                    pass
            self.done.set()

    def _command(self, loop, c):
        H = self.H
        if c[0] == "reg":
            self.reg_op(*c[1:])
        elif c[0] == "close":
            self.do_close(c[1])
        elif c[0] == "closefd":
            self.close_fd(c[1])
        elif c[0] == "hs":
            cb, rs, ws = H.pending_hs.pop(0)
            cb(rs, ws)
        elif c[0] == "start":
            # run the loop until the thread manager task has started the thread and handed over
            for _ in range(6):
                loop.call_soon(loop.stop)
                loop.run_forever()
                if self.st._thread is not None:
                    break
        else:
            raise ValueError(c)

    # -- controller (calling thread; also the environment)
    def drive(self):
        H, ctl = self.H, self.ctl
        H.register_thread(ENV)
        for f in range(1, self.nf + 1):
            a, b = drv._real_socket.socketpair()
            a.setblocking(False)
            b.setblocking(False)
            a.setsockopt(drv._real_socket.SOL_SOCKET, drv._real_socket.SO_SNDBUF, 4096)
            self.socks[f], self.peers[f] = a, b
            self.fdnum[f] = a.fileno()
            H.fdidx[a.fileno()] = f
        t = drv._real_threading.Thread(target=self._main_thread, daemon=True)
        t.start()
        in_cb = False
        try:
            for i, (act, s, s2) in enumerate(self.steps):
                th, name, args, obs, cmd = expected(act, s, s2)
                n0 = len(H.events)
                if th == ENV:
                    if not self.env_ready(args[0], args[1]):
                        self.divergence = {"step": i, "act": act, "kind": "env", "exp": [name, args]}
                        break
                    continue
                where = ctl.wait_parked(th)
                # commands / callback-body directives of the event-loop thread
                if th == MAIN and where is not None:
                    if where[0] == "idle":
                        if cmd is None or act != "m_top":
                            self.divergence = {"step": i, "act": act, "kind": "gate", "exp": name, "obs": "idle"}
                            break
                        ctl.send(MAIN, ("cmd", cmd))
                        where = ctl.wait_parked(MAIN)
                    elif where[0] == "cb":
                        if act == "m_run" and cmd is not None:
                            ctl.send(MAIN, cmd if cmd[0] != "close" else ("close",))
                        else:
                            ctl.send(MAIN, ("return",))
                        where = ctl.wait_parked(MAIN)
                if where is None:
                    self.divergence = {"step": i, "act": act, "kind": "stuck", "exp": name,
                                       "obs": "thread %d reached no shim point" % th}
                    break
                gate_name = "sel_end" if name == "sel_err" else name     # EBADF is raised by the select call
                if where[0] != "gate" or where[1] != gate_name:
                    self.divergence = {"step": i, "act": act, "kind": "gate", "exp": name,
                                       "obs": list(where)}
                    break
                ctl.send(th, ("go", obs if gate_name == "sel_end" else None))
                if not ctl.wait_event(n0):
                    self.divergence = {"step": i, "act": act, "kind": "stuck", "exp": name, "obs": "no event logged"}
                    break
                e = H.events[n0]
                exp = {"a": name, "t": th}
                if args is not None:
                    exp["args"] = args
                if obs is not None and name != "sel_err":
                    exp["obs"] = obs
                got = {k: e.get(k) for k in exp}
                if name == "wsend" and isinstance(got.get("obs"), dict):
                    got["obs"] = {"ok": got["obs"].get("ok")}
                if name == "rel" and isinstance(got.get("obs"), dict):
                    got["obs"] = {"args": got["obs"].get("args"), "closing": got["obs"].get("closing")}
                if got != exp:
                    self.divergence = {"step": i, "act": act, "kind": "event", "exp": exp, "obs": e}
                    break
        except BaseException:
            self.fatal = traceback.format_exc()
        nsteps = len(H.events)
        ctl.release_all()
        self.done.wait(3 * drv.WATCHDOG)
        hang = H.hung or not self.done.is_set()
        with H.lock:
            ev = list(H.events)
            errors = list(H.errors)
        if self.fatal:
            errors.append("harness: " + self.fatal[-2000:])
        return {"id": self.tid, "cfg": {"nf": self.nf, "seed": self.seed}, "ev": ev, "errors": errors,
                "hang": bool(hang), "divergence": self.divergence, "forced_events": nsteps}


def force(args):
    tid, nf, steps = args
    return ForcedRun(tid, tid, nf, steps).drive()
