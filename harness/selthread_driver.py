"""Driver binding specs/selthread/SelectorThread.tla to the real tornado.platform.asyncio.SelectorThread (C40).

Primary binding is code -> spec.  The REAL SelectorThread runs with real threads and real
socketpairs; the module-level names `threading`, `select` and `socket` of tornado.platform.asyncio
are replaced (from here, nothing in the repository is edited) by tracing shims:

  threading.Condition  logs acq / wait / woke / notify / rel *while the condition's lock is held*
                       (rel carries a snapshot of _select_args / _closing_selector)
  threading.Thread     logs tstart / joined
  select.select        logs sel_begin(args) / sel_end(result)
  socket.socketpair    the waker sockets log wsend(ok) / wrecv(n); the syscall is made while
                       the harness lock is held, so its place in the log is exact
  loop.call_soon_threadsafe (of the loop object handed to SelectorThread) logs post / hs

Every event gets its sequence number under ONE harness lock, so the log is a total order that
is consistent with the real synchronisation order (see notes/selthread.md for the argument per
event).  The verdict never depends on wall-clock time: TLC decides whether the ordered log is a
behaviour of the specification.  Real time is used only (a) to perturb the OS schedule with
seeded random sleeps at the shim points and (b) as a watchdog that turns a hang into a
violation.

One recorded event = one PlusCal label step (no silent steps), see Trace_SelectorThread.tla.

User fds are registered as bare ints (as IOLoop.add_handler does); scenarios also close fds after
unregistering them, so the EBADF fallback of _run_select is exercised for real (`sel_err` events).
About 15 % of the runs shrink the waker's send buffer so that _wake_selector hits BlockingIOError.

The same shim points double as *gates* for the spec -> code direction (harness/selthread_s2c.py):
with a controller attached every thread parks in `Harness.gate(name)` before the event `name` and
is released one step at a time along a TLC behaviour.
"""
import asyncio
import random
import select as _real_select
import socket as _real_socket
import sys
import threading as _real_threading
import time
import traceback

from . import REPO  # noqa: F401  (puts the repo under test on sys.path)

WATCHDOG = 20.0       # seconds; only ever decides "hang", never the order of events
MAIN, SEL, ENV = 1, 2, 3
RAW_WAKER = 90


class Hang(Exception):
    pass


class Harness:
    """Event log + bookkeeping shared by the shims of one run."""

    def __init__(self, seed, nf, jitter=True):
        self.lock = _real_threading.Lock()
        self.events = []
        self.errors = []            # exceptions escaping tornado code / protocol breaches seen by the shims
        self.tids = {}
        self.seed = seed
        self.nf = nf
        self.jitter_on = jitter
        self.rngs = {}
        self.fdidx = {}             # fileno -> fd index (0 = waker, 1..nf user fds)
        self.ready = {"r": set(), "w": set(range(1, nf + 1))}
        self.mctx = "ss"            # what the main thread is doing when it enters the condition
        self.owner = None           # the SelectorThread
        self.hung = False
        self.cbcount = {}           # (kind, f) -> number of dispatches
        self.inel = {}              # (kind, f) -> number of times it stopped being eligible
        self.reg = {"r": set(), "w": set()}
        self.ctl = None             # harness/selthread_s2c.Controller when a TLC behaviour is being forced
        self.pending_hs = []        # controlled mode: posted _handle_select calls not yet delivered
        self.small_waker = False    # shrink the waker's send buffer so that sends hit BlockingIOError
        self.closedfds = set()      # user fds closed by the application (after unregistering them)
        self.waker_fileno = None

    # -- identity / schedule perturbation
    def tid(self):
        return self.tids.get(_real_threading.get_ident(), 9)

    def register_thread(self, idx):
        self.tids[_real_threading.get_ident()] = idx

    def jitter(self, p=0.35):
        if not self.jitter_on:
            return
        t = self.tid()
        r = self.rngs.get(t)
        if r is None:
            r = self.rngs[t] = random.Random(self.seed * 7919 + t)
        x = r.random()
        if x < p * 0.5:
            time.sleep(0)                       # yield
        elif x < p:
            time.sleep(r.choice((0.00005, 0.0002, 0.0005, 0.001)))

    def gate(self, name):
        """Shim point in front of event `name`.  Free mode: seeded schedule perturbation.
        Controlled mode (spec -> code): park until the controller lets this thread take the step;
        returns the controller's message (carries the select result chosen by the behaviour)."""
        c = self.ctl
        if c is not None and c.active:
            return c.park(self.tid(), ("gate", name))
        self.jitter()
        return None

    # -- log
    def _append(self, a, args, obs):
        e = {"a": a, "t": self.tid()}
        if args is not None:
            e["args"] = args
        if obs is not None:
            e["obs"] = obs
        self.events.append(e)
        if self.ctl is not None:
            self.ctl.logged()

    def ev(self, a, args=None, obs=None):
        with self.lock:
            self._append(a, args, obs)

    def idx(self, fd):
        if isinstance(fd, int):
            if fd == self.waker_fileno:
                return RAW_WAKER            # the bare fileno of _waker_r is not the key under which it is registered
            return self.fdidx.get(fd, 99)
        try:
            n = fd.fileno()
        except Exception:
            return 99
        return 0 if n == self.waker_fileno else 99

    def idxs(self, fds):
        return [self.idx(f) for f in fds]

    def error(self, what):
        with self.lock:
            self.errors.append(what)


# ---------------------------------------------------------------------------- shims

def make_threading_shim(H):
    class TCondition:
        def __init__(self, lock=None):
            self._c = _real_threading.Condition(lock)
            self._forced_waiters = []

        def _snap(self):
            o = H.owner
            try:
                a = o._select_args
                if a is None:
                    args = {"some": False, "r": [], "w": []}
                else:
                    args = {"some": True, "r": sorted(H.idxs(a[0])), "w": sorted(H.idxs(a[1]))}
                return {"args": args, "closing": bool(o._closing_selector)}
            except Exception as e:          # a changed data layout is an observation, not a crash
                return {"args": {"some": False, "r": [98], "w": []}, "closing": False, "snap_err": type(e).__name__}

        def acquire(self, *a, **k):
            H.gate("acq")
            r = self._c.acquire(*a, **k)
            if r:
                H.ev("acq", args=[H.mctx if H.tid() == MAIN else "s"])
            H.jitter()
            return r

        def release(self):
            H.gate("rel")
            H.ev("rel", obs=self._snap())
            self._c.release()
            H.jitter()

        def __enter__(self):
            self.acquire()
            return self

        def __exit__(self, *a):
            self.release()

        def wait(self, timeout=None):
            H.gate("wait")
            H.ev("wait")
            if H.ctl is not None and H.ctl.active and timeout is None:
                # controlled mode: same protocol as threading.Condition.wait (waiter event, release,
                # block, re-acquire) but the re-acquire happens only when the behaviour takes the
                # "woke" step, so the notifier (or anyone else) may win the lock first
                w = _real_threading.Event()
                self._forced_waiters.append(w)
                self._c.release()
                ok = w.wait(WATCHDOG)
                if ok:
                    H.gate("woke")
                self._c.acquire()
                if not ok:
                    H.hung = True
                    H.ev("hang", args=["cond.wait"])
                    raise Hang("condition wait never notified")
                H.ev("woke")
                return True
            r = self._c.wait(WATCHDOG if timeout is None else timeout)
            if timeout is None and not r:
                H.hung = True
                H.ev("hang", args=["cond.wait"])
                raise Hang("condition wait never notified")
            H.gate("woke")
            H.ev("woke")
            H.jitter()
            return r

        def notify(self, n=1):
            H.gate("notify")
            H.ev("notify")
            if self._forced_waiters:
                self._forced_waiters.pop(0).set()
            self._c.notify(n)

        def notify_all(self):
            H.ev("notify")
            self._c.notify_all()

    class TThread(_real_threading.Thread):
        def start(self):
            H.gate("tstart")
            H.ev("tstart")
            super().start()
            H.jitter()

        def run(self):
            H.register_thread(SEL)
            try:
                H.jitter()
                super().run()
            except Hang:
                pass
            except BaseException:
                H.error("selector thread: " + traceback.format_exc()[-1500:])

        def join(self, timeout=None):
            H.gate("joined")
            super().join(WATCHDOG if timeout is None else timeout)
            if self.is_alive() and timeout is None:
                H.hung = True
                H.ev("hang", args=["join"])
                raise Hang("selector thread did not stop")
            H.ev("joined")

    class Shim:
        Condition = TCondition
        Thread = TThread

        def __getattr__(self, name):
            return getattr(_real_threading, name)

    return Shim()


def make_socket_shim(H):
    class TSock:
        """A waker socket: send/recv are logged with the syscall made under the harness lock."""

        def __init__(self, s):
            self._s = s

        def send(self, data):
            H.gate("wsend")
            with H.lock:
                try:
                    n = self._s.send(data)
                except BlockingIOError:
                    H._append("wsend", None, {"ok": False})
                    raise
                H._append("wsend", None, {"ok": True, "n": n})
            H.jitter()
            return n

        def recv(self, n):
            H.gate("wrecv")
            with H.lock:
                try:
                    d = self._s.recv(n)
                except BlockingIOError:
                    H._append("wrecv", None, {"n": 0})
                    raise
                H._append("wrecv", None, {"n": len(d)})
            return d

        def __getattr__(self, name):
            return getattr(self._s, name)

    class Shim:
        def socketpair(self, *a, **k):
            r, w = _real_socket.socketpair(*a, **k)
            if H.small_waker:
                w.setsockopt(_real_socket.SOL_SOCKET, _real_socket.SO_SNDBUF, 1)   # clamps to ~6 one-byte sends
            H.waker_fileno = r.fileno()
            H.waker_pair = (r, w)
            return TSock(r), TSock(w)

        def __getattr__(self, name):
            return getattr(_real_socket, name)

    return Shim()


def make_select_shim(H):
    class Shim:
        error = _real_select.error

        def select(self, r, w, x, timeout=None):
            H.gate("sel_begin")
            H.ev("sel_begin", args={"r": sorted(H.idxs(r)), "w": sorted(H.idxs(w))})
            m = H.gate("sel_end")
            if m is not None and m[0] == "go" and m[1] is not None:
                if m[1].get("err"):
                    timeout = 0          # the behaviour takes the EBADF branch: the real call raises at once
                else:
                    return self._forced(r, w, x, m[1])
            t0 = time.monotonic()
            try:
                rs, ws, xs = _real_select.select(r, w, x, WATCHDOG if timeout is None else timeout)
            except BaseException as e:
                H.ev("sel_err", args=[type(e).__name__, getattr(e, "errno", None) or 0])
                raise
            if timeout is None and not (rs or ws or xs) and time.monotonic() - t0 >= WATCHDOG * 0.9:
                H.hung = True
                H.ev("hang", args=["select"])
                raise Hang("select never returned")
            H.jitter()
            H.ev("sel_end", obs={"rs": H.idxs(rs), "ws": H.idxs(list(ws) + list(xs))})
            H.jitter()
            return rs, ws, xs

        def _forced(self, r, w, x, want):
            """Controlled mode: the behaviour chose the result (any legal one: order and, for fds
            that became ready during the call, membership are the kernel's choice).  It is checked
            against the real kernel state and returned in the chosen order."""
            alive = lambda fds: [f for f in fds if H.idx(f) not in H.closedfds]
            rs, ws, xs = _real_select.select(alive(r), alive(w), alive(x), 0)
            byidx_r = {H.idx(f): f for f in r}
            byidx_w = {H.idx(f): f for f in w}
            real_r, real_w = set(H.idxs(rs)), set(H.idxs(list(ws) + list(xs)))
            if not (set(want["rs"]) - H.closedfds <= real_r and set(want["ws"]) - H.closedfds <= real_w):
                H.error("forced select: behaviour wants %r but the kernel reports r=%r w=%r"
                        % (want, sorted(real_r), sorted(real_w)))
            out_r = [byidx_r[i] for i in want["rs"] if i in byidx_r]
            out_w = [byidx_w[i] for i in want["ws"] if i in byidx_w]
            H.ev("sel_end", obs={"rs": H.idxs(out_r), "ws": H.idxs(out_w)})
            return out_r, out_w, []

        def __getattr__(self, name):
            return getattr(_real_select, name)

    return Shim()


class TLoop(asyncio.SelectorEventLoop):
    """The `real_loop` handed to SelectorThread; logs the hand-over of select results."""

    H = None

    def call_soon_threadsafe(self, callback, *args, context=None):
        H = self.H
        if H is not None and getattr(callback, "__name__", "") == "_handle_select":
            rs, ws = args
            H.gate("post")
            irs, iws = H.idxs(rs), H.idxs(ws)       # now: the waker may be closed when the callback runs

            def handle_select(rs, ws, _cb=callback):
                H.gate("hs")
                H.ev("hs", args={"rs": irs, "ws": iws})
                _cb(rs, ws)

            if H.ctl is not None and H.ctl.active:
                # controlled mode: the behaviour decides when the loop delivers the callback
                with H.lock:
                    H._append("post", {"rs": irs, "ws": iws}, None)
                    H.pending_hs.append((handle_select, rs, ws))
                return None
            H.ev("post", args={"rs": irs, "ws": iws})
            return super().call_soon_threadsafe(handle_select, rs, ws, context=context)
        return super().call_soon_threadsafe(callback, *args, context=context)


# ---------------------------------------------------------------------------- one recorded run

class Run:
    """One seeded scenario on the real SelectorThread.  `record()` returns the trace dict
    {"id", "cfg", "ev", "errors", "hang"}."""

    def __init__(self, tid, seed, nf=3, nops=12, nenv=8, jitter=True, max_events=700):
        self.tid = tid
        self.seed = seed
        self.nf = nf
        self.rng = random.Random(seed)
        self.nops = nops
        self.nenv = nenv
        self.max_events = max_events
        self.H = Harness(seed, nf, jitter)
        self.socks = {}
        self.fdnum = {}
        self.peers = {}
        self.done = _real_threading.Event()
        self.fatal = None
        self.closed = False
        self.close_called = False
        self.atexit_called = False
        self.env_stop = False
        self.H.small_waker = self.rng.random() < 0.15

    # -- environment actions (any thread; exact position in the log: syscall under the harness lock)
    def env_ready(self, k, f):
        H = self.H
        with H.lock:
            if f in H.ready[k] or f in H.closedfds:
                return False
            if k == "r":
                self.peers[f].send(b"x")
            else:
                try:
                    while self.peers[f].recv(65536):
                        pass
                except BlockingIOError:
                    pass
            H.ready[k].add(f)
            H._append("ready", [k, f], None)
        return True

    def consume(self, k, f):
        """Callback body on the event-loop thread: drain (reader) / fill (writer) fd f."""
        H = self.H
        H.gate("consume")
        with H.lock:
            if f not in H.ready[k]:
                return False
            try:
                if k == "r":
                    while self.socks[f].recv(65536):
                        pass
                else:
                    while True:
                        self.socks[f].send(b"y" * 4096)
            except BlockingIOError:
                pass
            H.ready[k].discard(f)
            H.inel[(k, f)] = H.inel.get((k, f), 0) + 1
            H._append("consume", [k, f], None)
        return True

    def reg_op(self, op, k, f):
        H = self.H
        if op == "add" and f in H.closedfds:
            op = "rem"                   # the application never registers an fd it has closed
        H.gate("reg")
        H.ev("reg", args=[op, k, f])
        st = self.st
        fd = self.fdnum[f]               # registered as bare ints, as IOLoop.add_handler does
        if op == "add":
            (st.add_reader if k == "r" else st.add_writer)(fd, self._callback, k, f)
            H.reg[k].add(f)
        else:
            (st.remove_reader if k == "r" else st.remove_writer)(fd)
            if f in H.reg[k]:
                H.reg[k].discard(f)
                H.inel[(k, f)] = H.inel.get((k, f), 0) + 1

    def close_fd(self, f=None):
        """The application closes a user fd that is registered nowhere (the situation the EBADF
        branch of _run_select exists for: the selector thread may still hold it)."""
        H = self.H
        if f is None:
            cand = [g for g in range(1, self.nf + 1)
                    if g not in H.closedfds and g not in H.reg["r"] and g not in H.reg["w"]]
            if not cand:
                return False
            f = self.rng.choice(cand)
        H.gate("fdclose")
        with H.lock:
            self.socks[f].close()
            H.closedfds.add(f)
            H.ready["r"].discard(f)
            H.ready["w"].discard(f)
            H._append("fdclose", [f], None)
        return True

    def do_close(self, how):
        H = self.H
        H.mctx = how
        try:
            if how == "close":
                self.close_called = True
                self.st.close()
                alive = self.st._thread is not None and self.st._thread.is_alive()
                H.gate("closed")
                H.ev("closed", obs={"alive": bool(alive)})
                self.closed = True
            else:
                self.atexit_called = True
                self.amod._atexit_callback()
        finally:
            H.mctx = "ss"

    # -- application callbacks registered with add_reader / add_writer
    def _callback(self, k, f):
        H = self.H
        H.gate("cb")
        H.ev("cb", args=[k, f])
        H.cbcount[(k, f)] = H.cbcount.get((k, f), 0) + 1
        if H.tid() != MAIN:
            return                       # never touch loop-thread state from a foreign thread
        rng = self.rng
        while H.ctl is not None and H.ctl.active:
            # controlled mode: the behaviour scripts the callback body
            m = H.ctl.park(MAIN, ("cb", k, f))
            if m[0] == "consume":
                self.consume(k, f)
            elif m[0] == "reg":
                self.reg_op(*m[1:])
            elif m[0] == "close":
                self.do_close("close")
            elif m[0] == "closefd":
                self.close_fd(m[1])
            elif m[0] == "return":
                return
            else:
                break                    # released: finish in free mode
        quench = len(H.events) > self.max_events or self.finishing
        H.jitter()
        if quench:
            self.consume(k, f)
            if k == "w" or rng.random() < 0.5:
                self.reg_op("rem", k, f)
            return
        n = 0
        while n < 3:
            n += 1
            x = rng.random()
            if x < (0.55 if k == "r" else 0.25):
                self.consume(k, f)
            elif x < (0.70 if k == "r" else 0.75):
                # typical: a writer unregisters itself; sometimes anything else
                if k == "w" and rng.random() < 0.7:
                    self.reg_op("rem", "w", f)
                else:
                    self.reg_op(rng.choice(("add", "rem")), rng.choice("rw"), rng.randint(1, self.nf))
            elif x < (0.73 if k == "r" else 0.78) and not self.close_called and self.allow_cb_close:
                self.do_close("close")
            elif x < (0.80 if k == "r" else 0.85) and self.allow_fdclose:
                self.close_fd()
            else:
                break
            H.jitter()

    # -- scenario
    def _plan(self):
        rng = self.rng
        ops = []
        for _ in range(rng.randint(self.nops // 2, self.nops)):
            ops.append(("reg", rng.choice(("add", "add", "add", "rem")), rng.choice("rrw"), rng.randint(1, self.nf)))
        x = rng.random()
        self.allow_cb_close = x < 0.15
        self.pre_close = x >= 0.15 and x < 0.20           # close() before the loop ever runs
        self.use_atexit = rng.random() < 0.2
        self.pre_ops = [ops.pop() for _ in range(min(len(ops), rng.choice((0, 0, 1, 2))))]
        if self.H.small_waker:          # enough wake-ups before the selector thread exists to fill the buffer
            self.pre_ops += [("reg", "add", rng.choice("rw"), rng.randint(1, self.nf)) for _ in range(rng.randint(5, 9))]
        self.post_ops = [("reg", rng.choice(("add", "rem")), rng.choice("rw"), rng.randint(1, self.nf))
                         for _ in range(rng.choice((0, 0, 1, 2)))]
        self.allow_fdclose = rng.random() < 0.4
        if self.allow_fdclose:
            for _ in range(rng.choice((1, 1, 2))):
                ops.insert(rng.randint(0, len(ops)), ("closefd",))
        self.ops = ops
        self.env_ops = [(rng.choice("rrrw"), rng.randint(1, self.nf)) for _ in range(rng.randint(self.nenv // 2, self.nenv))]

    def _env_thread(self):
        H = self.H
        H.register_thread(ENV)
        rng = random.Random(self.seed * 31 + 5)
        try:
            for k, f in self.env_ops:
                if self.env_stop:
                    break
                time.sleep(rng.choice((0, 0, 0.0002, 0.0005, 0.001, 0.002)))
                self.env_ready(k, f)
        except BaseException:
            H.error("env thread: " + traceback.format_exc()[-1500:])

    def _main_thread(self):
        H = self.H
        H.register_thread(MAIN)
        import tornado.platform.asyncio as amod
        self.amod = amod
        saved = (amod.threading, amod.select, amod.socket)
        saved_loops = set(amod._selector_loops)
        amod._selector_loops.clear()
        loop = None
        try:
            amod.threading = make_threading_shim(H)
            amod.select = make_select_shim(H)
            amod.socket = make_socket_shim(H)
            loop = TLoop()
            loop.H = H
            loop.set_exception_handler(lambda lp, ctx: H.error(
                "loop: %s %r" % (ctx.get("message"), ctx.get("exception"))))
            for f in range(1, self.nf + 1):
                a, b = _real_socket.socketpair()
                a.setblocking(False)
                b.setblocking(False)
                a.setsockopt(_real_socket.SOL_SOCKET, _real_socket.SO_SNDBUF, 4096)
                self.socks[f], self.peers[f] = a, b
                self.fdnum[f] = a.fileno()
                H.fdidx[a.fileno()] = f
            self.finishing = False
            self._plan()
            self.st = st = amod.SelectorThread(loop)
            H.owner = st
            for op in self.pre_ops:
                self.reg_op(*op[1:])
            if self.pre_close:
                self.do_close("close")
            envt = _real_threading.Thread(target=self._env_thread, daemon=True)
            loop.call_soon(envt.start)
            loop.call_soon(self._next_step)
            loop.run_forever()
            self.env_stop = True
            envt.join(WATCHDOG)
            self._await_selector()
            # the documented shutdown path of the thread manager (GeneratorExit -> close(), a no-op now)
            loop.run_until_complete(loop.shutdown_asyncgens())
        except Hang as e:
            H.hung = True
            H.error("hang: %s" % e)
        except BaseException:
            self.fatal = traceback.format_exc()
        finally:
            amod.threading, amod.select, amod.socket = saved
            amod._selector_loops.clear()
            amod._selector_loops.update(saved_loops)
            try:
                if loop is not None and not H.hung:
                    loop.close()
            except Exception:
                pass
            for s in list(self.socks.values()) + list(self.peers.values()):
                try:
                    s.close()
                except Exception:
                    pass
            self.done.set()

    def _await_selector(self):
        """The scenario is over (closed): the log is complete only when the selector thread has
        returned (it may have been started after close() and not have run yet)."""
        th = self.st._thread
        if th is not None and not self.H.hung:
            _real_threading.Thread.join(th, WATCHDOG)
            if th.is_alive():
                self.H.hung = True
                self.H.ev("hang", args=["selector thread alive after close"])
                self.H.error("hang: selector thread still alive after close()")

    def _later(self, fn):
        d = self.rng.choice((0, 0, 0, 0.0002, 0.0005, 0.001))
        if d:
            self.loop.call_later(d, fn)
        else:
            self.loop.call_soon(fn)

    @property
    def loop(self):
        return self.st._real_loop

    def _next_step(self):
        """Top-level application callbacks, one per loop iteration (so _handle_select calls interleave)."""
        H = self.H
        if H.hung:
            self.loop.stop()
            return
        if self.ops and not self.closed:
            op = self.ops.pop(0)
            if op[0] == "closefd":
                # remove it everywhere first (each removal wakes the selector thread), then close it
                f = self.rng.randint(1, self.nf)
                if f not in H.closedfds:
                    for k in "rw":
                        if f in H.reg[k]:
                            self.reg_op("rem", k, f)
                    self.close_fd(f)
            else:
                self.reg_op(*op[1:])
            return self._later(self._next_step)
        if not self.close_called:
            if not getattr(self, "_waited", False):
                return self._wait_dispatch()
            if self.use_atexit and not self.atexit_called:
                self.do_close("atexit")
                return self._later(self._next_step)
            self.do_close("close")
            return self._later(self._next_step)
        if self.post_ops:
            op = self.post_ops.pop(0)
            self.reg_op(*op[1:])
            return self._later(self._next_step)
        # the selector thread is gone; whatever it posted is already queued in the loop: let it run
        self._drain = getattr(self, "_drain", 0) + 1
        if self._drain < 4:
            return self.loop.call_soon(self._next_step)
        self.loop.stop()

    def _wait_dispatch(self):
        """Liveness on the real code: every fd that is registered and ready now must be dispatched
        (or stop being registered / ready) before the scenario goes on to close."""
        H = self.H
        if not hasattr(self, "_wd"):
            self.finishing = True
            with H.lock:
                self._wd = {(k, f): (H.cbcount.get((k, f), 0), H.inel.get((k, f), 0))
                            for k in "rw" for f in H.reg[k] if f in H.ready[k]}
            self._wd_t0 = time.monotonic()
        with H.lock:
            pending = [kf for kf, (c, i) in self._wd.items()
                       if H.cbcount.get(kf, 0) == c and H.inel.get(kf, 0) == i]
        if not pending or self.st._thread is None:
            self._waited = True
            return self._later(self._next_step)
        if time.monotonic() - self._wd_t0 > WATCHDOG:
            H.hung = True
            H.ev("hang", args=["dispatch", [list(p) for p in pending]])
            H.error("hang: registered ready fds never dispatched: %r" % pending)
            self.loop.stop()
            return
        self.loop.call_later(0.0005, self._wait_dispatch)

    def record(self):
        t = _real_threading.Thread(target=self._main_thread, daemon=True)
        t.start()
        self.done.wait(3 * WATCHDOG)
        H = self.H
        hang = H.hung or not self.done.is_set()
        with H.lock:
            ev = list(H.events)
            errors = list(H.errors)
        if not self.done.is_set():
            frames = sys._current_frames()
            errors.append("hang: run did not finish; main thread at:\n" + "".join(
                traceback.format_stack(frames.get(t.ident))[-6:]) if t.ident in frames else "hang")
        if self.fatal:
            errors.append("harness: " + self.fatal[-2000:])
        return {"id": self.tid, "cfg": {"nf": self.nf, "seed": self.seed}, "ev": ev, "errors": errors,
                "hang": bool(hang)}


def record_run(args):
    tid, seed, nf, nops, nenv = args
    return Run(tid, seed, nf=nf, nops=nops, nenv=nenv).record()
