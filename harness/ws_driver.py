"""Drivers binding specs/ws/*.tla to tornado.websocket (C14, C15, C16, C17).

Substrate: a real web.Application + WebSocketHandler served through harness.httpsim.ServerConn
(MemStream), and the real client (websocket_connect) whose TCPClient is replaced by one handing
out a MemStream.  The harness is the remote peer (or a frame-level middlebox between the two real
endpoints).  Everything here is transport plumbing: building a frame from header bytes *produced
by the TLA+ codec* plus a payload, cutting an output byte stream at frame boundaries, applying the
4-byte mask, running zlib as the opaque permessage-deflate codec (DESIGN 3.6).  What a receiver
must do with a frame, what a handshake must answer, what a close handshake must look like is
decided by the specifications (WsReceiver / WsChannel / WsClose / WsHandshake) - the expected
projection of every step comes from TLC, and recorded runs are judged by TLC.
"""
import base64
import hashlib
import zlib

from . import REPO  # noqa: F401
from .httpsim import ServerConn, LogCapture
from .memstream import MemStream
from .vloop import Env

GUID = b"258EAFA5-E914-47DA-95CA-C5AB0DC85B11"
KEY = "dGhlIHNhbXBsZSBub25jZQ=="          # RFC 6455 sample nonce
MASK_KEY = bytes([55, 250, 33, 61])      # RFC 6455 sample masking key (the codec spec's default)


class HandshakeFailed(Exception):
    """The opening handshake of a set-up the specification expects to work did not complete.  It is
    an observation about the code under test (replayers turn it into a divergence, recorders into a
    trace event no specification action explains), never a harness failure."""

    def __init__(self, where, detail):
        Exception.__init__(self, "%s: %s" % (where, detail))
        self.where = where
        self.detail = str(detail)[:400]


def accept_for(key):
    """RFC 6455 accept value recomputed with the stdlib (opaque-function oracle, DESIGN 3.6)."""
    if isinstance(key, str):
        key = key.encode("latin1")
    return base64.b64encode(hashlib.sha1(key + GUID).digest()).decode("ascii")


def xor_mask(key, data):
    """Transport plumbing: apply a 4-byte mask (C18 checks Tornado's own routines against MaskRef)."""
    if not data:
        return b""
    n = len(data)
    k = (key * (n // 4 + 1))[:n]
    return (int.from_bytes(data, "big") ^ int.from_bytes(k, "big")).to_bytes(n, "big")


def filler(n, salt=0):
    """Deterministic payload for control frames."""
    return bytes((i * 7 + salt) % 251 for i in range(n))


def build_frame(hdr, payload):
    """hdr: header bytes from the TLA+ codec (including the mask key when the MASK bit is set)."""
    hdr = bytes(hdr)
    if hdr[1] & 0x80:
        return hdr + xor_mask(hdr[-4:], payload)
    return hdr + payload


def split_frames(data):
    """Cut a byte stream at frame boundaries (plumbing, not an oracle: the header bytes are handed
    to the TLA+ codec for interpretation wherever a property depends on them).
    Returns ([(hdr_without_key, key_or_None, payload_unmasked)], rest)."""
    out = []
    pos = 0
    n = len(data)
    while True:
        if n - pos < 2:
            break
        b1 = data[pos + 1]
        ln = b1 & 0x7F
        ext = 0
        if ln == 126:
            ext = 2
        elif ln == 127:
            ext = 8
        if n - pos < 2 + ext:
            break
        if ext:
            ln = int.from_bytes(data[pos + 2:pos + 2 + ext], "big")
        klen = 4 if b1 & 0x80 else 0
        total = 2 + ext + klen + ln
        if n - pos < total:
            break
        hdr = data[pos:pos + 2 + ext]
        key = data[pos + 2 + ext:pos + 2 + ext + klen] if klen else None
        payload = data[pos + 2 + ext + klen:pos + total]
        if key:
            payload = xor_mask(key, payload)
        out.append((bytes(hdr), key, bytes(payload)))
        pos += total
    return out, bytes(data[pos:])


def opcode(hdr):
    return hdr[0] & 0x0F


def fin(hdr):
    return hdr[0] >> 7


def rsv(hdr):
    return (hdr[0] >> 4) & 7


def deflate_message(data, level=6, wbits=15, mem=8, comp=None):
    """permessage-deflate encoding of one message with the stdlib (opaque codec)."""
    c = comp or zlib.compressobj(level, zlib.DEFLATED, -wbits, mem)
    out = c.compress(data) + c.flush(zlib.Z_SYNC_FLUSH)
    assert out.endswith(b"\x00\x00\xff\xff")
    return out[:-4]


class FakeTCPClient:
    """Stands in for tornado.tcpclient.TCPClient inside tornado.websocket: connect() hands out the
    MemStream prepared by the harness."""
    next_stream = None
    connects = []

    def __init__(self, resolver=None):
        self.closed = 0

    async def connect(self, host, port, af=None, ssl_options=None, max_buffer_size=None, source_ip=None,
                      source_port=None, timeout=None):
        FakeTCPClient.connects.append((host, port))
        s = FakeTCPClient.next_stream
        FakeTCPClient.next_stream = None
        if isinstance(s, Exception):
            raise s
        return s

    def close(self):
        self.closed += 1


def _events_handler_class(events, opts):
    """A WebSocketHandler subclass logging every application-visible callback into `events`."""
    from tornado import websocket, gen

    class H(websocket.WebSocketHandler):
        def initialize(self):
            events.append(("init", self))

        def open(self, *a, **kw):
            events.append(("open",))
            opts["handler"] = self

        def on_message(self, message):
            events.append(("msg", message))
            gate = opts.get("gate")
            if gate is not None:
                return gate(self, message)
            return None

        def on_close(self):
            events.append(("close", self.close_code, self.close_reason))

        def on_ping(self, data):
            events.append(("ping", bytes(data)))

        def on_pong(self, data):
            events.append(("pong", bytes(data)))

        def get_compression_options(self):
            return opts.get("compression")

        def select_subprotocol(self, subprotocols):
            events.append(("select", list(subprotocols)))
            sel = opts.get("select")
            if sel is None:
                return None
            return sel(subprotocols)

        def log_exception(self, typ, value, tb):
            events.append(("exception", typ.__name__))

    if "check_origin" in opts:
        H.check_origin = lambda self, origin: opts["check_origin"](origin)
    return H


class ServerSide:
    """Real Application + WebSocketHandler; the harness is the client peer."""

    def __init__(self, env, compression=None, settings=None, gate=None, select=None, path="/ws"):
        from tornado import web, httpserver
        self.env = env
        self.events = []
        self.opts = {"compression": compression, "gate": gate, "select": select}
        self.H = _events_handler_class(self.events, self.opts)
        self.app = web.Application([(path, self.H)], **(settings or {}))
        self.server = httpserver.HTTPServer(self.app)
        self.conn = ServerConn(env, self.server)
        self.stream = self.conn.stream
        self.path = path
        self.rest = b""
        self.response_head = None

    def request(self, headers, path=None, version="HTTP/1.1"):
        """Send an upgrade request made of (name, value) pairs; returns the raw response head
        (bytes up to and including the blank line) or None if nothing complete was answered."""
        lines = ["GET %s %s" % (path or self.path, version)]
        for n, v in headers:
            lines.append("%s: %s" % (n, v))
        raw = ("\r\n".join(lines) + "\r\n\r\n").encode("latin1")
        self.conn.send(raw)
        out = bytes(self.stream.out)
        end = out.find(b"\r\n\r\n")
        if end < 0:
            return None
        self.response_head = out[:end + 4]
        del self.stream.out[:end + 4]
        return self.response_head

    def handshake(self, extensions=None, extra=()):
        h = [("Host", "example.com"), ("Upgrade", "websocket"), ("Connection", "Upgrade"),
             ("Sec-WebSocket-Key", KEY), ("Sec-WebSocket-Version", "13")]
        if extensions:
            h.append(("Sec-WebSocket-Extensions", extensions))
        h.extend(extra)
        head = self.request(h)
        if head is None or not head.startswith(b"HTTP/1.1 101"):
            raise HandshakeFailed("server", "answered %r" % (head[:200] if head else head,))
        return head

    @property
    def handler(self):
        return self.opts.get("handler")

    def feed(self, data):
        if not self.stream.closed():
            self.stream.feed(data)
        else:
            self.env.settle()

    def take_frames(self):
        data = self.rest + self.stream.take_out()
        frames, self.rest = split_frames(data)
        return frames

    def closed(self):
        return self.stream.closed()

    def peer_eof(self):
        self.conn.peer_close()


class ClientSide:
    """Real websocket_connect over a MemStream; the harness is the server peer."""

    def __init__(self, env, mode="cb", compression=None, subprotocols=None, url="ws://example.com/ws", **kw):
        from tornado import websocket
        self.env = env
        self.events = []
        self.mode = mode
        self.stream = MemStream(env)
        FakeTCPClient.next_stream = self.stream
        self._saved = websocket.TCPClient
        websocket.TCPClient = FakeTCPClient
        try:
            cb = None
            if mode == "cb":
                cb = self._on_message
            self.fut = websocket.websocket_connect(url, on_message_callback=cb, compression_options=compression,
                                                   subprotocols=subprotocols, **kw)
            env.settle()
            self.stream.pump()
        finally:
            websocket.TCPClient = self._saved
        self.rest = b""
        self.request_head = None
        self.conn = None
        self.read_fut = None
        self.eof_seen = False

    def _on_message(self, m):
        if m is None:
            self.events.append(("close", self.conn.close_code if self.conn else None,
                                self.conn.close_reason if self.conn else None))
        else:
            self.events.append(("msg", m))

    def take_request(self):
        out = bytes(self.stream.out)
        end = out.find(b"\r\n\r\n")
        if end < 0:
            return None
        self.request_head = out[:end + 4]
        del self.stream.out[:end + 4]
        return self.request_head

    def request_headers(self):
        head = self.request_head or self.take_request()
        hs = {}
        for ln in head.decode("latin1").split("\r\n")[1:]:
            if ln:
                n, _, v = ln.partition(":")
                hs[n.strip().lower()] = v.strip()
        return hs

    def respond(self, status_line, headers):
        lines = [status_line] + ["%s: %s" % (n, v) for n, v in headers]
        self.stream.feed(("\r\n".join(lines) + "\r\n\r\n").encode("latin1"))
        self.env.settle()
        if self.fut.done() and not self.fut.cancelled() and self.fut.exception() is None:
            self.conn = self.fut.result()
        return self.connect_state()

    def connect_state(self):
        if not self.fut.done():
            return "pending"
        if self.fut.cancelled():
            return "cancelled"
        e = self.fut.exception()
        return "ok" if e is None else "exc:" + type(e).__name__

    def handshake(self, extensions=None, extra=()):
        key = self.request_headers()["sec-websocket-key"]
        h = [("Upgrade", "websocket"), ("Connection", "Upgrade"), ("Sec-WebSocket-Accept", accept_for(key))]
        if extensions:
            h.append(("Sec-WebSocket-Extensions", extensions))
        h.extend(extra)
        st = self.respond("HTTP/1.1 101 Switching Protocols", h)
        if st != "ok":
            raise HandshakeFailed("client", "connect future %s" % st)
        return st

    def drain(self):
        """read_message mode: pull everything that is deliverable now."""
        if self.mode != "read" or self.conn is None:
            return
        for _ in range(100000):
            if self.eof_seen:
                return
            if self.read_fut is None:
                self.read_fut = self.conn.read_message()
                if not hasattr(self.read_fut, "done"):
                    import asyncio
                    self.read_fut = asyncio.ensure_future(self.read_fut)
            self.env.settle()
            self.stream.pump()
            if not self.read_fut.done():
                return
            m = self.read_fut.result()
            self.read_fut = None
            if m is None:
                self.eof_seen = True
                self.events.append(("close", self.conn.close_code, self.conn.close_reason))
            else:
                self.events.append(("msg", m))

    def feed(self, data):
        if not self.stream.closed():
            self.stream.feed(data)
        else:
            self.env.settle()
        self.drain()

    def take_frames(self):
        data = self.rest + self.stream.take_out()
        frames, self.rest = split_frames(data)
        return frames

    def closed(self):
        return self.stream.closed()

    def peer_eof(self):
        if not self.stream.closed():
            self.stream.feed_eof()
        self.drain()


# ---------------------------------------------------------------------------------------------
# Message catalogue (WsReceiver.Msgs): python holds the bytes, TLC gets the lengths / flags.

class Catalog:
    """entries: id -> dict(kind, data (decoded bytes), wire (bytes on the wire), comp, utf8ok)."""

    def __init__(self, entries):
        self.by_id = {}
        self.by_content = {}
        for i, (kind, data, comp) in enumerate(entries, 1):
            wire = deflate_message(data, level=6, wbits=9) if comp else data
            try:
                data.decode("utf-8")
                ok = True
            except UnicodeDecodeError:
                ok = False
            self.by_id[i] = {"id": i, "kind": kind, "data": data, "wire": wire, "comp": comp, "utf8ok": ok}
            self.by_content.setdefault((kind, data), i)

    def rows(self):
        return [{"id": e["id"], "kind": e["kind"], "dlen": len(e["data"]), "wlen": len(e["wire"]),
                 "comp": e["comp"], "utf8ok": e["utf8ok"]} for e in self.by_id.values()]

    def write(self, path):
        import json
        with open(path, "w") as f:
            for r in self.rows():
                f.write(json.dumps(r) + "\n")
        return path

    def canon_id(self, i):
        """Entries with equal (kind, content) are the same message for the application."""
        e = self.by_id.get(i)
        return self.by_content[(e["kind"], e["data"])] if e else i

    def canon_delivered(self, delivered):
        return [{"kind": d["kind"], "id": self.canon_id(d["id"])} for d in delivered]

    def ident(self, message):
        """Catalogue identity of a delivered message: [kind, id]; id = 0 for unknown content."""
        if isinstance(message, str):
            kind, data = "text", message.encode("utf-8", "surrogatepass")
        else:
            kind, data = "binary", bytes(message)
        return {"kind": kind, "id": self.by_content.get((kind, data), 0)}


def _incompressible(n, salt=1):
    return hashlib.sha256(b"verif-ws-%d" % salt).digest()[:n] if n <= 32 else \
        b"".join(hashlib.sha256(b"verif-ws-%d-%d" % (salt, i)).digest() for i in range(n // 32 + 1))[:n]


def catalog_limits(limit=10):
    """C15 catalogue around max_message_size = limit (limit, limit + 1, compressed and plain)."""
    return Catalog([
        ("text", b"abc", False),
        ("binary", _incompressible(limit, 2), False),
        ("binary", _incompressible(limit + 1, 3), False),
        ("text", b"\xff\xfeab", False),
        ("text", b"", False),
        ("binary", b"a" * limit, True),
        ("binary", b"a" * (limit + 1), True),
        ("text", b"hello!", True),
        ("binary", _incompressible(limit - 1, 4), True),
        ("text", b"ab\xc3\x28", True),
    ])


def _utf8_trim(b, n):
    """Cut to n bytes without splitting a multi-byte character (pad with ASCII)."""
    b = b[:n]
    while True:
        try:
            b.decode("utf-8")
            return b + b"y" * (n - len(b))
        except UnicodeDecodeError:
            b = b[:-1]


def catalog_boundaries(lens=(0, 1, 125, 126, 65535, 65536), comp=True, slim=False):
    """C14 catalogue: boundary lengths x {text, binary} x {plain, compressed}; slim: only
    (text, plain) and (binary, compressed) per length."""
    ent = []
    for n in lens:
        text = (("héllo wörld " * (n // 12 + 1)).encode("utf-8"))[:n]
        ctext = (("wörld héllo, " * (n // 12 + 1)).encode("utf-8"))[:n]
        text, ctext = _utf8_trim(text, n), _utf8_trim(ctext, n)
        cbinary = _incompressible(n, 9) if n <= 4096 else (_incompressible(2048, 9) + b"\x00" * (n - 4096) + _incompressible(2048, 10))
        binary = _incompressible(n, 7) if n <= 4096 else (_incompressible(2048, 7) + b"\x00" * (n - 4096) + _incompressible(2048, 8))
        ent.append(("text", text, False))
        if not slim:
            ent.append(("binary", binary, False))
        if comp:
            if not slim:
                ent.append(("text", ctext, True))
            ent.append(("binary", cbinary, True))
    # the same content must not appear twice with the same kind/comp: ident() maps content -> first id
    return Catalog(ent)


# ---------------------------------------------------------------------------------------------
# Replaying WsReceiver paths into the real receiver (C14 b, C15)

SERVER_OFFERS = [
    "permessage-deflate",
    "permessage-deflate; client_max_window_bits",
    "permessage-deflate; client_no_context_takeover; server_no_context_takeover",
    "permessage-deflate; client_max_window_bits=9",
    "permessage-deflate; client_no_context_takeover; client_max_window_bits=12; server_max_window_bits=10",
    "permessage-deflate; server_max_window_bits=15; client_max_window_bits=15",
]
CLIENT_RESPONSES = [
    "permessage-deflate",
    "permessage-deflate; server_no_context_takeover",
    "permessage-deflate; server_max_window_bits=9",
    "permessage-deflate; server_no_context_takeover; client_no_context_takeover; server_max_window_bits=11",
    "permessage-deflate; client_max_window_bits=10; server_max_window_bits=15",
]


def chunked(data, mode, rng):
    if mode == 0 or len(data) < 2:
        return [data]
    if mode == 1:
        k = 2 if len(data) > 2 else 1
        return [data[:k], data[k:]]
    if mode == 2 and len(data) <= 48:
        return [data[i:i + 1] for i in range(len(data))]
    cuts = sorted(set(rng.randrange(1, len(data)) for _ in range(3)))
    out, last = [], 0
    for c in cuts:
        out.append(data[last:c])
        last = c
    out.append(data[last:])
    return [c for c in out if c]


class ReceiverReal:
    """The real WebSocketProtocol13 receiver (server or client role) behind WsReceiver's `recv`."""

    def __init__(self, cfg, cat, role="server", mode="cb", grid=0, chunk_mode=0, seed=0):
        self.env = None
        try:
            self._init(cfg, cat, role=role, mode=mode, grid=grid, chunk_mode=chunk_mode, seed=seed)
        except HandshakeFailed:
            if self.env is not None:
                self.env.close()
            raise

    def _init(self, cfg, cat, role="server", mode="cb", grid=0, chunk_mode=0, seed=0):
        import random
        self.cfg, self.cat, self.role = cfg, cat, role
        self.rng = random.Random(seed)
        self.chunk_mode = chunk_mode
        self.env = Env()
        self.pings = []
        self.sent1009 = False
        self.pongs = []
        deflate = cfg["deflate"]
        if role == "server":
            self.side = ServerSide(self.env, compression={} if deflate else None,
                                   settings={"websocket_max_message_size": cfg["maxMsg"]})
            self.side.handshake(extensions=SERVER_OFFERS[grid % len(SERVER_OFFERS)] if deflate else None)
        else:
            self.side = ClientSide(self.env, mode=mode, compression={} if deflate else None,
                                   max_message_size=cfg["maxMsg"])
            self.side.handshake(extensions=CLIENT_RESPONSES[grid % len(CLIENT_RESPONSES)] if deflate else None)

    def payload(self, f):
        if f["mid"]:
            return self.cat.by_id[f["mid"]]["wire"][f["lo"]:f["lo"] + f["len"]]
        if f["op"] == 8:
            return b"\x03\xe8"[:f["len"]]
        return filler(f["len"], len(self.pings))

    def step(self, act, args):
        f = args[0]
        pl = self.payload(f)
        if f["op"] == 9 and not self.side.closed():
            self.pings.append(pl)
        data = build_frame(f["hm"] if self.role == "server" else f["hu"], pl)
        for c in chunked(data, self.chunk_mode, self.rng):
            self.side.feed(c)
        return self.proj()

    def proj(self):
        for hdr, key, pl in self.side.take_frames():
            if opcode(hdr) == 8 and pl[:2] == b"\x03\xf1":
                self.sent1009 = True
            elif opcode(hdr) == 10:
                k = len(self.pongs)
                same = k < len(self.pings) and self.pings[k] == pl
                self.pongs.append(len(pl) if same else -1)
        return {"delivered": [self.cat.ident(e[1]) for e in self.side.events if e[0] == "msg"],
                "closed": bool(self.side.closed()), "sent1009": self.sent1009, "pongs": list(self.pongs)}

    def close(self):
        self.env.close()


# ---------------------------------------------------------------------------------------------
# Real client <-> real server with the harness as frame-level middlebox (C14 a, WsChannel)

def encode_header(fin_, rsv_, op, masked, n, key=MASK_KEY):
    """Middlebox plumbing; cross-checked against WsFrameCodec.EncodeHeader by the C14 check
    (TLC-enumerated header table) before it is used."""
    b0 = (fin_ << 7) | (rsv_ << 4) | op
    m = 0x80 if masked else 0
    if n < 126:
        h = bytes([b0, m | n])
    elif n <= 0xFFFF:
        h = bytes([b0, m | 126]) + n.to_bytes(2, "big")
    else:
        h = bytes([b0, m | 127]) + n.to_bytes(8, "big")
    return h + (bytes(key) if masked else b"")


def refragment(frames, k, ctl, masked, rng):
    """Re-cut every data frame into up to k pieces, insert a control frame in every gap."""
    out = []
    for hdr, key, pl in frames:
        op, r = opcode(hdr), rsv(hdr)
        if op >= 8 or k <= 1 or not fin(hdr):
            out.append(encode_header(fin(hdr), r, op, masked, len(pl)) + (xor_mask(MASK_KEY, pl) if masked else pl))
            continue
        n = len(pl)
        cuts = sorted(rng.randrange(0, n + 1) for _ in range(k - 1))
        bounds = [0] + cuts + [n]
        for i in range(k):
            piece = pl[bounds[i]:bounds[i + 1]]
            last = i == k - 1
            out.append(encode_header(1 if last else 0, r if i == 0 else 0, op if i == 0 else 0, masked, len(piece))
                       + (xor_mask(MASK_KEY, piece) if masked else piece))
            if not last and ctl != "none":
                cp = filler(rng.choice([0, 5, 125]), i)
                out.append(encode_header(1, 0, 9 if ctl == "ping" else 10, masked, len(cp))
                           + (xor_mask(MASK_KEY, cp) if masked else cp))
    return out


PAIR_GRID = [
    # (offer given to the server in place of the client's own, server options, client options)
    (None, {}, {}),
    ("permessage-deflate; client_no_context_takeover; server_no_context_takeover", {"compression_level": 1}, {"compression_level": 9}),
    ("permessage-deflate; client_max_window_bits=9; server_max_window_bits=9", {"compression_level": 6, "mem_level": 1}, {"compression_level": 6}),
    ("permessage-deflate; server_no_context_takeover; client_max_window_bits=12", {"compression_level": 0}, {"compression_level": 1, "mem_level": 9}),
    ("permessage-deflate; client_no_context_takeover; server_max_window_bits=10", {"compression_level": 9}, {"compression_level": 0}),
    ("permessage-deflate; client_max_window_bits=15; server_max_window_bits=13", {"mem_level": 4}, {"compression_level": 3}),
    ("permessage-deflate; client_max_window_bits=10; server_max_window_bits=15; client_no_context_takeover", {}, {"mem_level": 2}),
]
# offers a server must decline (handshake completes without the extension; nothing may be compressed)
PAIR_GRID += [
    ("permessage-deflate; client_max_window_bits=7", {}, {}),
    ("permessage-deflate; server_max_window_bits=16", {"compression_level": 9}, {}),
    ("permessage-deflate; client_max_window_bits=8; server_max_window_bits=x", {}, {"compression_level": 1}),
]
NO_TAKEOVER = ("client_no_context_takeover", "server_no_context_takeover")


class PairReal:
    """Real websocket_connect client <-> real WebSocketHandler server behind WsChannel's actions."""

    def __init__(self, cfg, cat, grid=0, mode="cb", seed=0, record=None, recompress=False):
        self.env = None
        try:
            self._init(cfg, cat, grid=grid, mode=mode, seed=seed, record=record, recompress=recompress)
        except HandshakeFailed:
            if self.env is not None:
                self.env.close()
            raise

    def _init(self, cfg, cat, grid=0, mode="cb", seed=0, record=None, recompress=False):
        import random
        self.cat = cat
        self.rng = random.Random(seed)
        self.env = Env()
        self.record = record            # list collecting wire events for trace validation
        deflate = cfg["deflate"]
        offer, sopt, copt = PAIR_GRID[grid % len(PAIR_GRID)]
        self.server = ServerSide(self.env, compression=dict(sopt) if deflate else None)
        self.client = ClientSide(self.env, mode=mode, compression=dict(copt) if deflate else None)
        head = self.client.take_request().decode("latin1")
        lines = head.split("\r\n")
        hs = []
        for ln in lines[1:]:
            if not ln:
                continue
            n, _, v = ln.partition(":")
            if n.lower() == "sec-websocket-extensions" and offer:
                v = offer
            hs.append((n.strip(), v.strip()))
        resp = self.server.request(hs)
        if resp is None or not resp.startswith(b"HTTP/1.1 101"):
            raise HandshakeFailed("pair-server", "answered %r" % (resp[:200] if resp else resp,))
        # The harness stands for a conformant peer on both sides: a no_context_takeover parameter in
        # the offer the server accepted binds the connection (RFC 7692 7.1.1), so it is part of the
        # answer the client sees even if the server did not repeat it.
        demanded = [k for k in NO_TAKEOVER if offer and k in [x.strip() for x in offer.split(";")]]
        if demanded and b"permessage-deflate" in resp:
            lines = resp.decode("latin1").split("\r\n")
            for i, ln in enumerate(lines):
                if ln.lower().startswith("sec-websocket-extensions:"):
                    have = [x.strip() for x in ln.split(":", 1)[1].split(";")]
                    lines[i] = ln + "".join("; " + k for k in demanded if k not in have)
            resp = "\r\n".join(lines).encode("latin1")
        self.client.stream.feed(resp)
        self.env.settle()
        if self.client.connect_state() != "ok":
            raise HandshakeFailed("pair-client", "connect future %s" % self.client.connect_state())
        self.client.conn = self.client.fut.result()
        self.negotiated = [ln for ln in resp.decode("latin1").split("\r\n") if ln.lower().startswith("sec-websocket-extensions")]
        # negotiated permessage-deflate parameters (plumbing: split the header the server sent)
        self.params = None
        for ln in self.negotiated:
            parts = [x.strip() for x in ln.split(":", 1)[1].split(";")]
            if parts[0] == "permessage-deflate":
                self.params = {}
                for x in parts[1:]:
                    k, _, v = x.partition("=")
                    self.params[k.strip()] = v.strip().strip('"')
        self.recompress = recompress
        self.sent = {"c2s": [], "s2c": []}          # message ids written by the applications, not yet seen on the wire
        self.wire_errors = []
        self._inflate = {}
        self._deflate = {}

    def _sender(self, d):
        return self.client if d == "c2s" else self.server

    def _receiver(self, d):
        return self.server if d == "c2s" else self.client

    def step(self, act, args):
        if act == "send":
            d, mid = args
            e = self.cat.by_id[mid]
            msg = e["data"].decode("utf-8") if e["kind"] == "text" else e["data"]
            if d == "c2s":
                self.client.conn.write_message(msg, binary=e["kind"] == "binary")
            else:
                self.server.handler.write_message(msg, binary=e["kind"] == "binary")
            self.sent[d].append(mid)
            self.env.settle()
        elif act == "transfer":
            d, k, ctl, seg = args
            self.transfer(d, k, ctl, seg)
        else:
            raise ValueError(act)
        return self.proj()

    def transfer(self, d, k, ctl, seg):
        src, dst = self._sender(d), self._receiver(d)
        frames = src.take_frames()
        if self.record is not None:
            for hdr, key, pl in frames:
                if opcode(hdr) < 8:
                    self.record.append({"a": "wire", "args": [d, list(hdr + (key or b"")), len(pl)]})
        frames = self.conformance(d, frames)
        data = b"".join(refragment(frames, k, ctl, d == "c2s", self.rng))
        for c in chunked(data, seg, self.rng):
            dst.feed(c)
        # control traffic answered by the receiver (pongs) flows back unmodified
        back = dst.take_frames()
        ctlback = [f for f in back if opcode(f[0]) >= 8]
        databack = [f for f in back if opcode(f[0]) < 8]
        if databack:      # data written by the receiving side belongs to the other direction: keep it queued
            dst.rest = b"".join(encode_header(fin(h), rsv(h), opcode(h), d == "s2c", len(p)) + (xor_mask(MASK_KEY, p) if d == "s2c" else p)
                                for h, key, p in databack) + dst.rest
        if ctlback:
            src.feed(b"".join(refragment(ctlback, 1, "none", d == "s2c", self.rng)))
            src.take_frames()

    def conformance(self, d, frames):
        """The harness as a conformant permessage-deflate peer (zlib is the opaque codec): what the
        real sender put on the wire must inflate, under the parameters negotiated for the sender's
        side (window bits; a fresh context per message if <side>_no_context_takeover was agreed),
        to the message the application wrote.  With `recompress` the messages are forwarded
        re-deflated by the harness' own compressor for that side, which keeps its context across
        messages whenever the negotiation allows it (so back-references cross message
        boundaries and the real receiver must have kept its context too)."""
        if self.params is None:
            for hdr, key, pl in frames:
                if rsv(hdr):
                    self.wire_errors.append("reserved bits %d set although no extension was negotiated" % rsv(hdr))
                if opcode(hdr) < 8 and self.sent[d]:
                    mid = self.sent[d].pop(0)
                    if pl != self.cat.by_id[mid]["data"]:
                        self.wire_errors.append("payload differs from message %d" % mid)
            return frames
        side = "client" if d == "c2s" else "server"
        no_takeover = (side + "_no_context_takeover") in self.params
        wbits = int(self.params.get(side + "_max_window_bits") or 15)
        out = []
        for hdr, key, pl in frames:
            if opcode(hdr) >= 8 or not self.sent[d]:
                out.append((hdr, key, pl))
                continue
            mid = self.sent[d].pop(0)
            want = self.cat.by_id[mid]["data"]
            if not (rsv(hdr) & 4):
                if pl != want:
                    self.wire_errors.append("uncompressed payload differs from message %d" % mid)
                out.append((hdr, key, pl))
                continue
            if no_takeover or d not in self._inflate:
                self._inflate[d] = zlib.decompressobj(-wbits)
            try:
                got = self._inflate[d].decompress(pl + b"\x00\x00\xff\xff")
            except zlib.error as e:
                self.wire_errors.append("sender's frame does not inflate under the negotiated parameters (%s_max_window_bits=%d, no_context_takeover=%s): %s"
                                        % (side, wbits, no_takeover, e))
                out.append((hdr, key, pl))
                continue
            if got != want:
                self.wire_errors.append("inflated payload differs from message %d" % mid)
            if self.recompress:
                if no_takeover or d not in self._deflate:
                    self._deflate[d] = zlib.compressobj(9, zlib.DEFLATED, -wbits, 9)
                pl = deflate_message(want, comp=self._deflate[d])
                hdr = encode_header(1, 4, opcode(hdr), False, len(pl))
            out.append((hdr, key, pl))
        return out

    def delivered(self, side):
        return [self.cat.ident(e[1])["id"] for e in side.events if e[0] == "msg"]

    def proj(self):
        return {"c2s": self.delivered(self.server), "s2c": self.delivered(self.client)}

    def close(self):
        self.env.close()


# ---------------------------------------------------------------------------------------------
# Closing handshake (C16, WsClose)

PING_INTERVAL, PING_TIMEOUT = 7, 3


class CloseReal:
    """A real endpoint (WebSocketHandler on a server / WebSocketClientConnection) behind WsClose's
    actions; the harness is the peer and owns the virtual clock."""

    def __init__(self, cfg, chunk_mode=0, seed=0):
        self.env = None
        try:
            self._init(cfg, chunk_mode=chunk_mode, seed=seed)
        except HandshakeFailed:
            if self.env is not None:
                self.env.close()
            raise

    def _init(self, cfg, chunk_mode=0, seed=0):
        import random
        import struct
        self.struct = struct
        self.cfg = cfg
        self.role = cfg["role"]
        self.rng = random.Random(seed)
        self.chunk_mode = chunk_mode
        self.env = Env()
        self.gates = []
        self.frames = []
        self.err = "none"
        self.invalid_reason_sent = False
        ping = cfg["ping"]
        if self.role == "server":
            settings = {}
            if ping:
                settings = {"websocket_ping_interval": PING_INTERVAL, "websocket_ping_timeout": PING_TIMEOUT}
            self.side = ServerSide(self.env, settings=settings, gate=self._gate if cfg["async"] else None)
            self.side.handshake()
        else:
            kw = {}
            if ping:
                kw = {"ping_interval": PING_INTERVAL, "ping_timeout": PING_TIMEOUT}
            self.side = ClientSide(self.env, mode="cb", **kw)
            self.side.handshake()

    def _gate(self, handler, message):
        import asyncio
        f = asyncio.get_event_loop().create_future()
        self.gates.append(f)
        return f

    def _send(self, op, payload):
        data = encode_header(1, 0, op, self.role == "server", len(payload)) + \
            (xor_mask(MASK_KEY, payload) if self.role == "server" else payload)
        for c in chunked(data, self.chunk_mode, self.rng):
            self.side.feed(c)

    def step(self, act, args):
        self.err = "none"
        try:
            if act == "close":
                code, has_reason = args
                c = code or None
                r = "local-bye" if has_reason else None
                if self.role == "server":
                    self.side.handler.close(c, r)
                else:
                    self.side.conn.close(c, r)
            elif act == "write":
                if self.role == "server":
                    self.side.handler.write_message("x")
                else:
                    self.side.conn.write_message("x")
            elif act == "msg":
                self._send(1, b"m")
            elif act == "pong":
                self._send(10, b"")
            elif act == "peerclose":
                code, rk = args
                pl = b"" if code == 0 else self.struct.pack(">H", code)
                if rk == "onebyte":
                    pl = b"\x03"
                elif rk == "valid":
                    pl += b"bye"
                elif rk == "invalid":
                    pl += b"\xff\xfe"
                    self.invalid_reason_sent = True
                self._send(8, pl)
            elif act == "eof":
                self.side.peer_eof()
            elif act == "resume":
                g = self.gates.pop(0)
                g.set_result(None)
            elif act == "advance":
                self.env.advance(args[0])
            else:
                raise ValueError(act)
        except Exception as e:      # exceptions of the code under test are observations
            self.err = type(e).__name__
        self.env.settle()
        if not self.side.closed():
            self.side.stream.pump()
        return self.proj()

    def proj(self):
        self.frames.extend(self.side.take_frames())
        closes = [i for i, f in enumerate(self.frames) if opcode(f[0]) == 8]
        sent_code = 0
        if closes:
            pl = self.frames[closes[0]][2]
            sent_code = self.struct.unpack(">H", pl[:2])[0] if len(pl) >= 2 else 0
        data_after = bool(closes) and any(opcode(f[0]) in (0, 1, 2) for f in self.frames[closes[0] + 1:])
        ev = [e for e in self.side.events if e[0] == "close"]
        n_code, n_reason = 0, "none"
        if ev:
            n_code = ev[0][1] or 0
            r = ev[0][2]
            n_reason = "none" if r is None else ("valid" if r == "bye" else "other")
        # raw observation; what the specification leaves open after a malformed close frame has been
        # processed (echo, reported code / reason) is masked by the comparison, driven by the
        # specification's own projection (checks/C16.mask, Trace_WsClose.Bind)
        return {"closeFrames": len(closes), "sentCode": sent_code, "dataAfterClose": data_after,
                "pings": sum(1 for f in self.frames if opcode(f[0]) == 9),
                "tcpOpen": not self.side.closed(), "notified": len(ev), "nCode": n_code, "nReason": n_reason,
                "delivered": sum(1 for e in self.side.events if e[0] == "msg"), "err": self.err}

    def finish(self):
        """After the path: let every timer expire; returns the final projection."""
        self.env.loop.run_until_quiescent(horizon=self.env.now + 100)
        return self.proj()

    def close(self):
        self.env.close()


# ---------------------------------------------------------------------------------------------
# Opening handshake (C17, WsHandshake)

ABSENT = "-"


def parse_head(head):
    """(status, {lower-name: [values]}) of a response head (plumbing)."""
    lines = head.decode("latin1").split("\r\n")
    parts = lines[0].split(" ", 2)
    hs = {}
    for ln in lines[1:]:
        if ln:
            n, _, v = ln.partition(":")
            hs.setdefault(n.strip().lower(), []).append(v.strip())
    return int(parts[1]), hs


def handshake_server_row(row):
    """Send the upgrade request described by a WsHandshake server row to a real Application."""
    env = Env()
    try:
        pol = row["sub"]["policy"]
        select = None
        if pol == "first":
            select = lambda subs: subs[0] if subs else None
        elif pol == "last":
            select = lambda subs: subs[-1] if subs else None
        side = ServerSide(env, compression={} if row["enabled"] else None, select=select)
        hs = [("Host", row["origin"]["host"])]
        if row["upgrade"]["v"] != ABSENT:
            hs.append(("Upgrade", row["upgrade"]["v"]))
        if row["connection"]["v"] != ABSENT:
            hs.append(("Connection", row["connection"]["v"]))
        if row["key"]["v"] == "present":
            hs.append(("Sec-WebSocket-Key", KEY))
        elif row["key"]["v"] == "empty":
            hs.append(("Sec-WebSocket-Key", ""))
        if row["version"]["v"] != ABSENT:
            hs.append(("Sec-WebSocket-Version", row["version"]["v"]))
        if row["origin"]["v"] != ABSENT:
            hs.append(("Origin", row["origin"]["v"]))
        legacy = row["origin"].get("legacy", ABSENT)
        if legacy != ABSENT:
            hs.append(("Sec-WebSocket-Origin", "http://" + row["origin"]["host"] if legacy == "host" else legacy))
        if row["sub"]["offer"] != ABSENT:
            hs.append(("Sec-WebSocket-Protocol", row["sub"]["offer"]))
        if row["ext"]["v"] != ABSENT:
            hs.append(("Sec-WebSocket-Extensions", row["ext"]["v"]))
        head = side.request(hs)
        obs = {"status": 0, "accept": None, "upgrade": None, "connection": None, "subprotocol": ABSENT, "deflate": False,
               "opened": False, "works": False, "closed": side.closed(), "exceptions": [e[1] for e in side.events if e[0] == "exception"]}
        if head is not None:
            status, h = parse_head(head)
            obs["status"] = status
            obs["accept"] = (h.get("sec-websocket-accept") or [None])[0]
            obs["upgrade"] = (h.get("upgrade") or [None])[0]
            obs["connection"] = (h.get("connection") or [None])[0]
            obs["subprotocol"] = (h.get("sec-websocket-protocol") or [ABSENT])[0]
            obs["deflate"] = any("permessage-deflate" in v for v in h.get("sec-websocket-extensions", []))
            obs["ext_header"] = h.get("sec-websocket-extensions", [])
        obs["opened"] = any(e[0] == "open" for e in side.events)
        if obs["status"] == 101 and not side.closed():
            side.feed(encode_header(1, 0, 2, True, 2) + xor_mask(MASK_KEY, b"hi"))
            obs["works"] = any(e[0] == "msg" and e[1] == b"hi" for e in side.events)
            # what the server then puts on the wire must match what it announced: RSV1 (per-message
            # compressed) only if its response carried the extension
            obs["rsv_sent"] = []
            if side.handler is not None and not side.closed():
                try:
                    side.handler.write_message("hello hello hello hello")
                    side.handler.write_message(b"\x00" * 40, binary=True)
                except Exception as e:
                    obs["exceptions"].append(type(e).__name__)
                env.settle()
                obs["rsv_sent"] = sorted(set(rsv(f[0]) for f in side.take_frames() if opcode(f[0]) < 8))
        return obs
    finally:
        env.close()


def handshake_client_row(row):
    """Answer the real client's upgrade request as described by a WsHandshake client row."""
    env = Env()
    try:
        offer = row["sub"]["offer"]
        c = ClientSide(env, mode="cb", compression={} if row["ext"]["offered"] else None,
                       subprotocols=offer.split(",") if offer != ABSENT else None)
        req = c.request_headers()
        key = req.get("sec-websocket-key", "")
        status = row["status"]
        line = {101: "HTTP/1.1 101 Switching Protocols", 200: "HTTP/1.1 200 OK", 400: "HTTP/1.1 400 Bad Request",
                403: "HTTP/1.1 403 Forbidden"}[status]
        hs = []
        if row["upgrade"]["v"] != ABSENT:
            hs.append(("Upgrade", row["upgrade"]["v"]))
        if row["connection"]["v"] != ABSENT:
            hs.append(("Connection", row["connection"]["v"]))
        a = row["accept"]["v"]
        if a == "correct":
            hs.append(("Sec-WebSocket-Accept", accept_for(key)))
        elif a == "wrong":
            hs.append(("Sec-WebSocket-Accept", "AAAAAAAAAAAAAAAAAAAAAAAAAAA="))
        elif a == "otherkey":
            hs.append(("Sec-WebSocket-Accept", accept_for(KEY)))
        if row["ext"]["v"] != ABSENT:
            hs.append(("Sec-WebSocket-Extensions", row["ext"]["v"]))
        if row["sub"]["v"] != ABSENT:
            hs.append(("Sec-WebSocket-Protocol", row["sub"]["v"]))
        if status != 101:
            hs.append(("Content-Length", "0"))
        state = c.respond(line, hs)
        if state == "pending":
            env.advance(30)
            state = c.connect_state()
        obs = {"connect": state, "subprotocol": ABSENT, "works": False,
               "offered": {"ext": req.get("sec-websocket-extensions", ABSENT), "sub": req.get("sec-websocket-protocol", ABSENT)}}
        if state == "ok":
            conn = c.fut.result()
            c.conn = conn
            sp = conn.selected_subprotocol
            obs["subprotocol"] = ABSENT if sp is None else sp
            if not c.closed():
                c.feed(encode_header(1, 0, 2, False, 2) + b"hi")
                obs["works"] = any(e[0] == "msg" and e[1] == b"hi" for e in c.events)
        return obs
    finally:
        env.close()
