"""Drivers binding specs/httpm/*.tla to the real Tornado objects (C06, C09, C32, C47).

HdrReal     - tornado.httputil.HTTPHeaders behind the HeaderMap.tla action interface (C06).
XhReal      - a real HTTPServer(xheaders=True) serving keep-alive requests over a MemStream (C32).
AdmReal     - SimpleAsyncHTTPClient with a scripted _connection_class stub on virtual time (C09).
RedirReal   - SimpleAsyncHTTPClient with real _HTTPConnections over a fake TCPClient whose streams
              are MemStreams; the fake server side records the request bytes of every hop (C09).
WsgiReal    - a real WSGIContainer behind the in-memory HTTP server (C47).

Every exception raised by the code under test is recorded as an observation (class name)."""
from . import REPO  # noqa: F401


def s2t(seq):
    """sequence of code points -> str"""
    return "".join(chr(x) for x in seq)


def t2s(text):
    return [ord(ch) for ch in text]


# ---------------------------------------------------------------------------------------- C06

class HdrReal:
    """Real HTTPHeaders (`h`) and an optional copy (`c`).  Projection = get_all() of both
    (reads only the list store, never the combined-value cache) + the call's return value
    (uniformly a list of code-point lists) + its exception class."""

    def __init__(self):
        from tornado.httputil import HTTPHeaders
        self.cls = HTTPHeaders
        self.h = HTTPHeaders()
        self.c = None

    @staticmethod
    def flat(h):
        if h is None:
            return []
        return [[t2s(k), t2s(v)] for k, v in h.get_all()]

    def step(self, act, args):
        ret, err = [], "none"
        a = [s2t(x) for x in args]
        try:
            if act == "add":
                self.h.add(a[0], a[1])
            elif act == "set":
                self.h[a[0]] = a[1]
            elif act == "del":
                del self.h[a[0]]
            elif act == "get":
                ret = [t2s(self.h[a[0]])]
            elif act == "getlist":
                ret = [t2s(v) for v in self.h.get_list(a[0])]
            elif act == "in":
                ret = [[1 if a[0] in self.h else 0]]
            elif act == "iter":
                keys = list(self.h)
                if len(self.h) != len(keys):
                    keys.append("len() = %d" % len(self.h))
                ret = [t2s(k) for k in keys]
            elif act == "items":
                for k, v in self.h.items():
                    ret += [t2s(k), t2s(v)]
            elif act == "pop":
                ret = [t2s(self.h.pop(a[0]))]
            elif act == "copy":
                self.c = self.h.copy()
            elif act == "cadd":
                self.c.add(a[0], a[1])
            elif act == "cset":
                self.c[a[0]] = a[1]
            elif act == "cdel":
                del self.c[a[0]]
            elif act == "cget":
                ret = [t2s(self.c[a[0]])]
            elif act == "parseline":
                self.h.parse_line(a[0])
            elif act == "roundtrip":
                back = self.cls.parse(str(self.h))
                same = list(back.get_all()) == list(self.h.get_all()) and back == self.h
                ret = [[1 if same else 0]]
            else:
                raise ValueError("unknown action %r" % act)
        except ValueError as e:
            if str(e).startswith("unknown action"):
                raise
            ret, err = [], type(e).__name__
        except Exception as e:
            ret, err = [], type(e).__name__
        return {"all": self.flat(self.h), "call": self.flat(self.c), "ret": ret, "err": err}


# ---------------------------------------------------------------------------------------- C32

XH_NAMES = {"xff": "X-Forwarded-For", "xri": "X-Real-Ip", "xs": "X-Scheme", "xfp": "X-Forwarded-Proto"}


def numeric_tag(text):
    """Trusted tag: is `text` a numeric IP address (standard library, not Tornado code)."""
    import ipaddress
    try:
        ipaddress.ip_address(text)
        return True
    except ValueError:
        return False


class XhReal:
    """A real HTTPServer(xheaders=True) serving one keep-alive connection over a MemStream.
    cfg = {sock, proto, trusted, numeric} (texts as code-point lists).  The request callback
    reports request.remote_ip / request.protocol and answers 200 with an empty body."""

    def __init__(self, cfg, variant=0):
        import socket
        from tornado import httpserver, httputil
        from .vloop import Env
        from .httpsim import ServerConn
        from .memstream import FakeSocket
        self.env = Env()
        self.variant = variant
        self.seen = []
        sock = s2t(cfg["sock"])

        def cb(request):
            self.seen.append((request.remote_ip, request.protocol))
            request.connection.write_headers(
                httputil.ResponseStartLine("HTTP/1.1", 200, "OK"),
                httputil.HTTPHeaders({"Content-Length": "0"}))
            request.connection.finish()

        proto = s2t(cfg["proto"])
        self.server = httpserver.HTTPServer(cb, xheaders=True, protocol=None if proto == "http" else proto,
                                            trusted_downstream=[s2t(t) for t in cfg["trusted"]])
        if sock == "0.0.0.0":
            fs, addr = FakeSocket(family=socket.AF_UNIX, peer="/tmp/x.sock"), "/tmp/x.sock"
        else:
            fs, addr = FakeSocket(peer=(sock, 54321)), (sock, 54321)
        self.conn = ServerConn(self.env, self.server, address=addr, sock=fs)
        self.nreq = 0

    def wire(self, h):
        self.nreq += 1
        lines = []
        for key in (("xff", "xri", "xs", "xfp") if not self.variant & 1 else ("xfp", "xs", "xri", "xff")):
            name = XH_NAMES[key]
            if self.variant & 2:
                name = name.lower() if self.nreq % 2 else name.upper()
            for v in h[key]:
                lines.append(name.encode() + (b": " if not self.variant & 4 else b":") + bytes(v))
        head = [b"GET /r%d HTTP/1.1" % self.nreq, b"Host: x"] + lines
        return b"\r\n".join(head) + b"\r\n\r\n"

    def step(self, act, args):
        if act != "request":
            raise ValueError(act)
        before = len(self.seen)
        data = self.wire(args[0])
        if self.variant & 8:
            mid = len(data) // 2
            self.conn.send_chunks([data[:mid], data[mid:]])
        else:
            self.conn.send(data)
        self.env.settle()
        if len(self.seen) == before + 1:
            ip, proto = self.seen[-1]
            return {"ip": t2s(ip) if isinstance(ip, str) else [0], "proto": t2s(proto) if isinstance(proto, str) else [0],
                    "n": len(self.seen), "closed": self.conn.closed()}
        return {"ip": [0], "proto": [0], "n": len(self.seen), "closed": self.conn.closed(),
                "out": self.conn.received()[-60:].decode("latin1")}

    def close(self):
        try:
            self.conn.peer_close()
            self.env.settle()
        finally:
            self.env.close()


# ---------------------------------------------------------------------------------------- C09 (admission)

class AdmReal:
    """SimpleAsyncHTTPClient(max_clients=cfg.maxc) whose _connection_class is a scripted stub:
    a started connection only records itself; the harness ends it on demand the way
    _HTTPConnection._run_callback does (release the slot, then schedule the final callback).
    fetch_impl is wrapped (public override point) to count completion deliveries per fetch."""

    def __init__(self, cfg, nf):
        from tornado.simple_httpclient import SimpleAsyncHTTPClient
        from .vloop import Env
        self.env = Env()
        self.nf = nf
        self.stubs = {}
        self.starts = []
        self.ncb = [0] * nf
        self.futs = {}
        self.qto = set()          # (random driver bookkeeping) fetches queued with a give-up timer
        outer = self

        class Stub:
            def __init__(self, client, request, release_callback, final_callback, *rest):
                self.request, self.release, self.final = request, release_callback, final_callback
                i = int(request.url.rsplit("/", 1)[1])
                outer.stubs[i] = self
                outer.starts.append(i)

        class Client(SimpleAsyncHTTPClient):
            def _connection_class(self):
                return Stub

            def fetch_impl(self, request, callback):
                i = int(request.url.rsplit("/", 1)[1])

                def counted(response):
                    outer.ncb[i - 1] += 1
                    callback(response)
                super().fetch_impl(request, counted)

        self.client = Client(force_instance=True, max_clients=cfg["maxc"])

    def proj(self):
        st = []
        for i in range(1, self.nf + 1):
            f = self.futs.get(i)
            if f is None:
                st.append("idle")
            elif not f.done():
                st.append("active" if i in self.starts else "queued")
            elif f.cancelled():
                st.append("cancelled")
            elif f.exception() is not None:
                e = f.exception()
                st.append("qtimeout" if type(e).__name__ == "HTTPTimeoutError" and "in request queue" in str(e) else "fail")
            else:
                st.append("ok" if f.result().code == 200 else "code%d" % f.result().code)
        return {"st": st, "starts": list(self.starts), "ncb": list(self.ncb)}

    def step(self, act, args):
        from tornado.httpclient import HTTPResponse
        from tornado.simple_httpclient import HTTPStreamClosedError
        import io
        err = None
        try:
            if act == "fetch":
                i, t = args
                self.futs[i] = self.client.fetch("http://h.test/%d" % i, raise_error=False,
                                                 connect_timeout=t // 10, request_timeout=t % 10)
            elif act == "finish":
                i, ok = args
                s = self.stubs[i]
                if ok:
                    resp = HTTPResponse(s.request, 200, buffer=io.BytesIO(b""))
                else:
                    resp = HTTPResponse(s.request, 599, error=HTTPStreamClosedError("Stream closed"))
                s.release()
                self.env.io_loop.add_callback(s.final, resp)
            elif act == "advance":
                self.env.advance(args[0])
            else:
                raise ValueError(act)
        except ValueError:
            raise
        except Exception as e:
            err = type(e).__name__
        self.env.settle()
        p = self.proj()
        if err:
            p["err"] = err
        if self.env.loop.uncaught:
            p["uncaught"] = len(self.env.loop.uncaught)
        return p

    def close(self):
        try:
            self.client.close()
        finally:
            self.env.close()


# ---------------------------------------------------------------------------------------- C09 (redirects)

RED_LOC = {1: "/p%d", 2: "http://a.test/p%d", 3: "http://b.test/p%d", 4: "http://a.test:8080/p%d",
           5: "https://a.test/p%d", 6: "//b.test/p%d", 7: "https://b.test:8443/p%d", 8: "p%d"}


class FakeTCPClient:
    """Stands in for tornado.tcpclient.TCPClient: every connect() returns a fresh MemStream and
    records (host, port, ssl requested)."""

    def __init__(self, env):
        self.env = env
        self.conns = []

    async def connect(self, host, port, af=None, ssl_options=None, max_buffer_size=None, source_ip=None,
                      source_port=None, timeout=None):
        from .memstream import MemStream
        s = MemStream(self.env)
        self.conns.append({"host": host, "port": port, "ssl": ssl_options is not None, "stream": s})
        return s

    def close(self):
        pass


def split_request(data):
    """Transport plumbing: raw request bytes -> (method, target, [(name, value)], body) or None."""
    end = data.find(b"\r\n\r\n")
    if end < 0:
        return None
    lines = data[:end].decode("latin1").split("\r\n")
    parts = lines[0].split(" ")
    hdrs = []
    for ln in lines[1:]:
        n, _, v = ln.partition(":")
        hdrs.append((n.strip().lower(), v.strip()))
    return parts[0], parts[1] if len(parts) > 1 else "", hdrs, data[end + 4:]


class RedirReal:
    """One fetch of http://[u:p@]a.test/p0 by a real SimpleAsyncHTTPClient with real
    _HTTPConnections over FakeTCPClient.  step('respond', [code, loc]) lets the fake server
    answer the request on the wire; the projection is the next request it receives (parsed
    from the recorded bytes) or the status delivered to the caller."""

    AUTH_TAGS = {"tok1": "user1", "tok2": "user2", "Basic dTpw": "basic"}
    COOKIE_TAGS = {"k1=v1": "c1", "k2=v2": "c2"}

    def __init__(self, cfg, extra_headers=None):
        from tornado.simple_httpclient import SimpleAsyncHTTPClient
        from tornado.httputil import HTTPHeaders
        from tornado.httpclient import HTTPRequest
        from .vloop import Env
        self.env = Env()
        self.cfg = cfg
        # cfg["via"] = 1: the redirect limit comes from the client's defaults, not from the request itself
        via = cfg.get("via", 0)
        ckw = {"defaults": {"max_redirects": cfg["maxr"]}} if via else {}
        self.client = SimpleAsyncHTTPClient(force_instance=True, max_clients=1, **ckw)    # a redirect must release its slot first
        self.tcp = FakeTCPClient(self.env)
        self.client.tcp_client.close()
        self.client.tcp_client = self.tcp
        na, nc, creds = cfg["hdr"] // 100, (cfg["hdr"] // 10) % 10, cfg["hdr"] % 10
        h = HTTPHeaders()
        for v in ["tok1", "tok2"][:na]:
            h.add("Authorization", v)
        for v in ["k1=v1", "k2=v2"][:nc]:
            h.add("Cookie", v)
        for k, v in (extra_headers or []):
            h.add(k, v)
        if na <= 1 and nc <= 1 and not extra_headers:
            h = dict(h.items())         # the common single-valued case goes in as a plain dict
        kw = {}
        if creds == 2:
            kw = {"auth_username": "u", "auth_password": "p"}
        meth = cfg["method"]
        self.body = b"b=1" if meth in ("POST", "PUT", "PATCH") else None
        url = "http://%sa.test/p0" % ("u:p@" if creds == 1 else "")
        if not via:
            kw["max_redirects"] = cfg["maxr"]
        req = HTTPRequest(url, method=meth, headers=h, body=self.body, follow_redirects=bool(cfg["follow"]),
                          connect_timeout=0, request_timeout=50, decompress_response=False, **kw)
        self.ncb = 0
        self.fut = self.client.fetch(req, raise_error=False)
        self.fut.add_done_callback(lambda f: setattr(self, "ncb", self.ncb + 1))
        self.env.settle()
        self.seen = 0

    def _wire(self):
        """Projection of the newest connection's request."""
        c = self.tcp.conns[-1]
        c["stream"].pump()
        r = split_request(bytes(c["stream"].out))
        if r is None:
            return {"incomplete": True}
        meth, target, hdrs, body = r
        hd = {}
        for n, v in hdrs:
            hd.setdefault(n, []).append(v)
        hostv = hd.get("host", [""])[0]
        hname, _, hport = hostv.partition(":")
        path = int(target[2:]) if target.startswith("/p") and target[2:].isdigit() else -1
        return {"ssl": c["ssl"], "host": c["host"], "port": c["port"],
                "hostport": int(hport) if hport.isdigit() else (0 if hname == c["host"] and len(hd.get("host", [])) == 1 else -1),
                "method": meth, "path": path,
                "authz": [self.AUTH_TAGS.get(v, v) for v in hd.get("authorization", [])],
                "cookies": [self.COOKIE_TAGS.get(v, v) for v in hd.get("cookie", [])],
                "body": len(body) > 0, "clen": "content-length" in hd, "ctype": "content-type" in hd,
                "body_ok": body == (self.body or b"") if len(body) else True}

    NOREQ = {"ssl": False, "host": "", "port": 0, "hostport": 0, "method": "", "path": 0, "authz": [], "cookies": [],
             "body": False, "clen": False, "ctype": False}

    def proj(self):
        if self.fut.done():
            e = self.fut.exception()
            self.last_exc = type(e).__name__ if e is not None else None
            done = 599 if e is not None else self.fut.result().code
            p = {"done": done, "hops": len(self.tcp.conns) - 1, "req": dict(self.NOREQ)}
        else:
            w = self._wire()
            ok = w.pop("body_ok", True)
            p = {"done": 0, "hops": len(self.tcp.conns) - 1, "req": w}
            if not ok:
                p["body_corrupt"] = True
        if self.ncb > 1:
            p["ncb"] = self.ncb
        return p

    def step(self, act, args):
        if act == "drop":
            self.tcp.conns[-1]["stream"].feed_eof()
            self.env.settle()
            return self.proj()
        if act == "timeout":
            self.env.advance(50)
            return self.proj()
        if act != "respond":
            raise ValueError(act)
        code, loc = args[0], args[1]
        location = args[2] if len(args) > 2 else (RED_LOC[loc] % len(self.tcp.conns) if loc else None)
        c = self.tcp.conns[-1]
        resp = b"HTTP/1.1 %d X\r\nContent-Length: 0\r\n" % code
        if location is not None:
            resp += b"Location: " + location.encode("latin1") + b"\r\n"
        resp += b"\r\n"
        c["stream"].feed(resp)
        self.env.settle()
        for cc in self.tcp.conns:
            cc["stream"].pump()
        self.env.settle()
        return self.proj()

    def close(self):
        try:
            for cc in self.tcp.conns:
                if not cc["stream"].closed():
                    cc["stream"].close()
            self.env.settle()
            self.client.close()
        finally:
            self.env.close()


# ---------------------------------------------------------------------------------------- C47

class WsgiReal:
    """A real WSGIContainer behind a real HTTPServer over a MemStream.  step('serve', [r, a])
    sends request r (texts as code-point lists) and lets the WSGI application behave as a says;
    the projection is the environ the application saw and the response the client received."""

    KNOWN = {"REQUEST_METHOD", "SCRIPT_NAME", "PATH_INFO", "QUERY_STRING", "REMOTE_ADDR", "SERVER_NAME", "SERVER_PORT",
             "SERVER_PROTOCOL", "CONTENT_TYPE", "CONTENT_LENGTH", "wsgi.version", "wsgi.url_scheme", "wsgi.input",
             "wsgi.errors", "wsgi.multithread", "wsgi.multiprocess", "wsgi.run_once"}

    def __init__(self, cfg, variant=0):
        from tornado import httpserver, wsgi
        from .vloop import Env
        self.env = Env()
        self.cfg = cfg
        self.variant = variant
        self.app_spec = None
        self.captured = None
        self.calls = 0
        import logging
        for name in ("tornado.access", "tornado.application"):   # per-request / exception logs: keep stderr quiet
            lg = logging.getLogger(name)
            if not lg.handlers:
                lg.addHandler(logging.NullHandler())
            lg.propagate = False
        self.container = wsgi.WSGIContainer(self._app)
        self.server = httpserver.HTTPServer(self.container, protocol=None if cfg["proto"] == "http" else cfg["proto"])
        self.conn = None
        self.consumed = 0
        self.n = 0

    def _app(self, environ, start_response):
        self.calls += 1
        cap = {}
        for k, v in environ.items():
            if k == "wsgi.input":
                cap[k] = v.read()
            elif k in ("wsgi.errors",):
                continue
            else:
                cap[k] = v
        self.captured = cap
        a = self.app_spec
        status = "%d %s" % (a["code"], s2t(a["reason"]))
        write = start_response(status, [(s2t(k), s2t(v)) for k, v in a["hdrs"]])
        chunks = [bytes(c) for c in a["chunks"]]
        if a["viaWrite"] and chunks:
            write(chunks[0])
            chunks = chunks[1:]
        return iter(chunks) if self.variant & 1 else chunks

    def _env_proj(self):
        e = self.captured

        def txt(k):
            v = e.get(k)
            return t2s(v) if isinstance(v, str) else ([0, 0, 0] if v is not None else [0])

        def opt(k):
            return [t2s(e[k])] if isinstance(e.get(k), str) else ([] if k not in e else [[0]])
        http = frozenset((tuple(t2s(k)), tuple(t2s(v) if isinstance(v, str) else [0])) for k, v in e.items() if k.startswith("HTTP_"))
        p = {"method": e.get("REQUEST_METHOD"), "script": txt("SCRIPT_NAME"), "path": txt("PATH_INFO"), "query": txt("QUERY_STRING"),
             "name": txt("SERVER_NAME"), "port": txt("SERVER_PORT"), "protocol": e.get("SERVER_PROTOCOL"),
             "scheme": e.get("wsgi.url_scheme"), "ctype": opt("CONTENT_TYPE"), "clen": opt("CONTENT_LENGTH"),
             "http": http, "input": list(e.get("wsgi.input", b""))}
        extra = sorted(k for k in e if k not in self.KNOWN and not k.startswith("HTTP_"))
        if extra:
            p["extra_keys"] = extra
        return p

    def step(self, act, args):
        from .httpsim import ServerConn, split_responses
        if act != "serve":
            raise ValueError(act)
        r, a = args
        self.app_spec = a
        self.captured = None
        if self.conn is None or self.conn.closed():
            self.conn = ServerConn(self.env, self.server)
            self.consumed = 0
        target = bytes(r["path"]) + (b"?" + bytes(r["query"]) if r["query"] else b"")
        lines = [r["method"].encode() + b" " + target + b" " + r["ver"].encode()]
        hl = [(bytes(k), bytes(v)) for k, v in r["hdrs"]]
        if r["hasHost"]:
            hl.insert(len(hl) if self.variant & 2 else 0, (b"Host" if not self.variant & 4 else b"hOST", bytes(r["host"])))
        lines += [k + b": " + v for k, v in hl]
        data = b"\r\n".join(lines) + b"\r\n\r\n" + bytes(r["body"])
        if self.variant & 8:
            self.conn.send_chunks([data[:7], data[7:]])
        else:
            self.conn.send(data)
        self.env.settle()
        self.n += 1
        out = {"n": self.n}
        if self.captured is None:
            out["env"] = {"raised": True}
        else:
            out["env"] = self._env_proj()
        raw = self.conn.received()[self.consumed:]
        self.consumed += len(raw)
        msgs = split_responses(raw) if raw else []
        if len(msgs) != 1 or not msgs[0][5]:
            out["resp"] = {"code": 0, "count": len(msgs), "raw": raw[:80].decode("latin1")}
        else:
            ver, code, reason, headers, body, _ = msgs[0]
            groups = {}
            for nme, v in headers:
                groups.setdefault(nme.lower(), []).append(t2s(v))
            out["resp"] = {"code": code, "reason": t2s(reason), "body": list(body),
                           "groups": [{"n": t2s(k), "vs": groups[k]} for k in sorted(groups)]}
        if self.env.loop.uncaught:
            out["uncaught"] = len(self.env.loop.uncaught)
        return out

    def close(self):
        try:
            if self.conn is not None:
                self.conn.peer_close()
            self.env.settle()
        finally:
            self.env.close()
