"""Drivers binding specs/httpm/*.tla to the real Tornado objects (C06, C09, C32, C47).

HdrReal     - tornado.httputil.HTTPHeaders behind the HeaderMap.tla action interface (C06).
XhReal      - a real HTTPServer(xheaders=True) serving keep-alive requests over a MemStream (C32).
AdmReal     - SimpleAsyncHTTPClient with a scripted _connection_class stub on virtual time (C09).
RedirReal   - SimpleAsyncHTTPClient with real _HTTPConnections over a fake TCPClient whose streams
              are MemStreams; the fake server side records the request bytes of every hop (C09).
WsgiReal    - a real WSGIContainer behind the in-memory HTTP server (C47).

Every exception raised by the code under test is recorded as an observation (class name)."""
from . import REPO  # noqa: F401


def s2t(seq):
    """sequence of code points -> str"""
    return "".join(chr(x) for x in seq)


def t2s(text):
    return [ord(ch) for ch in text]


# ---------------------------------------------------------------------------------------- C06

class HdrReal:
    """Real HTTPHeaders (`h`) and an optional copy (`c`).  Projection = get_all() of both
    (reads only the list store, never the combined-value cache) + the call's return value
    (uniformly a list of code-point lists) + its exception class."""

    def __init__(self):
        from tornado.httputil import HTTPHeaders
        self.cls = HTTPHeaders
        self.h = HTTPHeaders()
        self.c = None

    @staticmethod
    def flat(h):
        if h is None:
            return []
        return [[t2s(k), t2s(v)] for k, v in h.get_all()]

    def step(self, act, args):
        ret, err = [], "none"
        a = [s2t(x) for x in args]
        try:
            if act == "add":
                self.h.add(a[0], a[1])
            elif act == "set":
                self.h[a[0]] = a[1]
            elif act == "del":
                del self.h[a[0]]
            elif act == "get":
                ret = [t2s(self.h[a[0]])]
            elif act == "getlist":
                ret = [t2s(v) for v in self.h.get_list(a[0])]
            elif act == "in":
                ret = [[1 if a[0] in self.h else 0]]
            elif act == "iter":
                keys = list(self.h)
                if len(self.h) != len(keys):
                    keys.append("len() = %d" % len(self.h))
                ret = [t2s(k) for k in keys]
            elif act == "items":
                for k, v in self.h.items():
                    ret += [t2s(k), t2s(v)]
            elif act == "pop":
                ret = [t2s(self.h.pop(a[0]))]
            elif act == "copy":
                self.c = self.h.copy()
            elif act == "cadd":
                self.c.add(a[0], a[1])
            elif act == "cset":
                self.c[a[0]] = a[1]
            elif act == "cdel":
                del self.c[a[0]]
            elif act == "cget":
                ret = [t2s(self.c[a[0]])]
            elif act == "parseline":
                self.h.parse_line(a[0])
            elif act == "roundtrip":
                back = self.cls.parse(str(self.h))
                same = list(back.get_all()) == list(self.h.get_all()) and back == self.h
                ret = [[1 if same else 0]]
            else:
                raise ValueError("unknown action %r" % act)
        except ValueError as e:
            if str(e).startswith("unknown action"):
                raise
            ret, err = [], type(e).__name__
        except Exception as e:
            ret, err = [], type(e).__name__
        return {"all": self.flat(self.h), "call": self.flat(self.c), "ret": ret, "err": err}
