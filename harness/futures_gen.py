"""Path generation for the futures family: the Gen_* specifications print every complete
behaviour once as JSON (state constraint GenOut, `ToJson` of the community Json module), which
is two orders of magnitude cheaper to read back than a `-dump` of the history-extended states.
Used like ctx.gen_paths (same return shape, same evidence bookkeeping)."""
import json
import os

from . import VERIF, tlc
from .framework import Machinery, canon, make_cfg, jdump

_MARK = '"[\\"VPATH\\"'


def gen_paths(ctx, spec_dir, module, cfg, overrides=None, timeout=None, workers=None, bound_key="L"):
    spec_dir = os.path.join(VERIF, "specs", spec_dir)
    cfgp = os.path.join(spec_dir, cfg)
    if overrides:
        cfgp = make_cfg(cfgp, overrides, ctx.scratch, "%s_%s" % (module, os.path.basename(cfg)))
    r = tlc.run(spec_dir, module, cfgp, timeout=timeout or ctx.pick(300, 1500), workers=workers, deadlock=False)
    if not r.ok:
        raise Machinery("generation spec reported %s" % r.violation)
    out = []
    for ln in r.out.splitlines():
        if ln.startswith(_MARK):
            v = json.loads(ln[1:-1].replace('\\"', '"').replace("\\\\", "\\"))
            out.append(({"cfg": v[1]}, v[2]))
    if not out:
        raise Machinery("generation spec %s printed no behaviours" % module)
    ctx.cov["checker_cmd"].append("tlc -config %s %s  (complete behaviours printed as JSON)" % (cfg, module))
    ctx.cov["gen_runs"] = ctx.cov.get("gen_runs", []) + [
        {"module": module, "cfg": cfg, "overrides": canon(overrides or {}), "states": r.distinct,
         "all_paths": r.distinct, "maximal_paths": len(out), "wall_s": round(r.wall_s, 2)}]
    out.sort(key=lambda ep: json.dumps(ep, sort_keys=True))
    return out


def binding_demo(ctx, spec_dir, module, cfg, traces, corrupt, drop_act):
    """Non-vacuity of the trace validation: take a recorded trace that TLC accepts, (a) corrupt one
    logged observation with `corrupt(event)` and (b) drop the first `drop_act` event (callers pass
    traces whose later observations depend on it); TLC must reject both, else the
    trace specification binds nothing (machinery failure, exit 2)."""
    import copy
    from . import framework
    spec_dir = os.path.join(VERIF, "specs", spec_dir)
    cfgp = os.path.join(spec_dir, cfg)
    def droppable(t):
        idx = [i for i, e in enumerate(t["ev"]) if e["a"] == drop_act]
        return bool(idx) and idx[0] < len(t["ev"]) - 1      # a later observation depends on it
    cands = [t for t in traces if len(t["ev"]) >= 3 and droppable(t)][:40]
    acc, _ = framework._validate_shards(spec_dir, module, cfgp, cands, 1, ctx.scratch, ctx.pick(300, 900), verbose=False)
    good = [t for t in cands if t["id"] in acc]
    if not good:
        raise Machinery("binding demo: no accepted trace with >= 3 events to corrupt")
    base = good[0]
    a = copy.deepcopy(base)
    a["id"] = 900001
    k = len(a["ev"]) // 2
    corrupt(a["ev"][k])
    b = copy.deepcopy(base)
    b["id"] = 900002
    idx = [i for i, e in enumerate(b["ev"]) if e["a"] == drop_act]
    if idx:
        del b["ev"][idx[0]]
    else:
        b = None
    demo = [base, a] + ([b] if b else [])
    acc, _ = framework._validate_shards(spec_dir, module, cfgp, demo, 1, ctx.scratch, ctx.pick(300, 900), verbose=False)
    if base["id"] not in acc:
        raise Machinery("binding demo: the unmodified trace was not accepted")
    bad = [t["id"] for t in demo[1:] if t["id"] in acc]
    if bad:
        raise Machinery("binding demo: corrupted traces %s were accepted by %s" % (bad, module))
    ctx.cov["binding_demo"] = {"module": module, "base_trace": base["id"], "corrupted_rejected": len(demo) - 1}
