"""Path generation for the futures family: the Gen_* specifications print every complete
behaviour once as JSON (state constraint GenOut, `ToJson` of the community Json module), which
is two orders of magnitude cheaper to read back than a `-dump` of the history-extended states.
Used like ctx.gen_paths (same return shape, same evidence bookkeeping)."""
import json
import os

from . import VERIF, tlc
from .framework import Machinery, canon, make_cfg, jdump

_MARK = '"[\\"VPATH\\"'


def gen_paths(ctx, spec_dir, module, cfg, overrides=None, timeout=None, workers=None, bound_key="L"):
    spec_dir = os.path.join(VERIF, "specs", spec_dir)
    cfgp = os.path.join(spec_dir, cfg)
    if overrides:
        cfgp = make_cfg(cfgp, overrides, ctx.scratch, "%s_%s" % (module, os.path.basename(cfg)))
    r = tlc.run(spec_dir, module, cfgp, timeout=timeout or ctx.pick(300, 1500), workers=workers, deadlock=False)
    if not r.ok:
        raise Machinery("generation spec reported %s" % r.violation)
    out = []
    for ln in r.out.splitlines():
        if ln.startswith(_MARK):
            v = json.loads(ln[1:-1].replace('\\"', '"').replace("\\\\", "\\"))
            out.append(({"cfg": v[1]}, v[2]))
    if not out:
        raise Machinery("generation spec %s printed no behaviours" % module)
    ctx.cov["checker_cmd"].append("tlc -config %s %s  (complete behaviours printed as JSON)" % (cfg, module))
    ctx.cov["gen_runs"] = ctx.cov.get("gen_runs", []) + [
        {"module": module, "cfg": cfg, "overrides": canon(overrides or {}), "states": r.distinct,
         "all_paths": r.distinct, "maximal_paths": len(out), "wall_s": round(r.wall_s, 2)}]
    out.sort(key=lambda ep: json.dumps(ep, sort_keys=True))
    return out
