"""Drivers binding specs/webstatic/*.tla to tornado.web / tornado.routing / tornado.httputil
(C26 StaticPath, C27 StaticRange, C28 SlashRedirect, C31 Routing).

Everything here moves bytes or projects observations; the reference semantics (path
normalisation, range arithmetic, redirect safety, regex matching) live in the TLA+ modules.
Real Tornado objects: web.Application + httpserver.HTTPServer over harness.memstream (no
sockets), StaticFileHandler on a real scratch tree under /tmp (removed afterwards).

Text encoding shared with specs/webstatic/WebChars.tla: a raw URL is a list of units,
c < 256 literal byte, 256 + c the escape %XX (upper-case hex), 512 + c the escape %xx.
"""
import os
import shutil
import tempfile

from . import REPO  # noqa: F401
from .httpsim import ServerConn, make_app_server, split_responses, LogCapture
from .vloop import Env


# ----------------------------------------------------------------------------- text
def wire(raw):
    """raw unit list -> str as it travels in the request line."""
    out = []
    for u in raw:
        if u < 256:
            out.append(chr(u))
        elif u < 512:
            out.append("%%%02X" % (u - 256))
        else:
            out.append("%%%02x" % (u - 512))
    return "".join(out)


def unwire(text):
    """str as produced by the code (reverse_url, Location) -> raw unit list; escapes become units."""
    out = []
    i = 0
    hexd = "0123456789abcdefABCDEF"
    while i < len(text):
        c = text[i]
        if c == "%" and i + 3 <= len(text) and text[i + 1] in hexd and text[i + 2] in hexd:
            h = text[i + 1:i + 3]
            v = int(h, 16)
            out.append((512 if h != h.upper() else 256) + v)
            i += 3
        else:
            out.append(ord(c))
            i += 1
    return out


def chars(text):
    return [ord(c) for c in text]


def text_of(cs):
    return "".join(chr(c) for c in cs)


# ----------------------------------------------------------------------------- http
class Http:
    """One virtual loop per process; servers cached by key; one in-memory connection per request."""

    def __init__(self):
        import logging
        for n in ("tornado.access", "tornado.application", "tornado.general"):
            lg = logging.getLogger(n)
            lg.handlers = [logging.NullHandler()]
            lg.propagate = False
        self.env = Env()
        self.servers = {}

    def server(self, key, factory):
        s = self.servers.get(key)
        if s is None:
            app = factory()
            _, srv = make_app_server(self.env, app=app)
            s = self.servers[key] = (app, srv)
        return s

    def request(self, key, factory, method, target, headers=(), host="example.com"):
        """Returns (status, [(name, value)], body) or ('noresp', raw bytes)."""
        _, srv = self.server(key, factory)
        conn = ServerConn(self.env, srv)
        lines = ["%s %s HTTP/1.1" % (method, target), "Host: %s" % host, "Connection: close"]
        for n, v in headers:
            lines.append("%s: %s" % (n, v))
        data = ("\r\n".join(lines) + "\r\n\r\n").encode("latin-1")
        conn.send(data)
        conn.stream.pump()
        raw = conn.received()
        if not conn.closed():
            conn.peer_close()
        try:
            msgs = split_responses(raw, head_requests=(0,) if method == "HEAD" else ())
        except Exception:
            return ("noresp", raw)
        if len(msgs) != 1 or msgs[0][1] is None or not msgs[0][5]:
            return ("noresp", raw)
        _, code, _, hdrs, body, _ = msgs[0]
        return (code, hdrs, body)

    def close(self):
        self.env.close()


_HTTP = {}


def http():
    """Per-process Http instance (workers are forked; each builds its own loop lazily)."""
    pid = os.getpid()
    h = _HTTP.get(pid)
    if h is None:
        _HTTP.clear()
        h = _HTTP[pid] = Http()
    return h


def header(hdrs, name):
    vals = [v for n, v in hdrs if n.lower() == name.lower()]
    return vals[0] if len(vals) == 1 else (None if not vals else vals)


# ----------------------------------------------------------------------------- C26 tree
FILES_IN = {("a",): 11, ("index.html",): 14, ("sub", "index.html"): 12, ("sub", "b"): 13}
DIRS_IN = [("sub",), ("d",)]
FILES_OUT = {("o",): 21, ("r2", "a"): 22, ("rx", "index.html"): 23}


def content_for(fid):
    return (("<%02d>" % fid) * 8).encode()[:fid]


CONTENT_ID = {content_for(i): i for i in list(FILES_IN.values()) + list(FILES_OUT.values())}
MARKERS = [("<%02d>" % i).encode() for i in list(FILES_IN.values()) + list(FILES_OUT.values())]


class Tree:
    """The fixture tree of StaticPath.tla materialised under /tmp/<scratch>/ (two levels deep, like
    the specification's /tmp/P).  `outside` adds the files next to the root."""

    def __init__(self, outside):
        self.outside = outside
        self.base = tempfile.mkdtemp(prefix="vc26%s-" % ("o" if outside else "n"), dir="/tmp")
        self.name = os.path.basename(self.base)
        self.root = os.path.join(self.base, "r")
        os.makedirs(self.root)
        for d in DIRS_IN:
            os.makedirs(os.path.join(self.root, *d), exist_ok=True)
        for p, fid in FILES_IN.items():
            self._write(os.path.join(self.root, *p), fid)
        if outside:
            for p, fid in FILES_OUT.items():
                self._write(os.path.join(self.base, *p), fid)
        self.rootp = [chars("tmp"), chars(self.name)]

    @staticmethod
    def _write(path, fid):
        os.makedirs(os.path.dirname(path), exist_ok=True)
        with open(path, "wb") as f:
            f.write(content_for(fid))
        os.utime(path, (1000000000, 1000000000))

    def remove(self):
        shutil.rmtree(self.base, ignore_errors=True)

    def subst(self, raw):
        """Replace the placeholder directory name P of generated paths by the real scratch name
        (whole segments only; separators are '/', %2F, %2f)."""
        seps = (47, 256 + 47, 512 + 47)
        out, seg = [], []
        real = chars(self.name)
        for u in list(raw) + [None]:
            if u is None or u in seps:
                out.extend(real if seg == [80] else seg)
                if u is not None:
                    out.append(u)
                seg = []
            else:
                seg.append(u)
        return out


def static_app(root, dflt, pattern=r"/static/(.*)"):
    from tornado import web
    kw = {"path": root}
    if dflt:
        kw["default_filename"] = "index.html"
    return web.Application([(pattern, web.StaticFileHandler, kw)])


def static_request(tree, dflt, method, raw, prefix="/static/", pattern=r"/static/(.*)", headers=()):
    key = ("static", tree.base, dflt, pattern)
    return http().request(key, lambda: static_app(tree.root, dflt, pattern), method, prefix + wire(raw), headers)


def project_static(method, resp):
    """(kind, file, code) of a static response; 'leak' if a refusal carries file content."""
    if resp[0] == "noresp":
        return {"kind": "noresp", "file": 0}, 0
    code, hdrs, body = resp
    if code == 200:
        if method == "HEAD":
            cl = header(hdrs, "Content-Length")
            fid = int(cl) if isinstance(cl, str) and cl.isdigit() and int(cl) in CONTENT_ID.values() else -1
            if body:
                fid = -2
        else:
            fid = CONTENT_ID.get(body, -1)
        return {"kind": "serve", "file": fid}, code
    if any(m in body for m in MARKERS):
        return {"kind": "leak", "file": 0}, code
    if code in (301, 302, 303, 307, 308):
        return {"kind": "redirect", "file": 0}, code
    if code in (403, 404):
        return {"kind": "deny", "file": 0}, code
    return {"kind": "other%d" % code, "file": 0}, code


# ----------------------------------------------------------------------------- fast dump reader
def _tla_to_json(text):
    """TLC prints my states with records, tuples, strings, ints and booleans only (no sets, no
    functions); rewrite that subset to JSON and let the C parser do the work."""
    import re
    text = text.replace("[", "{").replace("]", "}").replace("<<", "[").replace(">>", "]")
    text = re.sub(r"(\w+) \|->", r'"\1":', text)
    text = text.replace("TRUE", "true").replace("FALSE", "false")
    return text


def read_dump_fast(fn, variables):
    """Parse a TLC -dump file into a list of {var: value}; falls back to harness.tlaval per state
    when the fast path does not apply (sets, functions, escapes)."""
    import json
    import re
    from . import tlaval
    from .framework import canon
    text = open(fn).read()
    out = []
    hdr = re.compile(r"^State \d+:.*$", re.M)
    conj = re.compile(r"^/\\ (\w+) = ", re.M)
    hs = list(hdr.finditer(text))
    for i, m in enumerate(hs):
        end = hs[i + 1].start() if i + 1 < len(hs) else len(text)
        body = text[m.end():end].strip()
        ms = list(conj.finditer(body))
        st = {}
        for j, cm in enumerate(ms):
            name = cm.group(1)
            if variables is not None and name not in variables:
                continue
            val = body[cm.end(): ms[j + 1].start() if j + 1 < len(ms) else len(body)]
            try:
                if "{" in val or "\\" in val or ":>" in val:
                    raise ValueError
                st[name] = json.loads(_tla_to_json(val))
            except ValueError:
                st[name] = canon(tlaval.parse_value(val))
        out.append(st)
    return out


def mc_states(ctx, spec_dir, module, cfg, overrides=None, required_actions=(), variables=("cfg", "step"), **kw):
    """One TLC run that both model-checks the specification (invariants, coverage) and dumps every
    reachable state; for the function-like specifications of this family each state after a request
    is one test case carrying TLC's expected response.  Returns [(extra, [step])]."""
    import time
    dump = os.path.join(ctx.scratch, "%s_mcdump_%d" % (module, len(os.listdir(ctx.scratch))))
    t0 = time.time()
    r = ctx.mc(spec_dir, module, cfg, overrides=overrides, required_actions=required_actions, dump=dump, **kw)
    fn = dump + ".dump"
    states = read_dump_fast(fn, set(variables))
    os.remove(fn)
    items = []
    for st in states:
        if st["step"]["act"] == "init":
            continue
        extra = {k: v for k, v in st.items() if k != "step"}
        items.append((extra, [st["step"]]))
    from .framework import jdump
    items.sort(key=lambda ep: jdump(ep))
    ctx.cov["gen_runs"] = ctx.cov.get("gen_runs", []) + [
        {"module": module, "cfg": cfg, "overrides": {k: (sorted(v) if isinstance(v, (set, frozenset)) else v) for k, v in (overrides or {}).items()},
         "states": r.distinct, "cases": len(items), "wall_s": round(time.time() - t0, 2)}]
    return items
