"""Drivers binding specs/webstatic/*.tla to tornado.web / tornado.routing / tornado.httputil
(C26 StaticPath, C27 StaticRange, C28 SlashRedirect, C31 Routing).

Everything here moves bytes or projects observations; the reference semantics (path
normalisation, range arithmetic, redirect safety, regex matching) live in the TLA+ modules.
Real Tornado objects: web.Application + httpserver.HTTPServer over harness.memstream (no
sockets), StaticFileHandler on a real scratch tree under /tmp (removed afterwards).

Text encoding shared with specs/webstatic/WebChars.tla: a raw URL is a list of units,
c < 256 literal byte, 256 + c the escape %XX (upper-case hex), 512 + c the escape %xx.
"""
import os
import shutil
import tempfile

from . import REPO  # noqa: F401
from .httpsim import ServerConn, make_app_server, split_responses, LogCapture
from .vloop import Env


# ----------------------------------------------------------------------------- text
def wire(raw):
    """raw unit list -> str as it travels in the request line."""
    out = []
    for u in raw:
        if u < 256:
            out.append(chr(u))
        elif u < 512:
            out.append("%%%02X" % (u - 256))
        else:
            out.append("%%%02x" % (u - 512))
    return "".join(out)


def unwire(text):
    """str as produced by the code (reverse_url, Location) -> raw unit list; escapes become units."""
    out = []
    i = 0
    hexd = "0123456789abcdefABCDEF"
    while i < len(text):
        c = text[i]
        if c == "%" and i + 3 <= len(text) and text[i + 1] in hexd and text[i + 2] in hexd:
            h = text[i + 1:i + 3]
            v = int(h, 16)
            out.append((512 if h != h.upper() else 256) + v)
            i += 3
        else:
            out.append(ord(c))
            i += 1
    return out


def chars(text):
    return [ord(c) for c in text]


def text_of(cs):
    return "".join(chr(c) for c in cs)


# ----------------------------------------------------------------------------- http
class Http:
    """One virtual loop per process; servers cached by key; one in-memory connection per request."""

    def __init__(self):
        import logging
        for n in ("tornado.access", "tornado.application", "tornado.general"):
            lg = logging.getLogger(n)
            lg.handlers = [logging.NullHandler()]
            lg.propagate = False
        self.env = Env()
        self.servers = {}

    def server(self, key, factory):
        s = self.servers.get(key)
        if s is None:
            app = factory()
            _, srv = make_app_server(self.env, app=app)
            s = self.servers[key] = (app, srv)
        return s

    def request(self, key, factory, method, target, headers=(), host="example.com"):
        """Returns (status, [(name, value)], body) or ('noresp', raw bytes)."""
        _, srv = self.server(key, factory)
        conn = ServerConn(self.env, srv)
        lines = ["%s %s HTTP/1.1" % (method, target), "Host: %s" % host, "Connection: close"]
        for n, v in headers:
            lines.append("%s: %s" % (n, v))
        data = ("\r\n".join(lines) + "\r\n\r\n").encode("latin-1")
        conn.send(data)
        conn.stream.pump()
        raw = conn.received()
        if not conn.closed():
            conn.peer_close()
        try:
            msgs = split_responses(raw, head_requests=(0,) if method == "HEAD" else ())
        except Exception:
            return ("noresp", raw)
        if len(msgs) != 1 or msgs[0][1] is None or not msgs[0][5]:
            return ("noresp", raw)
        _, code, _, hdrs, body, _ = msgs[0]
        return (code, hdrs, body)

    def close(self):
        self.env.close()


_HTTP = {}


def http():
    """Per-process Http instance (workers are forked; each builds its own loop lazily)."""
    pid = os.getpid()
    h = _HTTP.get(pid)
    if h is None:
        _HTTP.clear()
        h = _HTTP[pid] = Http()
    return h


def header(hdrs, name):
    vals = [v for n, v in hdrs if n.lower() == name.lower()]
    return vals[0] if len(vals) == 1 else (None if not vals else vals)


# ----------------------------------------------------------------------------- C26 tree
FILES_IN = {("a",): 11, ("index.html",): 14, ("sub", "index.html"): 12, ("sub", "b"): 13}
DIRS_IN = [("sub",), ("d",)]
FILES_OUT = {("o",): 21, ("r2", "a"): 22, ("rx", "index.html"): 23}


def content_for(fid):
    return (("<%02d>" % fid) * 8).encode()[:fid]


CONTENT_ID = {content_for(i): i for i in list(FILES_IN.values()) + list(FILES_OUT.values())}
MARKERS = [("<%02d>" % i).encode() for i in list(FILES_IN.values()) + list(FILES_OUT.values())]


class Trees:
    """The fixture tree of StaticPath.tla materialised twice under one scratch directory
    /tmp/<scratch>/: side "w" with and side "n" without the files next to the root."""

    def __init__(self):
        self.base = tempfile.mkdtemp(prefix="vc26-", dir="/tmp")
        self.name = os.path.basename(self.base)
        self.root = {}
        for outside, side in ((True, "w"), (False, "n")):
            sb = os.path.join(self.base, side)
            root = self.root[outside] = os.path.join(sb, "r")
            os.makedirs(root)
            for d in DIRS_IN:
                os.makedirs(os.path.join(root, *d), exist_ok=True)
            for p, fid in FILES_IN.items():
                self._write(os.path.join(root, *p), fid)
            if outside:
                for p, fid in FILES_OUT.items():
                    self._write(os.path.join(sb, *p), fid)

    @staticmethod
    def side(outside):
        return "w" if outside else "n"

    @staticmethod
    def _write(path, fid):
        os.makedirs(os.path.dirname(path), exist_ok=True)
        with open(path, "wb") as f:
            f.write(content_for(fid))
        os.utime(path, (1000000000, 1000000000))

    def remove(self):
        shutil.rmtree(self.base, ignore_errors=True)

    def subst(self, raw, outside):
        """Replace the placeholder names P (scratch directory) and S (side) of generated paths by
        the real names (whole segments only; separators are '/', %2F, %2f)."""
        seps = (47, 256 + 47, 512 + 47)
        out, seg = [], []
        real = {(80,): chars(self.name), (83,): chars(self.side(outside))}
        for u in list(raw) + [None]:
            if u is None or u in seps:
                out.extend(real.get(tuple(seg), seg))
                if u is not None:
                    out.append(u)
                seg = []
            else:
                seg.append(u)
        return out

    def abs_root_units(self, outside):
        out = []
        for nm in ("tmp", self.name, self.side(outside), "r"):
            out.append(256 + 47)
            out.extend(chars(nm))
        return out


def enc_name(name):
    """TLC cfg files cannot hold sequences: a name travels as the set {1000 * i + c_i}."""
    return "{%s}" % ", ".join(str(1000 * (i + 1) + ord(c)) for i, c in enumerate(name))


def static_app(root, dflt, pattern=r"/static/(.*)"):
    from tornado import web
    kw = {"path": root}
    if dflt:
        kw["default_filename"] = "index.html"
    return web.Application([(pattern, web.StaticFileHandler, kw)])


def spelled_root(root, spell):
    """The same directory, spelled the way an application might configure it (StaticPath.SpelledRoot)."""
    if spell == "trailing":
        return root + "/"
    if spell == "dotted":
        return os.path.join(os.path.dirname(root), ".", os.path.basename(root))
    if spell == "dotdot":
        return os.path.join(root, "sub", "..")
    if spell == "relative":
        return os.path.relpath(root)
    return root


def static_request(root, dflt, method, raw, prefix="/static/", pattern=r"/static/(.*)", headers=(), spell="plain"):
    key = ("static", root, dflt, pattern, spell)
    return http().request(key, lambda: static_app(spelled_root(root, spell), dflt, pattern), method, prefix + wire(raw), headers)


def project_static(method, resp):
    """(kind, file, code) of a static response; 'leak' if a refusal carries file content."""
    if resp[0] == "noresp":
        return {"kind": "noresp", "file": 0}, 0
    code, hdrs, body = resp
    if code == 200:
        if method == "HEAD":
            cl = header(hdrs, "Content-Length")
            fid = int(cl) if isinstance(cl, str) and cl.isdigit() and int(cl) in CONTENT_ID.values() else -1
            if body:
                fid = -2
        else:
            fid = CONTENT_ID.get(body, -1)
        return {"kind": "serve", "file": fid}, code
    if any(m in body for m in MARKERS):
        return {"kind": "leak", "file": 0}, code
    if code in (301, 302, 303, 307, 308):
        return {"kind": "redirect", "file": 0}, code
    if code in (403, 404):
        return {"kind": "deny", "file": 0}, code
    return {"kind": "other%d" % code, "file": 0}, code


# ----------------------------------------------------------------------------- fast dump reader
def _tla_to_json(text):
    """TLC prints my states with records, tuples, strings, ints and booleans only (no sets, no
    functions); rewrite that subset to JSON and let the C parser do the work."""
    import re
    text = text.replace("[", "{").replace("]", "}").replace("<<", "[").replace(">>", "]")
    text = re.sub(r"(\w+) \|->", r'"\1":', text)
    text = text.replace("TRUE", "true").replace("FALSE", "false")
    return text


def read_dump_fast(fn, variables):
    """Parse a TLC -dump file into a list of {var: value}; falls back to harness.tlaval per state
    when the fast path does not apply (sets, functions, escapes)."""
    import json
    import re
    from . import tlaval
    from .framework import canon
    text = open(fn).read()
    out = []
    hdr = re.compile(r"^State \d+:.*$", re.M)
    conj = re.compile(r"^/\\ (\w+) = ", re.M)
    hs = list(hdr.finditer(text))
    for i, m in enumerate(hs):
        end = hs[i + 1].start() if i + 1 < len(hs) else len(text)
        body = text[m.end():end].strip()
        ms = list(conj.finditer(body))
        st = {}
        for j, cm in enumerate(ms):
            name = cm.group(1)
            if variables is not None and name not in variables:
                continue
            val = body[cm.end(): ms[j + 1].start() if j + 1 < len(ms) else len(body)]
            try:
                if "{" in val or "\\" in val or ":>" in val:
                    raise ValueError
                st[name] = json.loads(_tla_to_json(val))
            except ValueError:
                st[name] = canon(tlaval.parse_value(val))
        out.append(st)
    return out


def mc_states(ctx, spec_dir, module, cfg, overrides=None, required_actions=(), variables=("cfg", "step"), timeout=None,
              violation_sig=None):
    """One TLC run that both model-checks the specification (all INVARIANT lines of the cfg) and
    dumps every reachable state; for the function-like specifications of this family each state
    after a request is one test case carrying TLC's expected response.  Returns [(extra, [step])].

    Mirrors Ctx.mc but without `-coverage 1`: TLC's coverage mode disables the memoisation of LET
    definitions, which makes the character-level folds of these modules orders of magnitude slower
    (StaticRange: 7 s without, > 600 s with).  Non-vacuity is established from the dump instead:
    the number of reachable states produced by each action (`step.act`) is recorded in
    coverage_by_action and every name in required_actions must occur."""
    import time
    from . import VERIF, tlc
    from .framework import make_cfg, canon, jdump, Machinery
    sd = os.path.join(VERIF, "specs", spec_dir)
    cfgp = os.path.join(sd, cfg)
    if overrides:
        cfgp = make_cfg(cfgp, overrides, ctx.scratch, "%s_%d_%s" % (module, len(os.listdir(ctx.scratch)), os.path.basename(cfg)))
    dump = os.path.join(ctx.scratch, "%s_mcdump_%d" % (module, len(os.listdir(ctx.scratch))))
    t0 = time.time()
    r = tlc.run(sd, module, cfgp, timeout=timeout or ctx.pick(900, 1500), dump=dump)
    ov = {k: (sorted(v) if isinstance(v, (set, frozenset)) else v) for k, v in (overrides or {}).items()}
    ctx.cov["states"] += r.distinct
    ctx.cov["transitions"] += r.generated
    ctx.cov["mc_runs"].append({"module": module, "cfg": cfg, "overrides": ov, "distinct": r.distinct,
                               "generated": r.generated, "depth": r.depth, "wall_s": round(r.wall_s, 2), "ok": r.ok})
    ctx.cov["checker_cmd"].append("tlc -dump -config %s %s" % (cfg, module))
    if not r.ok:
        states = tlc.parse_error_trace(r.violation["text"])
        sig = {"kind": "spec", "module": module, "name": r.violation["name"], "what": r.violation["kind"]}
        if violation_sig:
            sig.update(violation_sig(r, states) or {})
        ctx.violation(sig,
                      {"tlc_trace": canon([[a, s] for a, s in states]) or r.violation["text"][:6000]})
    fn = dump + ".dump"
    states = read_dump_fast(fn, set(variables)) if os.path.exists(fn) else []
    if os.path.exists(fn):
        os.remove(fn)
    items = []
    acts = {}
    for st in states:
        a = st["step"]["act"]
        acts[a] = acts.get(a, 0) + 1
        if a == "init":
            continue
        extra = {k: v for k, v in st.items() if k != "step"}
        items.append((extra, [st["step"]]))
    for a, k in acts.items():
        key = module + "." + a
        ctx.cov["coverage_by_action"][key] = ctx.cov["coverage_by_action"].get(key, 0) + k
    for a in required_actions:
        if not acts.get(a):
            raise Machinery("vacuity: no reachable state produced by action %s of %s under %s" % (a, module, cfg))
    items.sort(key=lambda ep: jdump(ep))
    ctx.cov["gen_runs"] = ctx.cov.get("gen_runs", []) + [
        {"module": module, "cfg": cfg, "overrides": ov, "states": r.distinct, "cases": len(items), "wall_s": round(time.time() - t0, 2)}]
    return items


# ----------------------------------------------------------------------------- C27 range files
MTIME = 1000000000


def range_content(size, k):
    return bytes((k + 7 * i) % 251 for i in range(size))


class RangeFiles:
    """One file per (size, k) in a scratch directory under /tmp; fixed mtime."""

    def __init__(self):
        self.base = tempfile.mkdtemp(prefix="vc27-", dir="/tmp")
        self.made = set()

    def ensure(self, size, k):
        name = "f%d_%d.bin" % (size, k)
        if (size, k) not in self.made:
            p = os.path.join(self.base, name)
            if not os.path.exists(p):
                tmp = p + ".%d.tmp" % os.getpid()
                with open(tmp, "wb") as f:
                    f.write(range_content(size, k))
                os.utime(tmp, (MTIME, MTIME))
                os.rename(tmp, p)
            self.made.add((size, k))
        return name

    def remove(self):
        shutil.rmtree(self.base, ignore_errors=True)


_ETAGS = {}


def http_date(t, fmt):
    """The instant t in one of the HTTP-date spellings of StaticRange.Fmts."""
    import email.utils
    import time
    g = time.gmtime(t)
    if fmt == "rfc850":
        return time.strftime("%A, %d-%b-%y %H:%M:%S GMT", g)
    if fmt == "asctime":
        return time.strftime("%a %b ", g) + "%2d" % g.tm_mday + time.strftime(" %H:%M:%S %Y", g)
    s = email.utils.formatdate(t, usegmt=True)
    return s.replace("GMT", "-0000") if fmt == "nozone" else s


def range_request(files, size, k, method, has_range, value, inm, ims, fmt="imf"):
    """One GET/HEAD for the (size, k) file with the abstract validators made concrete."""
    import email.utils
    name = files.ensure(size, k)
    key = ("range", files.base)
    factory = lambda: static_app(files.base, False)
    hdrs = []
    if inm != "none":
        etag = _ETAGS.get((files.base, name))
        if etag is None:
            r = http().request(key, factory, "GET", "/static/" + name)
            etag = _ETAGS[(files.base, name)] = header(r[1], "Etag") if r[0] != "noresp" else None
        if not isinstance(etag, str):
            return ("noresp", b"no etag")
        hdrs.append(("If-None-Match", {"match": etag, "differ": '"nomatch"', "star": "*", "weak": "W/" + etag,
                                        "list": '"x", ' + etag, "listdiffer": '"x", W/"y"'}[inm]))
    if ims != "none":
        hdrs.append(("If-Modified-Since", {"before": http_date(MTIME - 1, fmt), "equal": http_date(MTIME, fmt),
                                            "after": http_date(MTIME + 3600, fmt), "garbage": "yesterday"}[ims]))
    if has_range:
        hdrs.append(("Range", text_of(value)))
    return http().request(key, factory, method, "/static/" + name, hdrs)


def project_range(resp):
    import re
    if resp[0] == "noresp":
        return {"st": 0, "crk": "noresp", "a": 0, "b": 0, "n": 0, "cl": 0, "body": []}
    code, hdrs, body = resp
    cr = header(hdrs, "Content-Range")
    crk, a, b, n = "none", 0, 0, 0
    if cr is not None:
        m = re.fullmatch(r"bytes ([0-9]+)-([0-9]+)/([0-9]+)", cr) if isinstance(cr, str) else None
        m2 = re.fullmatch(r"bytes \*/([0-9]+)", cr) if isinstance(cr, str) else None
        if m:
            crk, a, b, n = "range", int(m.group(1)), int(m.group(2)), int(m.group(3))
        elif m2:
            crk, n = "star", int(m2.group(1))
        else:
            crk = "bad"
    cl = header(hdrs, "Content-Length")
    cl = int(cl) if isinstance(cl, str) and cl.isascii() and cl.isdigit() else -1
    if code == 304:
        cl = 0
    return {"st": code, "crk": crk, "a": a, "b": b, "n": n, "cl": cl, "body": list(body)}


def parse_range_direct(value):
    from tornado import httputil
    try:
        r = httputil._parse_request_range(text_of(value))
    except Exception as e:          # an observation
        return {"ignored": "exc:" + type(e).__name__}
    return {"ignored": r is None or r == (None, None)}


def range_features(value):
    """Canonical low-cardinality description of a Range value (for violation signatures only)."""
    import re
    t = text_of(value).strip(" \t")
    fs = set()
    if t != t.strip():
        fs.add("leadws")            # whitespace other than SP / HTAB around the value
        t = t.strip()
    m = re.match(r"bytes(\s*)=", t)
    if not m:
        return "unit"
    if m.group(1):
        fs.add("unitsp")
    body = t[m.end():]
    names = {"+": "plus", "_": "us", " ": "sp", "\t": "tab", ",": "comma", "\xa0": "nbsp", "=": "eq", ".": "dot"}
    for ch in body:
        if ch in "0123456789-":
            continue
        fs.add(names.get(ch, "nonascii" if ord(ch) > 127 else "other"))
    d = body.count("-")
    if d == 0:
        fs.add("nodash")
    elif d > 1:
        fs.add("dashes")
    return "+".join(sorted(fs)) or "plain"


# ----------------------------------------------------------------------------- C28 redirects
LOGIN_URLS = {"auth_rel": "/login", "auth_query": "/login?x=1", "auth_abs": "http://auth.test/login"}


def slash_app(kind, static_root=None):
    from tornado import web

    if kind in ("removeslash", "addslash"):
        deco = getattr(web, kind)

        class H(web.RequestHandler):
            @deco
            def get(self):
                self.write("ok")

            @deco
            def head(self):
                pass

            @deco
            def post(self):
                self.write("ok")
        return web.Application([(r".*", H)])
    if kind in ("static1", "static2", "static3"):
        pattern = {"static1": r"/(.*)", "static2": r"/+(.*)", "static3": r"(.*)"}[kind]
        return web.Application([(pattern, web.StaticFileHandler, {"path": static_root, "default_filename": "index.html"})])

    class A(web.RequestHandler):
        def get_current_user(self):
            return None

        @web.authenticated
        def get(self):
            self.write("secret")

        @web.authenticated
        def head(self):
            pass

        @web.authenticated
        def post(self):
            self.write("secret")
    return web.Application([(r".*", A)], login_url=LOGIN_URLS[kind])


def slash_request(kind, static_root, method, raw, hasq, q):
    target = wire(raw) + ("?" + text_of(q) if hasq else "")
    key = ("slash", kind, static_root)
    hdrs = [("Content-Length", "0")] if method == "POST" else []
    resp = http().request(key, lambda: slash_app(kind, static_root), method, target, hdrs)
    if resp[0] == "noresp":
        return {"st": 0, "loc": []}
    code, h, _ = resp
    loc = header(h, "Location")
    if isinstance(loc, list):
        return {"st": code, "loc": chars("<multiple Location headers>")}
    return {"st": code, "loc": chars(loc) if loc is not None else []}


# ----------------------------------------------------------------------------- C31 routing
ELEM_RE = {"s": "/", "a": "a", "1": "1", "dot": r"\.", "Gns": "([^/]+)", "Gany": "(.*)", "Gdig": "([0-9]+)",
           "Nns": "(?P<g%d>[^/]+)", "Nany": "(?P<g%d>.*)", "Ndig": "(?P<g%d>[0-9]+)"}
HOST_RE = {"h_a": r"a\.com", "h_any": ".*"}


def pattern_text(elems):
    out, k = [], 0
    for e in elems:
        t = ELEM_RE[e]
        if e[0] in "GN":
            k += 1
            if "%d" in t:
                t = t % k
        out.append(t)
    return "".join(out)


_HANDLERS = {}


def _handler(i, j):
    from tornado import web
    h = _HANDLERS.get((i, j))
    if h is None:
        import json

        def get(self, *args, **kwargs):
            self.write(json.dumps({"h": type(self).__name__, "args": [[ord(c) for c in a] for a in args],
                                   "kwargs": {k: [ord(c) for c in v] for k, v in kwargs.items()}}))
        h = _HANDLERS[(i, j)] = type("H_%d_%d" % (i, j), (web.RequestHandler,), {"get": get})
    return h


def routing_app(rules, dh="none"):
    """A real Application for the abstract rule list of Routing.tla; every rule is a named URLSpec
    r_i_j with its own handler class H_i_j.  Entries of kind "addh" are added after construction
    with Application.add_handlers; dh is the application's default_host."""
    from tornado import web
    from tornado.routing import HostMatches
    top, later = [], []
    for i, e in enumerate(rules, 1):
        if e["k"] == "path":
            top.append(web.url(pattern_text(e["p"]), _handler(i, 0), name="r_%d_0" % i))
            continue
        subs = [web.url(pattern_text(p), _handler(i, j), name="r_%d_%d" % (i, j)) for j, p in enumerate(e["sub"], 1)]
        if e["k"] == "host":
            top.append((HostMatches(HOST_RE[e["h"]]), subs))
        elif e["k"] == "nest":
            top.append((pattern_text(e["p"]), subs))
        else:
            later.append((HOST_RE[e["h"]], subs))
    app = web.Application(top, default_host=None if dh == "none" else dh)
    for hp, subs in later:
        app.add_handlers(hp, subs)
    return app


_APPS = {}


def routing_get_app(rules, dh="none"):
    from .framework import jdump
    key = jdump([rules, dh])
    a = _APPS.get(key)
    if a is None:
        if len(_APPS) > 2000:
            _APPS.clear()
        a = _APPS[key] = routing_app(rules, dh)
    return a


def _rule_of(name):
    if name.startswith("H_"):
        _, i, j = name.split("_")
        return [int(i), int(j)]
    return [0, 0] if name == "ErrorHandler" else name


def routing_dispatch(rules, host, text, dh="none"):
    """Application.find_handler on a constructed request: (rule, raw captured args)."""
    from tornado import httputil
    try:
        app = routing_get_app(rules, dh)
        req = httputil.HTTPServerRequest(start_line=httputil.RequestStartLine("GET", text_of(text), "HTTP/1.1"),
                                         headers=httputil.HTTPHeaders({"Host": host}))
        d = app.find_handler(req)
        kw = d.path_kwargs
        args = [kw[k] for k in sorted(kw)] if kw else list(d.path_args)
        return {"rule": _rule_of(d.handler_class.__name__), "args": [list(a) if a is not None else "none" for a in args], "named": bool(kw)}
    except Exception as e:
        return {"rule": "exc:" + type(e).__name__, "args": [], "named": False}


def routing_dispatch_http(rules, host, text, dh="none"):
    """The same through the HTTP server: what the handler method actually received."""
    import json
    key = ("routing", __import__("harness.framework", fromlist=["jdump"]).jdump([rules, dh]))
    resp = http().request(key, lambda: routing_app(rules, dh), "GET", text_of(text), host=host)
    if resp[0] == "noresp":
        return {"rule": "noresp", "args": [], "named": False}
    code, _, body = resp
    if code == 404:
        return {"rule": [0, 0], "args": [], "named": False}
    if code != 200:
        return {"rule": "status%d" % code, "args": [], "named": False}
    d = json.loads(body)
    kw = d["kwargs"]
    return {"rule": _rule_of(d["h"]), "args": [kw[k] for k in sorted(kw)] if kw else d["args"], "named": bool(kw)}


def routing_reverse(rules, i, j, args, dh="none"):
    try:
        app = routing_get_app(rules, dh)
        return {"url": chars(app.reverse_url("r_%d_%d" % (i, j), *[text_of(a) for a in args]))}
    except Exception as e:
        return {"url": "exc:" + type(e).__name__}
