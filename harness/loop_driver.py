"""Drivers binding specs/loop/*.tla to tornado.ioloop (C38: IOLoopSched, RunSync, CrossThread;
C39: Periodic).

Every *Real class wraps the REAL Tornado objects (IOLoop on the virtual-time asyncio loop of
harness.vloop, PeriodicCallback) behind `step(act, args) -> projection`, the projection being
the `Proj` of the corresponding specification.  Exceptions of the code under test are
observations.  The drivers step the loop ONE ITERATION at a time (call_soon(stop) +
run_forever() is exactly one BaseEventLoop._run_once) and set the virtual clocks directly.
"""
import asyncio
import datetime
import logging

from .vloop import Env, VLoop

T0 = 1000.0          # asyncio (monotonic) clock value at spec time 0


class ItemError(Exception):
    def __init__(self, item):
        Exception.__init__(self, "item %d" % item)
        self.item = item


class _Capture(logging.Handler):
    def __init__(self):
        logging.Handler.__init__(self)
        self.records = []

    def emit(self, record):
        self.records.append(record)


class LogTap:
    """Collects the records of the tornado.application logger (where IOLoop._run_callback logs)."""

    def __init__(self, name="tornado.application"):
        self.logger = logging.getLogger(name)
        self.h = _Capture()
        self.old = (self.logger.propagate, self.logger.level)
        self.logger.addHandler(self.h)
        self.logger.propagate = False
        self.logger.setLevel(logging.DEBUG)

    @property
    def records(self):
        return self.h.records

    def close(self):
        self.logger.removeHandler(self.h)
        self.logger.propagate, self.logger.level = self.old


def one_iteration(loop):
    """Exactly one iteration of the asyncio loop (what was ready + the timers that are due)."""
    loop.call_soon(loop.stop)
    loop.run_forever()


# ------------------------------------------------------------------------------------------
# C38: IOLoopSched

OFFSETS = [0.0, 500.0, 1700000000.0, 86400.0]
SCALES = [0.5, 1.0, 1.0, 86400.5]       # seconds per tick: sub-second and more-than-a-day timedeltas too (item 1 / item 2 get the timedelta form in variants 0 / 3)
CB_FORMS = ["add", "spawn"]
TO_FORMS = ["abs", "delta", "later", "at"]


class SchedReal:
    """Real IOLoop behind the IOLoopSched.tla action interface.

    cfg.off: IOLoop.time() = asyncio clock + off (the two clocks are not synchronised; call_at
    must convert).  variant selects the API form used where the path says form "x"."""

    def __init__(self, cfg, variant=0):
        self.env = Env(start=T0)
        self.loop = self.env.loop
        self.io = self.env.io_loop
        # the specification does not depend on the offset; where the behaviour does not fix one
        # (off = 0) the replay variant picks it: none, small, epoch scale
        self.off = float(cfg.get("off", 0)) or OFFSETS[variant % len(OFFSETS)]
        self.scale = SCALES[variant % len(SCALES)]
        loop = self.loop
        off = self.off
        self.io.time = lambda: loop.time() + off
        self.variant = variant
        self.iter = 0
        self.in_iter = False
        self.n = 0
        self.ran = []
        self.handles = {}
        self.futs = {}
        self.tap = LogTap()
        self.kinds = {}
        self.harness_err = None

    # -- time in ticks on the IOLoop's clock
    def ticks(self):
        x = (self.io.time() - self.off - T0) / self.scale
        return int(x) if x == int(x) else x

    def _note(self, i):
        self.ran.append([i, self.ticks(), self.iter if self.in_iter else -self.iter - 1])

    def _callable(self, i, k, a):
        """The python callable for item i with script (k, a).  It is scheduled as
        f(i, tag=i) so that positional and keyword arguments must both be passed through."""
        self.kinds[i] = k
        io = self.io
        me = self

        def pre(item, tag):
            if item != i or tag != i:
                raise AssertionError("arguments not passed through: %r %r" % (item, tag))
            me._note(i)

        if k in ("failcoro", "okcoro"):
            # the callback returns a coroutine object; the call itself is what the loop runs
            async def body():
                if k == "failcoro":
                    raise ItemError(i)
                return 5

            def f(item, tag=None):
                pre(item, tag)
                return body()
            return f

        def f(item, tag=None):
            pre(item, tag)
            if k == "noop":
                return None
            if k == "retval":
                return 42
            if k == "raise":
                raise ItemError(i)
            if k == "cancel":
                raise asyncio.CancelledError()
            if k == "failfut":
                fut = asyncio.Future(loop=me.loop)
                fut.set_exception(ItemError(i))
                return fut
            c = i + 100
            if k == "addcb":
                io.add_callback(me._callable(c, "raise" if a == 1 else "noop", 0), c, tag=c)
            elif k == "addfut":
                fut = asyncio.Future(loop=me.loop)
                fut.set_result(None)
                me.futs[c] = fut
                g = me._callable(c, "noop", 0)
                io.add_future(fut, lambda fu: g(c, tag=c))
            elif k == "addto":
                me.handles[c] = me._add_timeout("x", a, me._callable(c, "noop", 0), c)
            elif k == "rm":
                h = me.handles.get(a)
                if h is not None:
                    io.remove_timeout(h)
            elif k == "resolve":
                fu = me.futs.get(a)
                if fu is not None and not fu.done():
                    fu.set_result(None)
            else:
                me.harness_err = "unknown script %r" % k
            return None
        return f

    def _add_timeout(self, form, d, f, i):
        io = self.io
        if form == "x":
            form = TO_FORMS[(i + self.variant) % 4]
        d = d * self.scale
        if form == "abs":
            return io.add_timeout(io.time() + d, f, i, tag=i)
        if form == "delta":
            return io.add_timeout(datetime.timedelta(seconds=d), f, i, tag=i)
        if form == "later":
            return io.call_later(d, f, i, tag=i)
        if form == "at":
            return io.call_at(io.time() + d, f, i, tag=i)
        raise ValueError(form)

    def proj(self):
        errs, ferrs = [], set()
        extra = []
        for r in self.tap.records:
            e = r.exc_info[1] if r.exc_info else None
            if isinstance(e, ItemError):
                if self.kinds.get(e.item) in ("failfut", "failcoro"):
                    ferrs.add(e.item)
                else:
                    errs.append(e.item)
            else:
                extra.append(type(e).__name__ if e is not None else r.getMessage()[:60])
        for c in self.loop.uncaught:          # what reached asyncio's exception handler instead
            e = c.get("exception")
            if isinstance(e, ItemError):
                if self.kinds.get(e.item) in ("failfut", "failcoro"):
                    ferrs.add(e.item)
                else:
                    errs.append(e.item)
            else:
                extra.append("asyncio:" + (type(e).__name__ if e is not None else str(c.get("message"))[:60]))
        p = {"ran": [list(x) for x in self.ran], "errs": errs, "ferrs": sorted(ferrs)}
        if extra:
            p["unexpected_log"] = extra
        if self.harness_err:
            p["harness"] = self.harness_err
        return p

    def step(self, act, args):
        io = self.io
        try:
            if act == "add_callback":
                form, k, a = args
                self.n += 1
                i = self.n
                f = self._callable(i, k, a)
                if form == "x":
                    form = CB_FORMS[(i + self.variant) % 2]
                if form == "spawn":
                    io.spawn_callback(f, i, tag=i)
                else:
                    io.add_callback(f, i, tag=i)
            elif act == "add_timeout":
                form, d, k, a = args
                self.n += 1
                i = self.n
                self.handles[i] = self._add_timeout(form, d, self._callable(i, k, a), i)
            elif act == "add_future":
                done, k, a = args
                self.n += 1
                i = self.n
                fut = asyncio.Future(loop=self.loop)
                if done == 1:
                    fut.set_result(None)
                self.futs[i] = fut
                g = self._callable(i, k, a)
                io.add_future(fut, lambda fu, i=i: g(i, tag=i) if fu is fut else g(-1, tag=i))
            elif act == "resolve":
                self.futs[args[0]].set_result(None)
            elif act == "remove":
                io.remove_timeout(self.handles[args[0]])
            elif act == "advance":
                self.loop._vtime += args[0] * self.scale
            elif act == "iterate":
                self.iter += 1
                self.in_iter = True
                try:
                    one_iteration(self.loop)
                finally:
                    self.in_iter = False
            else:
                raise ValueError(act)
        except Exception as e:          # an exception escaping a public call is an observation
            p = self.proj()
            p["raised"] = type(e).__name__
            return p
        return self.proj()

    def close(self):
        self.tap.close()
        self.env.close()


# ------------------------------------------------------------------------------------------
# C39: Periodic

# (tick length in seconds, wall clock value at tick 0, how callback_time is given)
# All values are dyadic so that the float arithmetic of _update_next is exact and comparable
# with the integer specification; 2**-19 s is about 1.9 microseconds, at epoch scale.
PERIODIC_SCALES = [
    (2.0 ** -19, 1700000000.0, "ms"),
    (2.0 ** -6, 50000.0, "timedelta"),     # 15.625 ms per tick: non-integral milliseconds, exact in float and in timedelta
    (1.0, 1700000000.0, "ms"),
    (0.25, 1234567.5, "ms"),
    (2.0 ** -10, 0.0, "ms"),
    (0.25, 50000.0, "timedelta"),
]


class PeriodicReal:
    """Real PeriodicCallback behind the Periodic.tla action interface, on a loop with separate
    wall (IOLoop.time) and monotonic (asyncio loop) virtual clocks.  Deadlines are observed where
    PeriodicCallback hands them to IOLoop.add_timeout."""

    MAX_SCHED = 400

    def __init__(self, cfg, variant=0):
        from tornado.ioloop import PeriodicCallback
        self.tick, self.w0, how = PERIODIC_SCALES[variant % len(PERIODIC_SCALES)]
        self.env = Env(start=T0)
        self.loop = self.env.loop
        self.io = self.env.io_loop
        self.cfg = cfg
        self.wall = cfg["w0"]
        self.mono = 0
        self.io.time = lambda: self.w0 + self.wall * self.tick
        self.sched = []
        self.calls = 0
        self.ends = 0
        self.inflight = 0
        self.max_inflight = 0
        self.gates = []
        self.tap = LogTap()
        real_add = self.io.add_timeout
        self.pending = []

        def add_timeout(deadline, callback, *a, **kw):
            if len(self.sched) >= self.MAX_SCHED:
                # a PeriodicCallback that keeps rescheduling without the clock moving (livelock):
                # cut it off; the over-long `sched` is the observation
                raise RuntimeError("harness: more than %d add_timeout calls" % self.MAX_SCHED)
            self.sched.append(self._to_ticks(deadline))
            h = real_add(deadline, callback, *a, **kw)
            self.pending.append(h)
            del self.pending[:-16]
            return h
        self.io.add_timeout = add_timeout
        kind = cfg["kind"]
        me = self

        def sync_cb():
            me.calls += 1
            if kind == "raise":
                raise ItemError(0)

        def coro_cb():
            me.calls += 1
            me.inflight += 1
            me.max_inflight = max(me.max_inflight, me.inflight)
            gate = asyncio.Future(loop=me.loop)
            me.gates.append(gate)

            async def body():
                try:
                    await gate
                finally:
                    me.inflight -= 1
                    me.ends += 1
                if kind == "cororaise":
                    raise ItemError(0)
            return body()
        cb = coro_cb if kind in ("coro", "cororaise") else sync_cb
        p_s = cfg["p"] * self.tick
        # PeriodicJitter.tla: jitter = 1/2 with scripted draws.  A draw f (6..9) is the random number
        # (f - 6)/4, so the period used is p*f/8 - dyadic, hence exact in float arithmetic.
        self.jit = bool(cfg.get("jit"))
        self.rq = []
        self.rnd = 0
        self._saved_random = None
        kw = {}
        if self.jit:
            import tornado.ioloop as _il
            real_random = _il.random

            class _Scripted:
                def random(_s):
                    me.rnd += 1
                    return me.rq.pop(0) if me.rq else 0.5

                def __getattr__(_s, name):
                    return getattr(real_random, name)
            self._saved_random = (_il, real_random)
            _il.random = _Scripted()
            kw["jitter"] = 0.5
        if how == "timedelta":
            self.pc = PeriodicCallback(cb, datetime.timedelta(seconds=p_s), **kw)
        else:
            self.pc = PeriodicCallback(cb, p_s * 1000.0, **kw)

    def _to_ticks(self, t):
        x = (t - self.w0) / self.tick
        return int(x) if x == int(x) else x

    def _armed(self):
        # a timeout handed out by add_timeout that has neither fired nor been cancelled
        n = 0
        for h in self.pending:
            if not h.cancelled() and h in self.loop._scheduled:
                n += 1
        return n

    def proj(self):
        errs = 0
        extra = []
        for r in self.tap.records:
            e = r.exc_info[1] if r.exc_info else None
            if isinstance(e, ItemError):
                errs += 1
            else:
                extra.append(type(e).__name__ if e is not None else r.getMessage()[:60])
        for c in self.loop.uncaught:
            extra.append("asyncio:" + str(c.get("message"))[:60])
        p = {"running": 1 if self.pc.is_running() else 0, "armed": self._armed(), "inflight": self.inflight,
             "calls": self.calls, "sched": list(self.sched), "errs": errs}
        if self.jit:
            p["rnd"] = self.rnd
        if extra:
            p["unexpected_log"] = extra
        return p

    def step(self, act, args):
        if self.jit and act != "stop":
            r = (args[-1] - 6) / 4.0
            # cfg["mirror"]: the same period under the mirrored convention p*(1 + j*(1/2 - r))
            self.rq[:] = [1.0 - r if self.cfg.get("mirror") else r]
            args = args[:-1]
        try:
            if act == "start":
                self.pc.start()
            elif act == "stop":
                self.pc.stop()
            elif act == "tick":
                dw, dm = args
                self.wall += dw
                self.mono += dm
                self.loop._vtime = T0 + self.mono * self.tick
            elif act == "done":
                g = self.gates.pop(0)
                g.set_result(None)
            else:
                raise ValueError(act)
            self.loop.settle()
        except Exception as e:
            p = self.proj()
            p["raised"] = type(e).__name__
            return p
        return self.proj()

    def close(self):
        if self._saved_random is not None:
            mod, real_random = self._saved_random
            mod.random = real_random
            self._saved_random = None
        self.tap.close()
        for g in self.gates:
            if not g.done():
                g.cancel()
        self.env.close()


# ------------------------------------------------------------------------------------------
# C38: RunSync

class HarnessHang(BaseException):
    """The loop would block forever (nothing ready, nothing scheduled)."""


class _AutoSelector:
    """select() never reports I/O; when the loop would sleep until its next timer the virtual
    clock jumps there instead; when it would sleep forever the run is a hang."""

    def __init__(self, inner):
        self.inner = inner
        self.loop = None

    def select(self, timeout=None):
        if timeout is None:
            raise HarnessHang()
        if timeout > 0:
            self.loop._vtime += timeout
        return []

    def __getattr__(self, name):
        return getattr(self.inner, name)


class AutoEnv:
    """Virtual-time loop whose clock advances by itself while the loop waits (for blocking calls
    such as run_sync)."""

    def __init__(self, start=T0):
        from tornado.platform.asyncio import AsyncIOLoop
        self.loop = VLoop(start)
        sel = _AutoSelector(self.loop._selector)
        sel.loop = self.loop
        self.loop._selector = sel
        asyncio.set_event_loop(self.loop)
        self.io_loop = AsyncIOLoop(asyncio_loop=self.loop, make_current=False)
        self.io_loop.time = self.loop.time

    def close(self):
        try:
            for h in list(self.loop._scheduled):
                h.cancel()
            self.loop._ready.clear()
            for t in asyncio.all_tasks(self.loop):
                t.cancel()
            self.loop._selector = self.loop._selector.inner
            self.loop.settle()
            self.io_loop.close()
        except BaseException:
            pass
        finally:
            asyncio.set_event_loop(None)


class RunSyncReal:
    """Real IOLoop.run_sync behind the RunSync.tla action interface."""

    def __init__(self, cfg, variant=0):
        self.env = AutoEnv()
        self.io = self.env.io_loop
        self.loop = self.env.loop
        self.variant = variant
        self.tap = LogTap()

    def _func(self, k, d, box):
        from tornado import gen
        io = self.io
        loop = self.loop
        use_gen_sleep = self.variant % 2 == 1

        async def sleep(n):
            if n:
                if use_gen_sleep:
                    await gen.sleep(n)
                else:
                    await asyncio.sleep(n)

        if k == "none":
            return lambda: None
        if k == "raise":
            def f():
                raise ValueError("boom")
            return f
        if k == "value":
            return lambda: 42
        if k in ("coro", "cororaise"):
            async def f():
                try:
                    await sleep(d)
                except asyncio.CancelledError:
                    box["seen"] = 1
                    raise
                if k == "cororaise":
                    raise ValueError("boom")
                return 7
            return f
        if k == "swallow":
            async def f():
                try:
                    await sleep(d)
                except asyncio.CancelledError:
                    box["seen"] = 1
                return 8
            return f
        if k == "gencoro":
            @gen.coroutine
            def f():
                if d:
                    yield gen.sleep(d)
                return 7
            return f
        if k == "future":
            def f():
                fut = asyncio.Future(loop=loop)
                io.call_later(d, lambda: fut.done() or fut.set_result(7))
                return fut
            return f
        if k == "stop":
            async def f():
                io.stop()
                await sleep(d)
                return 9
            return f
        raise ValueError(k)

    def step(self, act, args):
        k, d, to = args[0], args[1], args[2]
        box = {"seen": 0}
        t0 = self.loop.time()
        try:
            v = self.io.run_sync(self._func(k, d, box), timeout=None if to == 999 else to)
            out = ["ret", str(v)]
        except HarnessHang:
            out = ["hang", ""]
        except Exception as e:
            out = ["exc", type(e).__name__]
        el = self.loop.time() - t0
        seen = box["seen"]          # read now: cancellation must have been observed when run_sync returns
        # A function that stopped the loop itself leaves its task pending (and run_sync's stop
        # callback attached to it); the program cleans that up, as it would have to.  Then let
        # whatever else the call left behind run without moving the clock.
        if k == "stop":
            for t in asyncio.all_tasks(self.loop):
                t.cancel()
        try:
            self.loop._selector.select = lambda timeout=None: []
            self.loop.settle()
        finally:
            del self.loop._selector.select
        p = {"out": out, "elapsed": int(el) if el == int(el) else el, "seen": seen,
             "now": int(self.loop.time() - T0) if self.loop.time() == int(self.loop.time()) else self.loop.time() - T0}
        extra = [r.getMessage()[:80] for r in self.tap.records]
        if extra:
            p["unexpected_log"] = extra
        return p

    def close(self):
        self.tap.close()
        self.env.close()


# ------------------------------------------------------------------------------------------
# C38: CrossThread (real threads, real asyncio loop with its self-pipe)

class _WatchedSelector:
    """Delegates to the loop's real selector and publishes whether the loop is currently blocked
    in select() and with which timeout (read by the watchdog thread)."""

    def __init__(self, inner):
        self._inner = inner
        self.in_select = False
        self.timeout = 0
        self.seq = 0

    def select(self, timeout=None):
        self.timeout = timeout
        self.seq += 1
        self.in_select = True
        try:
            return self._inner.select(timeout)
        finally:
            self.in_select = False

    def __getattr__(self, name):
        return getattr(self._inner, name)


PRODUCER_KINDS = ["plain", "asyncio_coro", "asyncio_cb", "ioloop"]


def cross_thread_run(args):
    """nt threads (thread 1 = the target loop's own thread, scheduling from inside its callbacks)
    each add_callback a numbered series on ONE target IOLoop that has nothing else to do (no timers:
    it blocks in select() without timeout whenever it is idle).  Producer threads are plain threads,
    threads inside `asyncio.run` calling from a coroutine / from a call_soon callback of THEIR loop,
    or threads running their own IOLoop.  Events get a global order from one harness lock:
    begin(t, k) just before the add_callback call, added(t, k) when it has returned, run(t, k)
    inside the callback.  Seeded random sleeps perturb the OS schedule.

    Progress watchdog (logical, not timed): once every producer has finished, the loop being inside
    one select(None) call with an empty self-pipe while callbacks are still unrun cannot end by
    itself; the watchdog logs `stuck` and wakes the loop so that the run terminates.  On a correct
    tree that condition never holds, however slow the machine is."""
    import random
    import select as _select
    import threading
    import time as _time
    from tornado.platform.asyncio import AsyncIOLoop
    tid, seed, nt, nk = args[:4]
    kinds = args[4] if len(args) > 4 else None
    rng = random.Random(seed)
    loop = asyncio.new_event_loop()
    sel = _WatchedSelector(loop._selector)
    loop._selector = sel
    io = AsyncIOLoop(asyncio_loop=loop, make_current=False)
    lock = threading.Lock()
    ev = []
    nran = [0]
    total = nt * nk
    if kinds is None:
        kinds = [rng.choice(PRODUCER_KINDS) for _ in range(nt + 1)]
    kinds = {t: kinds[t % len(kinds)] for t in range(2, nt + 1)}
    delays = {t: [rng.choice([0, 0, 0.00005, 0.0002, 0.002]) for _ in range(nk)] for t in range(2, nt + 1)}
    flags = {"gave_up": False, "stuck": 0}

    def log(a, t, k):
        with lock:
            if a == "run":
                nran[0] += 1
            ev.append({"a": a, "args": [t, k], "obs": {"nran": nran[0]}})

    def cb(t, k, tag=None):
        log("run", t, k)
        if tag != (t, k):
            raise AssertionError("kwargs not passed through")
        if t == 1 and k < nk:
            add(1, k + 1)
        if nran[0] >= total:
            io.stop()

    def add(t, k):
        log("begin", t, k)
        io.add_callback(cb, t, k, tag=(t, k))
        log("added", t, k)

    def worker(t):
        kind = kinds[t]
        if kind == "plain":
            for k in range(1, nk + 1):
                if delays[t][k - 1]:
                    _time.sleep(delays[t][k - 1])
                add(t, k)
            return

        async def main():
            own = asyncio.get_running_loop()
            for k in range(1, nk + 1):
                await asyncio.sleep(delays[t][k - 1])
                if kind == "asyncio_cb":
                    done = own.create_future()

                    def from_callback(k=k, done=done):
                        add(t, k)
                        done.set_result(None)
                    own.call_soon(from_callback)
                    await done
                else:
                    add(t, k)
        if kind == "ioloop":
            own = asyncio.new_event_loop()
            io2 = AsyncIOLoop(asyncio_loop=own, make_current=False)
            try:
                io2.run_sync(main)
            finally:
                io2.close()
        else:
            asyncio.run(main())

    threads = [threading.Thread(target=worker, args=(t,), daemon=True) for t in range(2, nt + 1)]

    def watchdog():
        deadline = _time.monotonic() + 180
        for th in threads:
            th.join(max(0.0, deadline - _time.monotonic()))
        while True:
            with lock:
                if nran[0] >= total:
                    return
            if _time.monotonic() > deadline:
                flags["gave_up"] = True
                loop.call_soon_threadsafe(loop.stop)
                return
            s0 = sel.seq
            if (sel.in_select and sel.timeout is None and all(not th.is_alive() for th in threads)
                    and not _select.select([loop._ssock], [], [], 0)[0]):
                with lock:
                    pending = nran[0] < total
                if pending and sel.in_select and sel.seq == s0:
                    # blocked for ever: nobody is left to add anything and no wake-up is on its way
                    flags["stuck"] += 1
                    with lock:
                        ev.append({"a": "stuck", "args": [], "obs": {"nran": nran[0]}})
                    loop.call_soon_threadsafe(lambda: None)
                    _time.sleep(0.01)
                    continue
            _time.sleep(0.001)

    wd = threading.Thread(target=watchdog, daemon=True)

    def kick():
        for th in threads:
            th.start()
        wd.start()
        add(1, 1)
    io.add_callback(kick)
    io.start()
    wd.join(200)
    for th in threads:
        th.join(5)
    with lock:
        ev.append({"a": "end", "args": [], "obs": {"nran": nran[0]}})
    loop._selector = sel._inner
    io.close()
    return {"id": tid, "cfg": {"nt": nt, "nk": nk}, "ev": ev, "gave_up": flags["gave_up"], "stuck": flags["stuck"],
            "kinds": [kinds[t] for t in range(2, nt + 1)]}


# ------------------------------------------------------------------------------------------
# C39: TLAPS proof of the arithmetic lemmas

def run_tlapm(module_path, scratch, timeout=900):
    """Check a TLAPS module with tlapm in a scratch copy (tlapm writes its cache next to the
    file).  Returns dict(ok, obligations, failed, wall_s, tail)."""
    import os
    import re
    import shutil
    import subprocess
    import time
    d = os.path.join(scratch, "tlaps")
    os.makedirs(d, exist_ok=True)
    dst = os.path.join(d, os.path.basename(module_path))
    shutil.copy(module_path, dst)
    t0 = time.time()
    try:
        p = subprocess.run(["tlapm", "--cleanfp", "--stretch", "8", os.path.basename(dst)], cwd=d, stdout=subprocess.PIPE,
                           stderr=subprocess.STDOUT, text=True, timeout=timeout)
        out = p.stdout
    except FileNotFoundError:
        return {"ok": False, "obligations": 0, "failed": None, "wall_s": 0, "tail": "tlapm not found"}
    except subprocess.TimeoutExpired:
        return {"ok": False, "obligations": 0, "failed": None, "wall_s": timeout, "tail": "tlapm timed out"}
    finally:
        shutil.rmtree(os.path.join(d, ".tlacache"), ignore_errors=True)
    m = re.search(r"All (\d+) obligations? proved", out)
    f = re.search(r"(\d+)/(\d+) obligations? failed", out)
    return {"ok": bool(m) and p.returncode == 0, "obligations": int(m.group(1)) if m else (int(f.group(2)) if f else 0),
            "failed": int(f.group(1)) if f else 0, "wall_s": round(time.time() - t0, 1), "tail": out[-600:]}
