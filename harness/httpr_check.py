"""Shared pieces of the checks C01 C04 C05 C08 (family httpr): TLC runs on the reader specification,
case generation, replay of TLC's trails into the real server / client, validation of recorded traces."""
import hashlib
import os
import random
import time

from . import framework, tlc, VERIF
from . import httpr_driver as D
from . import httpr_gen as G
from .framework import Machinery, canon, jdump
from .httpr_tokens import spec_dir
from .httpsim import cut

BASE_CFG = {"mode": "server", "maxHdr": 65536, "maxBody": 1000000, "override": D.NONE, "decompress": False,
            "gz": [], "head": False, "respond": "sync", "btimeout": False, "shut": False}


def sdir(ctx):
    return spec_dir(ctx.scratch)


def mc(ctx, module, cfg, overrides=None, coverage=False, required_actions=(), timeout=None, sig=None):
    """Model-check specs/httpr/<module> with <cfg>.  The reader specification evaluates a lexer per
    step, so `-coverage` (an order of magnitude slower on deep expressions) is only switched on for
    the small vacuity run; the larger runs use this coverage-free path.  Bookkeeping as ctx.mc."""
    d = sdir(ctx)
    cfgp = os.path.join(d, cfg)
    if overrides:
        cfgp = framework.make_cfg(cfgp, overrides, ctx.scratch, "%s_%d_%s" % (module, len(os.listdir(ctx.scratch)), cfg))
    t0 = time.time()
    r = tlc.run(d, module, cfgp, coverage=coverage, timeout=timeout or ctx.pick(900, 3000))
    ctx._phase("mc", t0)
    ctx.cov["states"] += r.distinct
    ctx.cov["transitions"] += r.generated
    ctx.cov["mc_runs"].append({"module": module, "cfg": cfg, "overrides": canon(overrides or {}), "distinct": r.distinct,
                               "generated": r.generated, "depth": r.depth, "wall_s": round(r.wall_s, 2), "ok": r.ok,
                               "coverage": coverage})
    ctx.cov["checker_cmd"].append("tlc -config %s %s" % (cfg, module))
    for a, (dd, t) in r.coverage.items():
        k = module + "." + a
        ctx.cov["coverage_by_action"][k] = ctx.cov["coverage_by_action"].get(k, 0) + t
    for a in required_actions:
        if r.coverage.get(a, (0, 0))[1] == 0:
            raise Machinery("vacuity: action %s of %s never taken under %s" % (a, module, cfg))
    if not r.ok:
        states = tlc.parse_error_trace(r.violation["text"])
        s = {"kind": "spec", "module": module, "name": r.violation["name"], "what": r.violation["kind"]}
        if sig:
            s.update(sig)
        ctx.violation(s, {"tlc_trace": canon([[a, st] for a, st in states]) or r.violation["text"][:6000]})
    return r


def vacuity(ctx, overrides, required, module="MC_HttpReader", cfg="MCv_HttpReader.cfg"):
    """Non-vacuity without `-coverage`: a small instance is explored without the VIEW (so the `step`
    observation is part of the state), its states are dumped and the action names found in `step.act`
    are the actions that were taken.  A required action that never occurs is a machinery failure."""
    d = sdir(ctx)
    cfgp = framework.make_cfg(os.path.join(d, cfg), overrides, ctx.scratch, "%s_vac_%d_%s" % (module, len(os.listdir(ctx.scratch)), cfg))
    dump = os.path.join(ctx.scratch, "vac_%d" % len(os.listdir(ctx.scratch)))
    t0 = time.time()
    r = tlc.run(d, module, cfgp, timeout=ctx.pick(900, 3000), dump=dump)
    ctx._phase("vacuity", t0)
    if not r.ok:
        raise Machinery("vacuity run reported %s" % r.violation)
    counts = {}
    for st in tlc.iter_dump_states(dump + ".dump", only="step"):
        a = str(st["step"]["act"])
        counts[a] = counts.get(a, 0) + 1
    os.remove(dump + ".dump")
    for a, n in counts.items():
        k = module + "." + a
        ctx.cov["coverage_by_action"][k] = ctx.cov["coverage_by_action"].get(k, 0) + n
    ctx.cov["mc_runs"].append({"module": module, "cfg": cfg, "overrides": canon(overrides), "distinct": r.distinct,
                               "generated": r.generated, "wall_s": round(r.wall_s, 2), "ok": True, "purpose": "vacuity"})
    for a in required:
        if not counts.get(a):
            raise Machinery("vacuity: action %s of %s never taken under %s" % (a, module, cfg))
    return counts


def gen_cases(ctx, overrides, cfg="Gen_HttpReader.cfg", module="Gen_HttpReader", timeout=None):
    """TLC enumerates (configuration, wire) and computes the byte-by-byte trail of each."""
    t0 = time.time()
    sts = ctx.gen_states(sdir(ctx), module, cfg, overrides=overrides, timeout=timeout or ctx.pick(900, 3000),
                         variables=("cfg", "wire", "trail", "eofs", "done"))
    ctx._phase("gen", t0)
    cases = [s for s in sts if s["done"]]
    for s in cases:
        del s["done"]
    cases.sort(key=lambda s: jdump([s["cfg"], s["wire"]]))
    return cases


# ---------------------------------------------------------------------------------------------
# spec -> code: server

def shape(exp, obs):
    """Canonical, low-cardinality description of a server-side divergence (for findings matching)."""
    em, om = exp["msgs"], obs["msgs"]
    if exp["closed"] and exp["rej"] == "none" and len(om) > len(em) and \
            all(D._msg_eq(a, b) for a, b in zip(em, om)):
        return "served_after_close"
    if obs["logs"]:
        return "log:" + ",".join("%s/%s" % (n, l) for n, l in obs["logs"])
    if exp["rej"] != "none" and len(om) >= len(em) and om and om[-1]["end"] == "F" and \
            (len(om) > len(em) or em[-1]["end"] != "F"):
        return "accepted_refused"
    return "other"


def input_tags(wire):
    """Syntactic features of the input (not its meaning), so that a known finding is matched by the
    shape of the failing input and a different failure of the same kind is still reported."""
    w = bytes(wire)
    tags = []
    if b"\r\r\n" in w:
        tags.append("crcrlf")
    return tags


def cfg_tags(cfg):
    tags = []
    if cfg.get("decompress") and cfg.get("override", D.NONE) != D.NONE:
        tags.append("gz_override")
    return tags


def server_sig(div, mode, wire, cfg=None):
    exp, obs = div["exp"], div["obs"]
    return {"side": "server", "app": mode, "why": div["why"], "rej": exp["rej"], "shape": shape(exp, obs),
            "act": div["act"], "tags": input_tags(wire) + cfg_tags(cfg or {})}


def schedules(wire, family, rng):
    n = len(wire)
    if family == "cuts":
        return [[wire]] + [cut(wire, [k]) for k in range(1, n)]
    if family == "bytes":
        return [[wire[i:i + 1] for i in range(n)]]
    out = []
    for _ in range(8):
        pieces = G.segmentation(rng, n)
        pos, ch = 0, []
        for p in pieces:
            ch.append(wire[pos:pos + p])
            pos += p
        out.append(ch)
    return out


def server_replayer(extra, path):
    """extra = {cfg, wire, eofs, family, app}; path = the trail.  Every schedule of the family is run
    on a fresh connection; the projection is compared after every piece and after the final EOF."""
    wire = bytes(extra["wire"])
    rng = random.Random(int(hashlib.sha1(wire).hexdigest()[:8], 16))
    env = D.Env()
    try:
        for ch in schedules(wire, extra["family"], rng):
            div = D.run_server_schedule(extra["cfg"], wire, ch, path, extra["eofs"], mode=extra["app"],
                                        eof_after=len(wire), env=env)
            if div:
                div["pieces"] = [len(c) for c in ch]
                div["sig"] = server_sig(div, extra["app"], wire, extra["cfg"])
                return div
        return None
    finally:
        env.close()


def count_runs(items):
    n = 0
    for extra, path in items:
        w = len(extra["wire"])
        n += {"cuts": max(w, 1), "bytes": 1}.get(extra["family"], 8)
    return n


def replay_server(ctx, cases, families=("cuts", "bytes", "random"), apps=("delegate", "callback"), label="s2c"):
    items = []
    for c in cases:
        for app in apps:
            for fam in families:
                items.append(({"cfg": c["cfg"], "wire": c["wire"], "eofs": c["eofs"], "family": fam, "app": app},
                              c["trail"]))
    t0 = time.time()
    ctx.replay(items, server_replayer, label=label, nontrivial=lambda e, p: True)
    ctx._phase("replay", t0)
    runs = count_runs(items)
    ctx.cov["connection_runs"] = ctx.cov.get("connection_runs", 0) + runs
    ctx.cov["evaluations"] += runs - len(items)
    return items


# ---------------------------------------------------------------------------------------------
# code -> spec

def validate(ctx, traces, classify, label="c2s", timeout=None):
    """TLC (Trace_HttpReader) accepts or rejects each recorded trace.  For the rejected ones the
    specification's projection at the rejected event is fetched (Explain_HttpReader) so that the
    violation gets a canonical signature (classify(trace, event, expected) -> sig dict)."""
    d = sdir(ctx)
    t0 = time.time()
    cfgp = os.path.join(d, "Trace_HttpReader.cfg")
    shards = min(int(os.environ.get("VERIF_WORKERS", "16")), max(1, len(traces) // 40))
    accepted, inv = framework._validate_shards(d, "Trace_HttpReader", cfgp, traces, shards, ctx.scratch,
                                               timeout or ctx.pick(900, 3000), verbose=False)
    rejected = [t for t in traces if t["id"] not in accepted]
    verdict = {}
    if rejected:
        _, _, at = framework._validate_shards(d, "Trace_HttpReader", cfgp, rejected, min(shards, len(rejected)),
                                              ctx.scratch, timeout or ctx.pick(900, 3000), verbose=True)
        ex = D.explain(rejected, ctx.scratch)
        for t in rejected:
            l = at.get(t["id"], 1)
            evs = t["ev"]
            bad = evs[l - 1] if 0 < l <= len(evs) else None
            exp = ex.get(t["id"], {}).get(l)
            sig = {"kind": label, "act": bad.get("a") if bad else None}
            sig.update(classify(t, bad, exp) or {})
            verdict[t["id"]] = {"at": l, "sig": sig}
            ctx.violation(sig, {"trace": t, "matched_prefix_len": l - 1, "rejected_event": bad, "spec_projection": exp,
                                "invariant": inv.get(t["id"])})
    ctx._phase("validate", t0)
    n = len(traces)
    ctx.cov["traces_validated_against_impl"] += n
    ctx.cov["evaluations"] += n
    for t in traces:
        key = hashlib.sha1(jdump([t.get("cfg"), t["wire"], [[e.get("a"), e.get("args")] for e in t["ev"]]]).encode()).hexdigest()
        if key not in ctx._distinct:
            ctx._distinct.add(key)
            ctx.cov["distinct_nontrivial"] += 1
    for t in traces[:2]:
        if len(ctx.cov["samples"]) < 8:
            tt = dict(t)
            tt["ev"] = tt["ev"][:6]
            ctx.cov["samples"].append({"kind": label, "trace": tt})
    ctx.cov["checker_cmd"].append("tlc -config Trace_HttpReader.cfg Trace_HttpReader  (TRACE_FILE=<recorded ndjson>)")
    return verdict


def classify_server(t, bad, exp):
    if bad is None or exp is None:
        return {"side": "server", "why": "no-projection"}
    e = D.Expect()
    e.msgs = [dict(m, hs=sorted(m["hs"], key=lambda p: p[0])) for m in exp["msgs"]]
    e.out, e.closed, e.rej, e.gzflux, e.gzdec = exp["out"], exp["closed"], exp["rej"], exp["gzflux"], exp["gzdec"]
    e.gzover, e.maxb = exp.get("gzover", False), exp.get("maxb", 0)
    why = D.compare_server(e, bad["obs"])
    return {"side": "server", "app": t.get("app", "delegate"), "why": why or "tlc-only", "rej": exp["rej"],
            "shape": shape(D.exp_json(e), bad["obs"]), "tags": input_tags(t["wire"]) + cfg_tags(t["cfg"])}


def record_random_server(args):
    tid, seed, cfg, kind = args
    rng = random.Random(seed)
    w = G.gen_request_stream(rng)
    pcs = G.segmentation(rng, len(w))
    script = [(len(pcs) - 1, "eof")] if rng.random() < 0.7 else []
    return D.record_server_trace(tid, cfg, w, pcs, script)


# ---------------------------------------------------------------------------------------------
# C08: client side

def client_tags(wire):
    w = bytes(wire)
    tags = []
    if w[:10] in (b"HTTP/1.1 1", b"HTTP/1.0 1"):
        tags.append("interim")
    return tags


def client_sig(div, streaming, wire):
    exp, obs = div["exp"], div["obs"]
    return {"side": "client", "why": div["why"], "exp_st": exp.get("st"), "obs_st": obs.get("st"), "rej": exp.get("rej"),
            "streaming": streaming, "act": div["act"], "tags": client_tags(wire)}


def client_replayer(extra, path):
    wire = bytes(extra["wire"])
    rng = random.Random(int(hashlib.sha1(wire).hexdigest()[:8], 16))
    env = D.Env()
    try:
        for ch in schedules(wire, extra["family"], rng):
            div = D.run_client_schedule(extra["cfg"], wire, ch, path, extra["eofs"], streaming=extra["streaming"], env=env)
            if div:
                div["pieces"] = [len(c) for c in ch]
                div["sig"] = client_sig(div, extra["streaming"], wire)
                return div
        return None
    finally:
        env.close()


def replay_client(ctx, cases, families=("cuts", "bytes", "random"), label="s2c"):
    items = []
    for c in cases:
        for streaming in (False, True):
            for fam in families:
                items.append(({"cfg": c["cfg"], "wire": c["wire"], "eofs": c["eofs"], "family": fam, "streaming": streaming},
                              c["trail"]))
    t0 = time.time()
    ctx.replay(items, client_replayer, label=label, nontrivial=lambda e, p: True)
    ctx._phase("replay", t0)
    runs = count_runs(items)
    ctx.cov["connection_runs"] = ctx.cov.get("connection_runs", 0) + runs
    ctx.cov["evaluations"] += runs - len(items)
    return items


def classify_client(t, bad, exp):
    if bad is None or exp is None:
        return {"side": "client", "why": "no-projection"}
    e = D.Expect()
    e.msgs = [dict(m, hs=sorted(m["hs"], key=lambda p: p[0])) for m in exp["msgs"]]
    e.out, e.closed, e.rej, e.gzflux, e.gzdec = exp["out"], exp["closed"], exp["rej"], exp["gzflux"], exp["gzdec"]
    e.gzover, e.maxb = exp.get("gzover", False), exp.get("maxb", 0)
    obs = bad["obs"]
    why = D.compare_client(e, obs, t["cfg"]["maxBody"], final=(bad["a"] == "eof"))
    return {"side": "client", "why": why or "tlc-only", "exp_st": D.client_expect(e)["st"], "obs_st": obs.get("st"),
            "rej": exp["rej"], "streaming": bool(t.get("streaming")), "tags": client_tags(t["wire"])}
