"""Token tables for the HTTP reader specifications (family httpr: C01 C04 C05 C08).

`python -m harness.httpr_tokens` regenerates specs/httpr/HttpTokens.tla from the tables below
(byte strings are error-prone to write as TLA+ tuples by hand).  The tokens carry NO meaning of
their own: the specification lexes the concatenated bytes.  Slot 1 of every group is the plain
valid choice ("default"); the wire grammar (HttpWires.tla) is
    request  = RL HOST FR FR2 XH BLANK BODY TAIL
    response = SL RH RH2 BLANK RB
"""
import os

from . import VERIF

# --- server side -------------------------------------------------------------------------
RL = [
    b"GET / HTTP/1.1\r\n",
    b"POST /p?q=1 HTTP/1.1\r\n",
    b"GET / HTTP/1.0\r\n",
    b"\r\nGET / HTTP/1.1\r\n",            # one leading empty line
    b"GET / HTTP/1.1\n",                  # bare LF
    b"HEAD / HTTP/1.1\r\n",
    b"GET  / HTTP/1.1\r\n",               # two SP
    b"GET / HTTP/2.0\r\n",
    b"GET /\r\n",                         # no version
    b"G@T / HTTP/1.1\r\n",                # method is not a token
    b"GET /a b HTTP/1.1\r\n",
    b"GET / HTTP/1.1 \r\n",               # trailing SP
    b"GET / http/1.1\r\n",
    b"GET /\x01 HTTP/1.1\r\n",            # control character in the target
    b" GET / HTTP/1.1\r\n",               # leading SP
    b"POST /p HTTP/1.0\r\n",
    b"GET /\xe9 HTTP/1.1\r\n",            # obs-text in the target
    b"\nGET / HTTP/1.1\r\n",              # leading empty line, bare LF
    b"GET / HTTP/1.1\r\r\n",              # CR CR LF
    b"GET / HTTP/1.10\r\n",
]
HOST = [
    b"Host: h\r\n",
    b"",
    b"host:h:8\r\n",
    b"Host: a,b\r\n",
    b"Host: h\r\nHost: h\r\n",
    b"Host: h/x\r\n",
    b"Host: [::1]:8\r\n",
    b"Host: h\n",
    b"Host:\r\n",
    b"Host : h\r\n",
    b"Host: %41\r\n",
    b"Host: %4\r\n",
    b"Host: h\r\n i\r\n",                 # folded: "h i" is not a host
    b"Host: h \r\n",                      # trailing OWS is not part of the value
]
FR = [
    b"",
    b"Content-Length: 3\r\n",
    b"Transfer-Encoding: chunked\r\n",
    b"Content-Length: 03\r\n",
    b"Content-Length: +3\r\n",
    b"Content-Length: 3 \r\n",
    b"Content-Length: 0x3\r\n",
    b"Content-Length: 3_0\r\n",
    b"Content-Length: 3,3\r\n",
    b"Content-Length: 3, 3\r\n",
    b"Content-Length: 3,4\r\n",
    b"Content-Length:\r\n",
    b"Content-Length: 0\r\n",
    b"content-length:3\r\n",
    b"Content-Length: 3\r\n 0\r\n",       # folded: "3 0"
    b"Transfer-Encoding: Chunked\r\n",
    b"Transfer-Encoding: gzip\r\n",
    b"Transfer-Encoding: gzip, chunked\r\n",
    b"Transfer-Encoding: chunked,chunked\r\n",
    b"Transfer-Encoding: xchunked\r\n",
    b"Content-Length: -3\r\n",
    b"Content-Length: 3.0\r\n",
    b"Content-Length: 4\r\n",
    b"Transfer-Encoding:\r\n",
    b"Transfer-Encoding: chunked \r\n",
    b"Content-Length: 3\n",
    b"Content-Length: 2\r\n",
]
FR2 = [
    b"",
    b"Content-Length: 3\r\n",
    b"Transfer-Encoding: chunked\r\n",
    b"Content-Length: 4\r\n",
    b"Connection: close\r\n",
    b"Connection: keep-alive\r\n",
    b"Connection: Close\r\n",
]
XH = [
    b"",
    b"X-A: b\r\n",
    b"X-A: b\r\n c\r\n",                 # obs-fold
    b"X-A: b\r\n\t c \r\n",
    b"X A: b\r\n",                        # SP in the field name
    b"XA\r\n",                            # no colon
    b"X-A: a\x01b\r\n",                   # control character in the value
    b"X-A: \xe9\r\n",
    b"X-A: b\r\nx-a: c\r\n",
    b"X-A: b\rc\r\n",                     # bare CR in the value
    b"X-A:\tb\t\r\n",
    b": b\r\n",                           # empty field name
    b"X-A: b\n",
    b"X-A: a\x00b\r\n",
]
BLANK = [b"\r\n", b"\n"]
BODY = [
    b"",
    b"abc",
    b"3\r\nabc\r\n0\r\n\r\n",
    b"ab",                                               # short
    b"abcd",
    b"1\r\na\r\n2\r\nbc\r\n0\r\n\r\n",
    b"03\r\nabc\r\n0\r\n\r\n",
    b"A\r\n0123456789\r\n0\r\n\r\n",
    b"3\r\nabcXY0\r\n\r\n",                              # bad terminator after a non-final chunk
    b"3\r\nabc\n0\r\n\r\n",                              # LF-only chunk terminator
    b"g\r\nabc\r\n0\r\n\r\n",                            # bad chunk size
    b"-3\r\nabc\r\n0\r\n\r\n",
    b"0x3\r\nabc\r\n0\r\n\r\n",
    b" 3\r\nabc\r\n0\r\n\r\n",
    b"3 \r\nabc\r\n0\r\n\r\n",
    b"+3\r\nabc\r\n0\r\n\r\n",
    b"\r\nabc\r\n0\r\n\r\n",                             # empty chunk size
    b"3\r\nabc\r\n0\r\nXY",                              # bad last terminator
    b"3\r\nabc\r\n0\r\n\n\n",
    b"3\nabc\r\n0\r\n\r\n",                              # bare LF after the chunk size
    b"3\r\nabc\r\n",                                     # no last chunk
    b"2\r\nabc\r\n0\r\n\r\n",                            # chunk longer than announced
    b"3\r\nabc\r\n00\r\n\r\n",
    b"0\r\n\r\n",
    b"FFFFFFFFF\r\nabc\r\n0\r\n\r\n",                    # enormous chunk size
    b"3\r\nabc\r\r\n0\r\n\r\n",
]
TAIL = [
    b"",
    b"GET /2 HTTP/1.1\r\nHost: h\r\n\r\n",
    b"POST /3 HTTP/1.1\r\nHost: h\r\nContent-Length: 2\r\n\r\nxy",
]

# --- client side (responses) --------------------------------------------------------------
SL = [
    b"HTTP/1.1 200 OK\r\n",
    b"HTTP/1.1 204 No Content\r\n",
    b"HTTP/1.1 304 Not Modified\r\n",
    b"HTTP/1.1 404 Not Found\r\n",
    b"HTTP/1.0 200 OK\r\n",
    b"HTTP/1.1 100 Continue\r\n\r\nHTTP/1.1 200 OK\r\n",
    b"HTTP/1.1 100 Continue\r\nContent-Length: 0\r\n\r\nHTTP/1.1 200 OK\r\n",   # 1xx must not announce a body
    b"HTTP/1.1 103 Early Hints\r\nX-A: b\r\n\r\nHTTP/1.1 200 OK\r\n",
    b"HTTP/1.1 200\r\n",                  # no SP after the code
    b"HTTP/1.1 200 \r\n",                 # empty reason
    b"HTTP/1.1 20 OK\r\n",
    b"HTTP/1.1 2000 OK\r\n",
    b"HTTP/2.0 200 OK\r\n",
    b"HTTP/1.1  200 OK\r\n",
    b"http/1.1 200 OK\r\n",
    b"HTTP/1.1 200 OK\n",
    b"\r\nHTTP/1.1 200 OK\r\n",
    b"HTTP/1.1 2x0 OK\r\n",
    b"HTTP/1.1 101 Switching Protocols\r\n\r\nHTTP/1.1 200 OK\r\n",
]
RH = [
    b"Content-Length: 3\r\n",
    b"",
    b"Transfer-Encoding: chunked\r\n",
    b"Content-Length: 0\r\n",
    b"Content-Length: 03\r\n",
    b"Content-Length: +3\r\n",
    b"Content-Length: 3,3\r\n",
    b"Content-Length: 3,4\r\n",
    b"Content-Length: 0x3\r\n",
    b"Content-Length:\r\n",
    b"Transfer-Encoding: Chunked\r\n",
    b"Transfer-Encoding: gzip\r\n",
    b"Transfer-Encoding: gzip, chunked\r\n",
    b"Content-Length: 3\r\nTransfer-Encoding: chunked\r\n",
    b"Content-Length: 4\r\n",
    b"Content-Length: 2\r\n",
    b"Content-Length: 3_0\r\n",
    b"Content-Length: 3\r\nContent-Length: 3\r\n",
    b"Content-Length: 3\r\nContent-Length: 4\r\n",
]
RH2 = [
    b"",
    b"X-A: b\r\n",
    b"X-A: b\r\n c\r\n",
    b"Set-Cookie: a=1\r\nSet-Cookie: b=2\r\n",
    b"X A: b\r\n",
    b"XA\r\n",
    b"X-A: a\x01b\r\n",
    b"X-A: \xe9\r\n",
    b"Connection: close\r\n",
]
RB = [
    b"abc",
    b"",
    b"3\r\nabc\r\n0\r\n\r\n",
    b"ab",
    b"abcd",
    b"1\r\na\r\n2\r\nbc\r\n0\r\n\r\n",
    b"3\r\nabcXY0\r\n\r\n",
    b"g\r\nabc\r\n0\r\n\r\n",
    b"3\r\nabc\r\n0\r\nXY",
    b"3\r\nabc\r\n",
    b"3\nabc\r\n0\r\n\r\n",
    b"0\r\n\r\n",
    b"3\r\nabc\r\n0\r\n\r\nzz",                          # bytes after the message
    b"+3\r\nabc\r\n0\r\n\r\n",
    b"3\r\nab",
]

GROUPS = [("RL", RL), ("HOST", HOST), ("FR", FR), ("FR2", FR2), ("XH", XH), ("BLANK", BLANK), ("BODY", BODY),
          ("TAIL", TAIL), ("SL", SL), ("RH", RH), ("RH2", RH2), ("RB", RB)]


def tla_bytes(b):
    return "<<" + ", ".join(str(x) for x in b) + ">>"


def render():
    out = ["---------------------------- MODULE HttpTokens ----------------------------",
           "(* GENERATED by harness/httpr_tokens.py - do not edit.  Token tables for HttpWires: opaque byte",
           "   strings; entry 1 of each group is the plain valid choice. *)", ""]
    for name, toks in GROUPS:
        out.append("%s == <<" % name)
        for i, t in enumerate(toks):
            out.append("    %s%s   \\* %d %s" % (tla_bytes(t), "," if i + 1 < len(toks) else "", i + 1,
                                                 repr(t)[1:].replace("\\\\", "\\")))
        out.append(">>")
        out.append("")
    out.append("=============================================================================")
    return "\n".join(out) + "\n"


# --- opaque gzip codec -------------------------------------------------------------------------
# decoded payloads; the members are produced by the stdlib (zlib is NOT modelled: the specification
# only sees the table "these bytes decode to those bytes")
GZ_PLAIN = [b"abc", b"a" * 40, b"ab" * 20 + b"c", b"a" * 2000]      # the last one is the "bomb"


def gz_member(data):
    import zlib
    c = zlib.compressobj(9, zlib.DEFLATED, 31)
    return c.compress(data) + c.flush()


def gz_table():
    return [(gz_member(d), d) for d in GZ_PLAIN]


def render_gz():
    out = ["------------------------------ MODULE HttpGz ------------------------------",
           "(* GENERATED by harness/httpr_tokens.py - do not edit.  The opaque gzip codec: complete members",
           "   (enc) and what they decode to (dec), produced by the stdlib zlib. *)", "",
           "GzTable == <<"]
    t = gz_table()
    for i, (e, d) in enumerate(t):
        out.append("    [enc |-> %s,\n     dec |-> %s]%s   \\* %d: %d -> %d bytes" % (
            tla_bytes(e), tla_bytes(d), "," if i + 1 < len(t) else "", i + 1, len(e), len(d)))
    out.append(">>")
    out.append("=============================================================================")
    return "\n".join(out) + "\n"


GENERATED = {"HttpTokens.tla": render, "HttpGz.tla": render_gz}


def spec_dir(scratch=None):
    """specs/httpr if its generated modules are current (normal case); otherwise a scratch copy with
    the generated modules rewritten (e.g. a zlib that emits different members)."""
    import shutil
    base = os.path.join(VERIF, "specs", "httpr")
    stale = []
    for name, fn in GENERATED.items():
        try:
            if open(os.path.join(base, name)).read() != fn():
                stale.append(name)
        except OSError:
            stale.append(name)
    if not stale:
        return base
    if scratch is None:
        raise RuntimeError("generated spec modules are stale: %s (run python -m harness.httpr_tokens)" % stale)
    d = os.path.join(scratch, "specs-httpr")
    if not os.path.isdir(d):
        shutil.copytree(base, d)
        for name, fn in GENERATED.items():
            with open(os.path.join(d, name), "w") as f:
                f.write(fn())
    return d


if __name__ == "__main__":
    for name, fn in GENERATED.items():
        p = os.path.join(VERIF, "specs", "httpr", name)
        with open(p, "w") as f:
            f.write(fn())
        print("wrote", p)
