"""In-memory transport for real Tornado streams (no sockets, no selector).

MemStream subclasses BaseIOStream and implements only the four documented transport
methods.  The harness decides which chunks are readable, how many bytes each
write_to_fd accepts, when EOF / errors are reported, and delivers readiness events by
calling the handler the stream registered with its (proxied) IOLoop.
"""
import collections
import itertools
import socket as _socket

from . import REPO  # noqa: F401
from tornado import ioloop
from tornado.iostream import BaseIOStream

READ, WRITE, ERROR = ioloop.IOLoop.READ, ioloop.IOLoop.WRITE, ioloop.IOLoop.ERROR
_fd_counter = itertools.count(1000)


class FakeSocket:
    def __init__(self, family=_socket.AF_INET, peer=("127.0.0.1", 54321), name=("127.0.0.1", 80)):
        self.family = family
        self._peer = peer
        self._name = name

    def getpeername(self):
        return self._peer

    def getsockname(self):
        return self._name

    def setsockopt(self, *a):
        pass

    def fileno(self):
        return -1

    def close(self):
        pass


class LoopProxy:
    """Forwards to the real IOLoop except fd handler registration, which it records."""

    def __init__(self, real, reg):
        object.__setattr__(self, "_real", real)
        object.__setattr__(self, "_reg", reg)

    def __getattr__(self, name):
        return getattr(self._real, name)

    def add_handler(self, fd, handler, events):
        self._reg[fd] = [handler, events]

    def update_handler(self, fd, events):
        self._reg[fd][1] = events

    def remove_handler(self, fd):
        self._reg.pop(fd, None)


class MemStream(BaseIOStream):
    def __init__(self, env, *args, sock=None, **kwargs):
        super().__init__(*args, **kwargs)
        self.env = env
        self._registry = {}
        self.io_loop = LoopProxy(env.io_loop, self._registry)
        self._fd = next(_fd_counter)
        self.socket = sock if sock is not None else FakeSocket()
        # transport state, owned by the harness
        self.inq = collections.deque()   # chunks the transport will hand over, one per read_from_fd at most
        self.in_eof = False              # after inq drains, read_from_fd returns 0
        self.in_error = None             # after inq drains, read_from_fd raises this
        self.out = bytearray()           # every byte accepted by write_to_fd, in order
        self.out_calls = []              # sizes accepted per write_to_fd call
        self.write_plan = None           # None: accept everything; deque of ints: bytes accepted per call (0 = would block)
        self.write_error = None          # raised by write_to_fd when set
        self.fd_closed = 0
        self.handler_errors = []
        self.fd_error = None
        self.read_calls = 0

    # -- transport methods ----------------------------------------------------
    def fileno(self):
        return self._fd

    def close_fd(self):
        self.fd_closed += 1

    def get_fd_error(self):
        return self.fd_error

    def read_from_fd(self, buf):
        self.read_calls += 1
        if self.inq:
            chunk = self.inq[0]
            n = min(len(chunk), len(buf))
            buf[:n] = chunk[:n]
            if n == len(chunk):
                self.inq.popleft()
            else:
                self.inq[0] = chunk[n:]
            return n
        if self.in_error is not None:
            e, self.in_error = self.in_error, None
            raise e
        if self.in_eof:
            return 0
        return None

    def write_to_fd(self, data):
        if self.write_error is not None:
            raise self.write_error
        n = len(data)
        if self.write_plan is not None:
            if not self.write_plan:
                raise BlockingIOError()
            k = self.write_plan.popleft()
            if k == 0:
                raise BlockingIOError()
            n = min(n, k)
        self.out += bytes(data[:n])
        self.out_calls.append(n)
        return n

    # -- harness side -----------------------------------------------------------
    def registered(self):
        r = self._registry.get(self._fd)
        return r[1] if r else None

    def _readable(self):
        return bool(self.inq) or self.in_eof or self.in_error is not None

    def _writable(self):
        return self.write_plan is None or (len(self.write_plan) > 0 and self.write_plan[0] > 0) or self.write_error is not None

    def pump(self, limit=10000):
        """Deliver readiness events (level-triggered) until nothing more can happen now."""
        for _ in range(limit):
            self.env.settle()
            r = self._registry.get(self._fd)
            if r is None or self.closed():
                break
            handler, reg = r
            ev = 0
            if reg & READ and self._readable():
                ev |= READ
            if reg & WRITE and self._writable():
                ev |= WRITE
            if not ev:
                break
            try:
                handler(self._fd, ev)
            except Exception as e:       # the real IOLoop logs and continues
                self.handler_errors.append(e)
        else:
            raise RuntimeError("MemStream.pump: no quiescence")
        self.env.settle()

    def fire(self, events):
        """Deliver an explicit event mask (e.g. ERROR) to the registered handler."""
        r = self._registry.get(self._fd)
        if r is None or self.closed():
            return False
        try:
            r[0](self._fd, events)
        except Exception as e:
            self.handler_errors.append(e)
        self.env.settle()
        return True

    def feed(self, data, pump=True):
        if data:
            self.inq.append(bytes(data))
        if pump:
            self.pump()

    def feed_eof(self, pump=True):
        self.in_eof = True
        if pump:
            self.pump()

    def feed_error(self, exc, pump=True):
        self.in_error = exc
        if pump:
            self.pump()

    def take_out(self):
        b = bytes(self.out)
        del self.out[:]
        return b


class Pipe:
    """Two MemStreams connected back to back: bytes written to one become readable on the other
    when the harness calls shuttle() (optionally re-chunked)."""

    def __init__(self, env, a_kwargs=None, b_kwargs=None):
        self.env = env
        self.a = MemStream(env, **(a_kwargs or {}))
        self.b = MemStream(env, **(b_kwargs or {}))

    def shuttle(self, chunker=None, limit=1000):
        for _ in range(limit):
            moved = False
            for src, dst in ((self.a, self.b), (self.b, self.a)):
                data = src.take_out()
                if data:
                    moved = True
                    if not dst.closed():
                        for c in (chunker(data) if chunker else [data]):
                            dst.feed(c, pump=False)
                        dst.pump()
                if src.closed() and src.fd_closed and not dst.in_eof and not dst.closed():
                    dst.in_eof = True
                    dst.pump()
                    moved = True
            self.env.settle()
            if not moved:
                return
        raise RuntimeError("Pipe.shuttle: no quiescence")
