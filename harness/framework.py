"""Check framework: context object shared by every checks/Cnn.py.

A check does (some of):
  ctx.mc(...)               TLC model-checks the specification (invariants, action properties,
                            liveness), with per-action coverage for non-vacuity;
  ctx.gen_paths(...)        TLC enumerates all behaviours up to a bound (history variable +
                            -dump) or simulates long seeded walks;
  ctx.replay(...)           each behaviour is stepped through the real Tornado objects and the
                            observed projection is compared with the specification's after
                            every step (spec -> code);
  ctx.validate(...)         traces recorded from the real code are validated by TLC against the
                            trace specification (code -> spec);
  ctx.finish()              evidence file, KNOWN-FINDING / VIOLATION lines, exit code.

Exit codes: 0 property held on everything explored (known findings are printed, not raised);
1 violation (a VIOLATION line names the replay file); 2 machinery failure.
"""
import hashlib
import json
import multiprocessing
import os
import random
import re
import shutil
import sys
import time
import traceback

from . import VERIF, REPO, tlc, tlaval

FINDINGS_DIR = os.path.join(VERIF, "findings")      # one committed file per property; merged index: known_findings.json


class Machinery(Exception):
    pass


def canon(v):
    """Canonical JSON-able form used on both sides of every comparison."""
    if isinstance(v, tlaval.ModelValue):
        return str(v)
    if isinstance(v, dict):
        return {str(k): canon(x) for k, x in sorted(v.items(), key=lambda kv: str(kv[0]))}
    if isinstance(v, (list, tuple)):
        return [canon(x) for x in v]
    if isinstance(v, (set, frozenset)):
        return sorted((canon(x) for x in v), key=lambda x: json.dumps(x, sort_keys=True))
    if isinstance(v, bytes):
        return list(v)
    return v


def jdump(v):
    return json.dumps(canon(v), sort_keys=True)


def make_cfg(base_cfg, overrides, out_dir, name=None):
    """Copy a .cfg replacing `NAME = value` constant lines for names in overrides."""
    text = open(base_cfg).read()
    for k, v in overrides.items():
        val = v if isinstance(v, str) and not v.startswith('"') and re.match(r"^[\{\<\[\d\-A-Z]", v) else tlaval.to_tla(v)
        text, n = re.subn(r"(?m)^(\s*%s\s*=\s*).*$" % re.escape(k), lambda m: m.group(1) + val, text)
        if n != 1:
            raise Machinery("make_cfg: constant %s not found exactly once in %s" % (k, base_cfg))
    path = os.path.join(out_dir, name or os.path.basename(base_cfg))
    with open(path, "w") as f:
        f.write(text)
    return path


def _subrecord(match, rec):
    for k, v in match.items():
        if k not in rec:
            return False
        rv = rec[k]
        if isinstance(v, dict) and isinstance(rv, dict):
            if not _subrecord(v, rv):
                return False
        elif isinstance(v, str) and v.startswith("re:") and isinstance(rv, str):
            if not re.search(v[3:], rv):
                return False
        elif canon(v) != canon(rv):
            return False
    return True


class Ctx:
    def __init__(self, pid, tier="quick", seed=0, replay_path=None):
        self.pid = pid
        self.tier = tier
        self.seed = seed
        self.replay_path = replay_path
        self.t0 = time.time()
        self.rng = random.Random(seed)
        self.scratch = tlc.scratch_dir(pid)
        self.level = "model_checking"
        self.cov = {
            "states": 0, "transitions": 0, "traces_validated_against_impl": 0, "samples": [],
            "evaluations": 0, "distinct_nontrivial": 0, "rule": "", "exhaustive": False,
            "coverage_by_action": {}, "checker_cmd": [], "mc_runs": [],
            "trusted_base": ["TLC/SANY 1.8.0", "harness/vloop.py virtual-time loop", "harness projections"],
        }
        self.assumptions = []
        self.violations = []      # new (unlisted) violations
        self.known_hits = {}      # finding id -> count
        self._distinct = set()
        self._known = []
        kf = os.path.join(FINDINGS_DIR, pid + ".json")
        if os.path.exists(kf):
            for e in json.load(open(kf)).get("findings", []):
                if e.get("property") == pid and e.get("status") == "open":
                    self._known.append(e)

    def _phase(self, name, t0):
        self.cov.setdefault("phases_s", {})
        self.cov["phases_s"][name] = round(self.cov["phases_s"].get(name, 0) + time.time() - t0, 2)

    @property
    def quick(self):
        return self.tier == "quick"

    def pick(self, quick, thorough):
        return quick if self.tier == "quick" else thorough

    # ------------------------------------------------------------------ MC
    def mc(self, spec_dir, module, cfg, overrides=None, required_actions=(), timeout=None,
           workers=None, spec_violation_sig=None, liveness=False, **kw):
        """Model-check; returns TLCResult.  A violated invariant of the *specification* is a
        design-level violation of the property (reported through ctx.violation)."""
        spec_dir = os.path.join(VERIF, "specs", spec_dir) if not os.path.isabs(spec_dir) else spec_dir
        cfgp = os.path.join(spec_dir, cfg)
        if overrides:
            cfgp = make_cfg(cfgp, overrides, self.scratch, "%s_%s" % (module, os.path.basename(cfg)))
        r = tlc.run(spec_dir, module, cfgp, coverage=True, timeout=timeout or self.pick(900, 3000),
                    workers=workers, **kw)
        self.cov["states"] += r.distinct
        self.cov["transitions"] += r.generated
        self.cov["mc_runs"].append({"module": module, "cfg": cfg, "overrides": canon(overrides or {}),
                                    "distinct": r.distinct, "generated": r.generated, "depth": r.depth,
                                    "wall_s": round(r.wall_s, 2), "ok": r.ok})
        self.cov["checker_cmd"].append("tlc -config %s %s" % (cfg, module))
        for a, (d, t) in r.coverage.items():
            od = self.cov["coverage_by_action"].get(module + "." + a, 0)
            self.cov["coverage_by_action"][module + "." + a] = od + t
        for a in required_actions:
            if r.coverage.get(a, (0, 0))[1] == 0:
                raise Machinery("vacuity: action %s of %s never taken under %s" % (a, module, cfg))
        if not r.ok:
            states = tlc.parse_error_trace(r.violation["text"])
            sig = {"kind": "spec", "module": module, "name": r.violation["name"], "what": r.violation["kind"]}
            if spec_violation_sig:
                sig.update(spec_violation_sig(r, states) or {})
            self.violation(sig, {"tlc_trace": canon([[a, s] for a, s in states]) or r.violation["text"][:6000]})
        return r

    # ------------------------------------------------------------------ paths
    def gen_paths(self, spec_dir, module, cfg, overrides=None, timeout=None, hist_var="hist",
                  extra_vars=("cfg",), workers=None):
        """Enumerate all paths (TLC BFS over the history-extended spec, -dump).  Returns a list of
        (extra, path) for the maximal paths; path = list of step records (canon form)."""
        spec_dir = os.path.join(VERIF, "specs", spec_dir) if not os.path.isabs(spec_dir) else spec_dir
        cfgp = os.path.join(spec_dir, cfg)
        if overrides:
            cfgp = make_cfg(cfgp, overrides, self.scratch, "%s_%s" % (module, os.path.basename(cfg)))
        dump = os.path.join(self.scratch, "%s_%d" % (module, len(os.listdir(self.scratch))))
        r = tlc.run(spec_dir, module, cfgp, timeout=timeout or self.pick(900, 3000), dump=dump, workers=workers)
        if not r.ok:
            raise Machinery("generation spec reported %s" % r.violation)
        self.cov["checker_cmd"].append("tlc -dump -config %s %s" % (cfg, module))
        fn = dump + ".dump"
        allp = {}
        parents = set()
        for key, extra, path in _parse_dump_parallel(fn, hist_var, extra_vars):
            allp[key] = (extra, path)
        for key, (extra, path) in allp.items():
            if len(path) > 0:
                parents.add(_pkey(extra, path[:-1]))
        out = [(e, p) for k, (e, p) in allp.items() if k not in parents and len(p) > 0]
        os.remove(fn)
        self.cov["gen_runs"] = self.cov.get("gen_runs", []) + [
            {"module": module, "cfg": cfg, "overrides": canon(overrides or {}), "states": r.distinct,
             "all_paths": len(allp), "maximal_paths": len(out), "wall_s": round(r.wall_s, 2)}]
        out.sort(key=lambda ep: jdump(ep))
        return out

    def gen_states(self, spec_dir, module, cfg, overrides=None, timeout=None, variables=None, workers=None):
        """Enumerate the reachable states of a (generator) spec with TLC and return them parsed
        (canon form).  Used for function-like specs: Init enumerates inputs and the state holds the
        reference result, so every dumped state is one test case with its expected value."""
        spec_dir = os.path.join(VERIF, "specs", spec_dir) if not os.path.isabs(spec_dir) else spec_dir
        cfgp = os.path.join(spec_dir, cfg)
        if overrides:
            cfgp = make_cfg(cfgp, overrides, self.scratch, "%s_%s" % (module, os.path.basename(cfg)))
        dump = os.path.join(self.scratch, "%s_%d" % (module, len(os.listdir(self.scratch))))
        r = tlc.run(spec_dir, module, cfgp, timeout=timeout or self.pick(900, 3000), dump=dump, workers=workers,
                    deadlock=False)
        if not r.ok:
            raise Machinery("generation spec reported %s" % r.violation)
        self.cov["checker_cmd"].append("tlc -dump -config %s %s" % (cfg, module))
        self.cov["states"] += r.distinct
        self.cov["transitions"] += r.generated
        fn = dump + ".dump"
        out = _parse_states_parallel(fn, variables)
        os.remove(fn)
        self.cov["gen_runs"] = self.cov.get("gen_runs", []) + [
            {"module": module, "cfg": cfg, "overrides": canon(overrides or {}), "states": r.distinct,
             "wall_s": round(r.wall_s, 2)}]
        return out

    def sim_paths(self, spec_dir, module, cfg, num, depth, overrides=None, timeout=None, hist_var="hist",
                  extra_vars=("cfg",)):
        """Long seeded random walks (tlc -simulate) through the history-extended spec."""
        spec_dir = os.path.join(VERIF, "specs", spec_dir) if not os.path.isabs(spec_dir) else spec_dir
        cfgp = os.path.join(spec_dir, cfg)
        if overrides:
            cfgp = make_cfg(cfgp, overrides, self.scratch, "%s_sim_%s" % (module, os.path.basename(cfg)))
        d = os.path.join(self.scratch, "sim_%s_%d" % (module, len(os.listdir(self.scratch))))
        os.makedirs(d)
        r = tlc.run(spec_dir, module, cfgp, timeout=timeout or self.pick(900, 3000), workers=1,
                    simulate={"num": num, "file": os.path.join(d, "tr")}, depth=depth, seed=self.seed + 1)
        if not r.ok:
            raise Machinery("simulation spec reported %s" % r.violation)
        out = []
        for f in sorted(os.listdir(d)):
            beh = tlc.read_sim_file(os.path.join(d, f))
            if not beh:
                continue
            last = beh[-1][1]
            extra = {v: canon(last[v]) for v in extra_vars if v in last}
            out.append((extra, canon(last[hist_var])))
        shutil.rmtree(d, ignore_errors=True)
        self.cov["checker_cmd"].append("tlc -simulate num=%d -depth %d -config %s %s" % (num, depth, cfg, module))
        return out

    # ------------------------------------------------------------------ replay (spec -> code)
    def replay(self, paths, replayer, nproc=None, label="s2c", nontrivial=None, sample=2):
        """replayer(extra, path) -> None if the real code followed the path, else a dict
        {step: i, act:…, exp:…, obs:…[, sig:{…}]} describing the first divergence.
        Runs in a process pool; every divergence becomes a violation (after the known filter)."""
        nproc = nproc or int(os.environ.get("VERIF_WORKERS", "16"))
        n = len(paths)
        results = _pool_map(replayer, paths, nproc)
        nt = 0
        for (extra, path), res in zip(paths, results):
            key = hashlib.sha1(jdump([extra, [[s.get("act"), s.get("args")] for s in path]]).encode()).hexdigest()
            is_nt = nontrivial(extra, path) if nontrivial else len(path) >= 2
            if is_nt and key not in self._distinct:
                self._distinct.add(key)
                nt += 1
            if res is None:
                continue
            if isinstance(res, dict) and res.get("machinery"):
                raise Machinery("replayer crashed: %s" % res["machinery"])
            sig = {"kind": label}
            sig.update(res.get("sig") or {"act": res.get("act"), "exp": res.get("exp"), "obs": res.get("obs")})
            self.violation(sig, {"extra": extra, "path": path, "divergence": res})
        self.cov["traces_validated_against_impl"] += n
        self.cov["evaluations"] += n
        self.cov["distinct_nontrivial"] += nt
        for extra, path in paths[:sample]:
            if len(self.cov["samples"]) < 8:
                self.cov["samples"].append({"kind": label, "extra": extra, "path": path})
        return results

    # ------------------------------------------------------------------ validate (code -> spec)
    def validate(self, spec_dir, module, cfg, traces, overrides=None, timeout=None, label="c2s", shards=None,
                 sample=2, env=None, sig_fn=None):
        """traces: list of dicts {id, cfg, ev:[{a, args, obs}...]} recorded from the real code.
        TLC (Trace spec) accepts or rejects each; rejected ones are re-run verbosely to find the
        longest matched prefix.  Returns dict id -> None | {'at': index, 'event': ...}."""
        spec_dir = os.path.join(VERIF, "specs", spec_dir) if not os.path.isabs(spec_dir) else spec_dir
        cfgp = os.path.join(spec_dir, cfg)
        if overrides:
            cfgp = make_cfg(cfgp, overrides, self.scratch, "%s_%s" % (module, os.path.basename(cfg)))
        shards = shards or min(int(os.environ.get("VERIF_WORKERS", "16")), max(1, len(traces) // 50))
        byid = {t["id"]: t for t in traces}
        accepted, inv_viol = _validate_shards(spec_dir, module, cfgp, traces, shards, self.scratch,
                                              timeout or self.pick(900, 3000), verbose=False, env=env)
        rejected = [t for t in traces if t["id"] not in accepted]
        verdict = {t["id"]: None for t in traces}
        if rejected:
            _, _, at = _validate_shards(spec_dir, module, cfgp, rejected, min(shards, len(rejected)), self.scratch,
                                        timeout or self.pick(900, 3000), verbose=True, env=env)
            for t in rejected:
                l = at.get(t["id"], 1)
                evs = t["ev"]
                bad = evs[l - 1] if 0 < l <= len(evs) else None
                verdict[t["id"]] = {"at": l, "event": bad}
                sig = {"kind": label, "act": bad.get("a") if bad else None}
                if sig_fn:
                    sig.update(sig_fn(t, bad, l) or {})
                elif bad and isinstance(bad.get("obs"), dict) and "err" in bad["obs"]:
                    sig["err"] = bad["obs"]["err"]
                self.violation(sig, {"trace": t, "matched_prefix_len": l - 1, "rejected_event": bad,
                                     "invariant": inv_viol.get(t["id"])})
        self.cov["traces_validated_against_impl"] += len(traces)
        self.cov["evaluations"] += len(traces)
        for t in traces:
            key = hashlib.sha1(jdump([t.get("cfg"), [[e.get("a"), e.get("args")] for e in t["ev"]]]).encode()).hexdigest()
            if len(t["ev"]) >= 2 and key not in self._distinct:
                self._distinct.add(key)
                self.cov["distinct_nontrivial"] += 1
        for t in traces[:sample]:
            if len(self.cov["samples"]) < 8:
                tt = dict(t)
                tt["ev"] = tt["ev"][:12]
                self.cov["samples"].append({"kind": label, "trace": tt})
        self.cov["checker_cmd"].append("tlc -config %s %s  (TRACE_FILE=<recorded ndjson>)" % (cfg, module))
        return verdict

    # ------------------------------------------------------------------ verdicts
    def violation(self, sig, detail):
        """Record a violation.  sig: canonical fields used to match known findings."""
        sig = canon(sig)
        for e in self._known:
            if _subrecord(e.get("match", {}), sig):
                self.known_hits[e["id"]] = self.known_hits.get(e["id"], 0) + 1
                return False
        rec = {"property": self.pid, "sig": sig, "detail": canon(detail), "seed": self.seed, "tier": self.tier}
        h = hashlib.sha1(jdump(sig).encode()).hexdigest()[:12]
        d = os.path.join(VERIF, "replays", self.pid)
        os.makedirs(d, exist_ok=True)
        path = os.path.join(d, h + ".json")
        written = getattr(self, "_written", None)
        if written is None:
            written = self._written = set()
        if path not in written and len(written) < 50:
            with open(path, "w") as f:
                json.dump(rec, f, indent=1, sort_keys=True)
            written.add(path)
        if path in written:
            self.violations.append((path, sig))
        else:
            self.violations.append((sorted(written)[0], sig))   # beyond 50 distinct: point at a written file
        return True

    def note(self, key, value):
        self.cov[key] = value

    def add_eval(self, n, distinct_keys=(), samples=()):
        self.cov["evaluations"] += n
        for k in distinct_keys:
            if k not in self._distinct:
                self._distinct.add(k)
                self.cov["distinct_nontrivial"] += 1
        for s in samples:
            if len(self.cov["samples"]) < 8:
                self.cov["samples"].append(canon(s))

    def finish(self):
        wall = time.time() - self.t0
        for fid, n in sorted(self.known_hits.items()):
            e = [x for x in self._known if x["id"] == fid][0]
            print("KNOWN-FINDING: property=%s %s [%s, %d occurrence(s)]" % (self.pid, e["what"], fid, n))
        seen = set()
        for path, sig in self.violations:
            if path in seen:
                continue
            seen.add(path)
            if len(seen) <= 20:
                print("VIOLATION property=%s replay=%s" % (self.pid, path))
                print("  " + jdump(sig)[:400])
        cov = self.cov
        if not cov["samples"]:
            cov["samples"] = [{"note": "no behaviours were produced"}]
        cov["known_findings_hit"] = self.known_hits
        if isinstance(cov.get("checker_cmd"), list):
            cov["checker_cmds"] = cov["checker_cmd"]
            cov["checker_cmd"] = " ; ".join(cov["checker_cmd"])
        ev = {
            "property_id": self.pid, "tier": self.tier, "seed": self.seed, "level": self.level,
            "coverage": cov, "assumptions": self.assumptions, "wall_s": round(wall, 2),
            "violations": len(seen),
        }
        os.makedirs(os.path.join(VERIF, "evidence"), exist_ok=True)
        with open(os.path.join(VERIF, "evidence", self.pid + ".json"), "w") as f:
            json.dump(canon(ev), f, indent=1, sort_keys=True)
        shutil.rmtree(self.scratch, ignore_errors=True)
        print("%s %s: states=%d transitions=%d impl_traces=%d distinct=%d violations=%d known=%d wall=%.1fs" % (
            self.pid, self.tier, cov["states"], cov["transitions"], cov["traces_validated_against_impl"],
            cov["distinct_nontrivial"], len(seen), sum(self.known_hits.values()), wall))
        return 1 if seen else 0


# ---------------------------------------------------------------------- helpers

def _pkey(extra, path):
    return hashlib.sha1(jdump([extra, [[s["act"], s["args"]] for s in path]]).encode()).digest()


def _parse_chunk(args):
    text, hist_var, extra_vars = args
    out = []
    hdr = re.compile(r"^State \d+:.*$", re.M)
    hs = list(hdr.finditer(text))
    for i, m in enumerate(hs):
        end = hs[i + 1].start() if i + 1 < len(hs) else len(text)
        st = tlaval.parse_state(text[m.end():end])
        extra = {v: canon(st[v]) for v in extra_vars if v in st}
        path = canon(st[hist_var])
        out.append((_pkey(extra, path), extra, path))
    return out


def _parse_dump_parallel(fn, hist_var, extra_vars, nproc=None):
    nproc = nproc or int(os.environ.get("VERIF_WORKERS", "16"))
    text = open(fn).read()
    idx = [m.start() for m in re.finditer(r"^State \d+:", text, re.M)]
    if not idx:
        return []
    per = max(1, len(idx) // (nproc * 4))
    cuts = idx[::per] + [len(text)]
    chunks = [(text[cuts[i]:cuts[i + 1]], hist_var, tuple(extra_vars)) for i in range(len(cuts) - 1)]
    if len(idx) < 2000:
        res = [_parse_chunk(c) for c in chunks]
    else:
        with multiprocessing.get_context("fork").Pool(nproc) as pool:
            res = pool.map(_parse_chunk, chunks)
    return [x for r in res for x in r]


def _parse_states_chunk(args):
    text, variables = args
    out = []
    hdr = re.compile(r"^State \d+:.*$", re.M)
    hs = list(hdr.finditer(text))
    for i, m in enumerate(hs):
        end = hs[i + 1].start() if i + 1 < len(hs) else len(text)
        st = tlaval.parse_state(text[m.end():end])
        out.append({k: canon(v) for k, v in st.items() if variables is None or k in variables})
    return out


def _parse_states_parallel(fn, variables, nproc=None):
    nproc = nproc or int(os.environ.get("VERIF_WORKERS", "16"))
    text = open(fn).read()
    idx = [m.start() for m in re.finditer(r"^State \d+:", text, re.M)]
    if not idx:
        return []
    per = max(1, len(idx) // (nproc * 4))
    cuts = idx[::per] + [len(text)]
    chunks = [(text[cuts[i]:cuts[i + 1]], tuple(variables) if variables else None) for i in range(len(cuts) - 1)]
    if len(idx) < 2000:
        res = [_parse_states_chunk(c) for c in chunks]
    else:
        with multiprocessing.get_context("fork").Pool(nproc) as pool:
            res = pool.map(_parse_states_chunk, chunks)
    return [x for r in res for x in r]


_REPLAYER = None
_ITEMS = None


def _call_replayer(item):
    extra, path = item
    try:
        return _REPLAYER(extra, path)
    except BaseException:
        return {"machinery": traceback.format_exc()[-3000:]}


def _call_range(rng):
    lo, hi = rng
    return [_call_replayer(_ITEMS[i]) for i in range(lo, hi)]


def _pool_map(fn, items, nproc):
    """Map over items in forked workers; inputs are inherited through fork (no pickling).
    A worker that dies (OOM kill, segfault) breaks the pool and is reported as a machinery
    failure instead of hanging the check."""
    global _REPLAYER, _ITEMS
    lim = tlc.dev_limits()
    if lim:
        nproc = min(nproc, int(lim.get("workers", nproc)))
    _REPLAYER = fn
    if len(items) < 256 or nproc <= 1:
        return [_call_replayer(i) for i in items]
    _ITEMS = items
    n = len(items)
    per = max(1, n // (nproc * 6))
    ranges = [(i, min(n, i + per)) for i in range(0, n, per)]
    from concurrent.futures import ProcessPoolExecutor
    from concurrent.futures.process import BrokenProcessPool
    try:
        with ProcessPoolExecutor(max_workers=nproc, mp_context=multiprocessing.get_context("fork")) as pool:
            res = list(pool.map(_call_range, ranges))
    except BrokenProcessPool as ex:
        raise Machinery("a replay worker process died: %s" % ex)
    finally:
        _ITEMS = None
    return [x for r in res for x in r]


def pool_map(fn, items, nproc=None):
    """Generic fork-pool map for drivers."""
    nproc = nproc or int(os.environ.get("VERIF_WORKERS", "16"))
    res = _pool_map(lambda a, b: fn(a), [(i, None) for i in items], nproc)
    for r in res:
        if isinstance(r, dict) and r.get("machinery"):
            raise Machinery("driver crashed: %s" % r["machinery"])
    return res


_ACC = re.compile(r'<<"ACCEPT", (-?\d+)>>')
_AT = re.compile(r'<<"AT", (-?\d+), (\d+)>>')


def _validate_one(args):
    """Validate one shard (list of traces).  If an invariant fails on some trace TLC stops, so
    the offending trace is recorded and the rest of the shard is validated again without it."""
    spec_dir, module, cfgp, part, scratch, tag, timeout, verbose, env = args
    part = list(part)
    accepted, at_all, inv_viol = set(), {}, {}
    rounds = 0
    while part:
        rounds += 1
        fn = os.path.join(scratch, "trace_%s_%s_%d.ndjson" % (module, tag, rounds))
        with open(fn, "w") as f:
            for t in part:
                f.write(json.dumps(t) + "\n")
        e = {"TRACE_FILE": fn, "TRACE_VERBOSE": "1" if verbose else "0"}
        if env:
            e.update(env)
        r = tlc.run(spec_dir, module, cfgp, workers=1, timeout=timeout, env=e, deadlock=False, heap=_SHARD_HEAP[0])
        os.remove(fn)
        accepted |= set(int(x) for x in _ACC.findall(r.out))
        for a, b in _AT.findall(r.out):
            at_all[int(a)] = max(at_all.get(int(a), 0), int(b))
        if r.ok:
            break
        m = re.search(r"(?m)^(?:/\\ )?tid = (\d+)", r.violation["text"])
        if not m:
            raise Machinery("trace validation stopped without naming a trace: %s" % r.violation["text"][:2000])
        bad = part[int(m.group(1)) - 1]
        inv_viol[bad["id"]] = {"name": r.violation["name"], "kind": r.violation["kind"], "text": r.violation["text"][:3000]}
        accepted.discard(bad["id"])
        part = [t for t in part if t["id"] != bad["id"]]
    for i in inv_viol:
        accepted.discard(i)
    return accepted, at_all, inv_viol


_SHARD_HEAP = ["8g"]


def _validate_shards(spec_dir, module, cfgp, traces, shards, scratch, timeout, verbose, env=None):
    shards = max(1, shards)
    # all shard JVMs together stay within ~32 GB however many shards run (16 x -Xmx8g exhausted a 62 GB box)
    _SHARD_HEAP[0] = "%dg" % max(1, min(8, 32 // shards))
    stamp = "%d_%d" % (int(verbose), int(time.time() * 1000) % 1000000)
    jobs = []
    for i in range(shards):
        part = traces[i::shards]
        if part:
            jobs.append((spec_dir, module, cfgp, part, scratch, "%s_%d" % (stamp, i), timeout, verbose, env))
    if len(jobs) == 1:
        res = [_validate_one(jobs[0])]
    else:
        # each job only waits for a TLC subprocess: threads suffice and cannot hang on a dead worker
        from concurrent.futures import ThreadPoolExecutor
        with ThreadPoolExecutor(max_workers=len(jobs)) as pool:
            res = list(pool.map(_validate_one, jobs))
    accepted, at_all, inv_viol = set(), {}, {}
    for acc, at, inv in res:
        accepted |= acc
        at_all.update(at)
        inv_viol.update(inv)
    if verbose:
        return accepted, inv_viol, at_all
    return accepted, inv_viol


def main(pid, run, replay=None):
    """Entry point used by ./check."""
    import argparse
    ap = argparse.ArgumentParser()
    ap.add_argument("--tier", default=os.environ.get("VERIF_TIER", "quick"), choices=["quick", "thorough"])
    ap.add_argument("--replay", default=None)
    ap.add_argument("--seed", type=int, default=int(os.environ.get("VERIF_SEED", "0")))
    a = ap.parse_args(sys.argv[2:])
    ctx = Ctx(pid, a.tier, a.seed, a.replay)
    try:
        if a.replay:
            if replay is None:
                print("replay not supported for %s" % pid)
                return 2
            rec = json.load(open(a.replay))
            rc = replay(ctx, rec)
            shutil.rmtree(ctx.scratch, ignore_errors=True)
            return rc
        run(ctx)
        return ctx.finish()
    except (Machinery, tlc.TLCError) as ex:
        print("MACHINERY-FAILURE %s: %s" % (pid, ex))
        shutil.rmtree(ctx.scratch, ignore_errors=True)
        return 2
    except Exception:
        print("MACHINERY-FAILURE %s: %s" % (pid, traceback.format_exc()))
        shutil.rmtree(ctx.scratch, ignore_errors=True)
        return 2
