#!/usr/bin/env python3
"""Confirm a seeded change and run the checks against it.

  tools/seedtest.py <Cnn> <out-dir> <i> [--tests "locks_test.py ..."] [--tier quick] [--keep-as <name>]

Steps (all in a scratch worktree /tmp/seed-wt-<Cnn>-<i>, removed afterwards):
  1. demo passes on the clean tree; 2. patch applies; 3. demo fails with it; 4. listed repo tests pass with it;
  5. `VERIF_REPO=<wt> ./check Cnn --tier ...` -> expect exit 1 + VIOLATION.
Writes /verif/seeded/<name>/{patch.diff, demo.py, meta.json} when --keep-as is given and 1-4 hold.
"""
import argparse, json, os, shutil, subprocess, sys, time

ap = argparse.ArgumentParser()
ap.add_argument("pid"); ap.add_argument("outdir"); ap.add_argument("i")
ap.add_argument("--tests", default="")
ap.add_argument("--tier", default="quick")
ap.add_argument("--keep-as", default=None)
ap.add_argument("--also", default="", help="other property ids whose checks should also be run")
a = ap.parse_args()
VERIF = os.path.dirname(os.path.dirname(os.path.abspath(__file__)))
wt = "/tmp/seed-wt-%s-%s" % (a.pid, a.i)
diff = os.path.join(a.outdir, "change%s.diff" % a.i)
demo = os.path.join(a.outdir, "demo%s.py" % a.i)
md = os.path.join(a.outdir, "change%s.md" % a.i)

def sh(cmd, **kw):
    return subprocess.run(cmd, shell=True, stdout=subprocess.PIPE, stderr=subprocess.STDOUT, text=True, **kw)

subprocess.run("git -C /repo worktree remove --force %s 2>/dev/null; git -C /repo worktree add -q --detach %s HEAD" % (wt, wt), shell=True)
res = {"property": a.pid, "change": diff}
try:
    env = dict(os.environ, TORNADO_SRC=wt, PYTHONPATH=wt, PYTHONDONTWRITEBYTECODE="1")
    def run_demo():
        if "def test_" in open(demo).read() and "__main__" not in open(demo).read():
            return sh("/venv/bin/python -m pytest -q -p no:cacheprovider %s" % demo, cwd=wt, env=env, timeout=600)
        return sh("/venv/bin/python %s" % demo, cwd=wt, env=env, timeout=600)
    r = run_demo(); res["demo_clean_rc"] = r.returncode
    r = sh("git apply %s" % diff, cwd=wt); res["apply_rc"] = r.returncode
    if r.returncode: print(r.stdout)
    r = run_demo(); res["demo_changed_rc"] = r.returncode; res["demo_changed_tail"] = r.stdout[-600:]
    if a.tests:
        flaky = ["tornado/test/process_test.py::ProcessTest::test_multi_process",
                 "tornado/test/httputil_test.py::HTTPHeadersTest::test_linear_performance",
                 "tornado/test/httputil_test.py::MultipartFormDataTest::test_disposition_param_linear_performance",
                 "tornado/test/simple_httpclient_test.py::SimpleHTTPSClientTestCase::test_request_timeout",
                 "tornado/test/httputil_test.py::ParseCookieTest::test_unquote_large",
                 "tornado/test/wsgi_test.py::WSGIContainerThreadPoolTest::test_concurrent_barrier",
                 "tornado/test/simple_httpclient_test.py::SimpleHTTPClientTestCase::test_request_timeout"]
        # wall-clock tests that fail on the clean tree too when the machine is loaded
        r = sh("/venv/bin/python -m pytest -q -p no:cacheprovider " + " ".join("--deselect " + f for f in flaky) + " " + " ".join("tornado/test/" + t for t in a.tests.split()), cwd=wt, timeout=1800,
               env=dict(os.environ, PYTHONDONTWRITEBYTECODE="1"))
        res["tests_rc"] = r.returncode; res["tests_tail"] = r.stdout[-300:]
    res["checks"] = {}
    for pid in [a.pid] + a.also.split():
        t0 = time.time()
        r = sh("./check %s --tier %s" % (pid, a.tier), cwd=VERIF, env=dict(os.environ, VERIF_REPO=wt, VERIF_SCRATCH=os.environ.get("SEED_SCRATCH", "/tmp/seed-scratch"), VERIF_WORKERS=os.environ.get("SEED_WORKERS", "6")), timeout=5400)
        viol = [l for l in r.stdout.splitlines() if l.startswith("VIOLATION")]
        res["checks"][pid] = {"rc": r.returncode, "violations": len(viol), "first": viol[:2], "tail": r.stdout[-400:], "wall_s": round(time.time() - t0, 1)}
    ok = res["demo_clean_rc"] == 0 and res["apply_rc"] == 0 and res["demo_changed_rc"] != 0 and res.get("tests_rc", 0) == 0
    res["confirmed"] = ok
    res["caught"] = any(c["rc"] == 1 and c["violations"] > 0 for c in res["checks"].values())
    print(json.dumps(res, indent=1))
    if a.keep_as and ok:
        d = os.path.join(VERIF, "seeded", a.keep_as)
        os.makedirs(d, exist_ok=True)
        shutil.copy(diff, os.path.join(d, "patch.diff"))
        shutil.copy(demo, os.path.join(d, "demo.py"))
        meta = {"property": a.pid, "what_it_needs": open(md).read() if os.path.exists(md) else "",
                "ran": {"demo_clean_rc": res["demo_clean_rc"], "demo_changed_rc": res["demo_changed_rc"], "tests": a.tests, "tests_rc": res.get("tests_rc")},
                "checks": {k: {"rc": v["rc"], "violations": v["violations"], "first": v["first"], "tier": a.tier} for k, v in res["checks"].items()},
                "caught": res["caught"]}
        json.dump(meta, open(os.path.join(d, "meta.json"), "w"), indent=1)
finally:
    subprocess.run("git -C /repo worktree remove --force %s" % wt, shell=True)
