#!/bin/bash
# tools/seedrerun.sh "pid i outroot tests" ... ; sequential
mkdir -p /tmp/seed-results
for spec in "$@"; do
  set -- $spec; pid=$1; i=$2; root=$3; tests=${4//,/ }; suf=$5
  python3 tools/seedtest.py $pid $root/$pid $i --tests "$tests" --keep-as $pid-$i$suf > /tmp/seed-results/$pid-$i$suf.json 2>&1
  python3 - <<PY
import json
try:
    r=json.load(open('/tmp/seed-results/$pid-$i$suf.json'))
    print('$pid-$i$suf','confirmed',r['confirmed'],'caught',r['caught'],{k:(v['rc'],v['violations'],v['wall_s']) for k,v in r['checks'].items()}, flush=True)
except Exception as e:
    print('$pid-$i$suf','ERROR',e, flush=True)
PY
done
