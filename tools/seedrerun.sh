#!/bin/bash
# tools/seedrerun.sh "pid i outroot tests" ... ; sequential
mkdir -p /tmp/seed-results
for spec in "$@"; do
  set -- $spec; pid=$1; i=$2; root=$3; tests=${4//,/ }
  python3 tools/seedtest.py $pid $root/$pid $i --tests "$tests" --keep-as $pid-$i > /tmp/seed-results/$pid-$i.json 2>&1
  python3 - <<PY
import json
try:
    r=json.load(open('/tmp/seed-results/$pid-$i.json'))
    print('$pid-$i','confirmed',r['confirmed'],'caught',r['caught'],{k:(v['rc'],v['violations'],v['wall_s']) for k,v in r['checks'].items()}, flush=True)
except Exception as e:
    print('$pid-$i','ERROR',e, flush=True)
PY
done
