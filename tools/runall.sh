#!/bin/bash
# tools/runall.sh <seed> <tier> [pids...]  -> /tmp/runall-<seed>.log  (sequential; private scratch)
seed=$1; tier=$2; shift 2
pids="$@"; [ -z "$pids" ] && pids=$(ls checks/*.meta.json | sed 's/.*\(C[0-9]*\).meta.json/\1/')
for p in $pids; do
  s=$(date +%s)
  out=$(VERIF_SEED=$seed VERIF_SCRATCH=/tmp/runall-scratch-$seed-$tier timeout 4500 ./check $p --tier $tier 2>&1); rc=$?
  e=$(date +%s)
  echo "$p seed=$seed rc=$rc wall=$((e-s)) $(echo "$out" | grep -c '^VIOLATION') viol $(echo "$out" | grep -c '^KNOWN-FINDING') known | $(echo "$out" | tail -1 | cut -c1-150)"
  [ $rc -ne 0 ] && echo "$out" | grep -A1 "^VIOLATION\|MACHINERY" | head -6
done
