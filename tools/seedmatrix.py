#!/usr/bin/env python3
"""Summarise /verif/seeded/*/meta.json as a markdown table (notes/SEEDED.md)."""
import json, glob, os, re
root = os.path.dirname(os.path.dirname(os.path.abspath(__file__)))
rows = []
for f in sorted(glob.glob(os.path.join(root, "seeded", "*", "meta.json"))):
    m = json.load(open(f))
    name = os.path.basename(os.path.dirname(f))
    what = m.get("what_it_needs", "").strip().splitlines()
    title = next((l.lstrip("# ").strip() for l in what if l.strip()), "")
    title = re.sub(r"\s+", " ", title)[:150]
    ch = m.get("checks", {})
    res = "; ".join("%s: %s" % (k, "VIOLATION x%d" % v["violations"] if v["rc"] == 1 else ("missed" if v["rc"] == 0 else "rc=%s" % v["rc"])) for k, v in ch.items())
    rows.append((name, m["property"], title, res, m.get("caught")))
out = ["# Seeded changes (independent sub-agents, given only the property text) and which checks catch them", "",
       "Each directory /verif/seeded/<id>/ holds patch.diff, demo.py (fails with the change, passes without) and meta.json.",
       "Confirmed by the integrator with tools/seedtest.py: demo clean rc=0, demo changed rc!=0, listed repo tests pass with the change.", "",
       "| seed | property | change | quick check result |", "|---|---|---|---|"]
for name, pid, title, res, caught in rows:
    out.append("| %s | %s | %s | %s |" % (name, pid, title.replace("|", "/"), res))
n = len(rows); c = sum(1 for r in rows if r[4])
out += ["", "Total: %d seeded changes, %d reported as VIOLATION by the quick tier of the property's check." % (n, c)]
open(os.path.join(root, "notes", "SEEDED.md"), "w").write("\n".join(out) + "\n")
print("seeded: %d, caught %d" % (n, c))
