#!/bin/bash
# tools/seedbatch.sh <out-root> "<tests for pid>" pid [pid...]  -- runs seedtest for change1, change2 of each pid sequentially
root=$1; shift
mkdir -p /tmp/seed-results
for spec in "$@"; do
  pid=${spec%%:*}; tests=${spec#*:}; tests=${tests//,/ }
  for i in 1 2 3; do
    [ -f $root/$pid/change$i.diff ] || continue
    python3 tools/seedtest.py $pid $root/$pid $i --tests "$tests" --keep-as $pid-$i > /tmp/seed-results/$pid-$i.json 2>&1
    python3 - <<PY
import json
try:
    r=json.load(open('/tmp/seed-results/$pid-$i.json'))
    print('$pid-$i','confirmed',r['confirmed'],'caught',r['caught'],{k:(v['rc'],v['violations'],v['wall_s']) for k,v in r['checks'].items()}, flush=True)
except Exception as e:
    print('$pid-$i','ERROR',e, flush=True)
PY
  done
done
