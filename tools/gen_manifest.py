#!/usr/bin/env python3
"""Compile MANIFEST.json from checks/*.meta.json (one per claimed property).

Every property in properties.jsonl that has no meta file is listed under
not_applicable with reason taken from tools/not_applicable.json (or a default
'not built yet').  Run after adding/changing a check:  python3 tools/gen_manifest.py
"""
import json, os, glob, sys
ROOT = os.path.dirname(os.path.dirname(os.path.abspath(__file__)))
props = [json.loads(l)["id"] for l in open(os.path.join(ROOT, "properties.jsonl"))]
metas = {}
for f in sorted(glob.glob(os.path.join(ROOT, "checks", "C*.meta.json"))):
    m = json.load(open(f))
    metas[m["property_id"]] = m
na_file = os.path.join(ROOT, "tools", "not_applicable.json")
na_reason = json.load(open(na_file)) if os.path.exists(na_file) else {}
hooks_file = os.path.join(ROOT, "tools", "hooks.json")
hooks_extra = json.load(open(hooks_file)) if os.path.exists(hooks_file) else {}
engines_file = os.path.join(ROOT, "tools", "engines.json")
engines = json.load(open(engines_file)) if os.path.exists(engines_file) else []
checks = []
for pid in props:
    if pid not in metas:
        continue
    m = metas[pid]
    checks.append({
        "property_id": pid,
        "quick_cmd": f"./check {pid} --tier quick",
        "thorough_cmd": f"./check {pid} --tier thorough",
        "evidence_file": f"/verif/evidence/{pid}.json",
        "replay_cmd_template": f"./check {pid} --replay {{path}}",
        "engine": m.get("engine", "tlc+replay"),
        "level_claimed": {
            "category": m.get("category", "model_checking"),
            "text": m["level_text"],
            "design_ref": m.get("design_ref", f"DESIGN.md §5.{pid}"),
        },
        "level_note": m["level_note"],
        "technique": m.get("technique", "TLA+ spec + TLC model checking; spec->code replay of TLC behaviours; code->spec trace validation"),
    })
hooks = {
    "guard": "TORNADO_VERIF",
    "enable": "no source hooks are required: the harness drives /repo's working tree through public extension points; TORNADO_VERIF=1 is exported by ./check for any future guarded hook",
    "baseline_off_cmd": "cd /repo && env -u TORNADO_VERIF /venv/bin/python -m pytest -ra -q -p no:cacheprovider --timeout=900 --continue-on-collection-errors",
    "source_commits": [],
    "add_only": True,
}
hooks.update(hooks_extra)
manifest = {
    "version": 1,
    "setup_cmd": "./setup.sh",
    "hooks": hooks,
    "engines": engines,
    "checks": checks,
    "notes": "Model-based verification with explicit TLA+ specifications (specs/), TLC model checking, spec->code replay and code->spec trace validation (harness/). See DESIGN.md.",
    "not_applicable": [
        {"property_id": pid, "reason": na_reason.get(pid, "check not built yet (work in progress, see DESIGN.md §10); no claim is made")}
        for pid in props if pid not in metas
    ],
}
json.dump(manifest, open(os.path.join(ROOT, "MANIFEST.json"), "w"), indent=1)
print(f"MANIFEST.json: {len(checks)} checks, {len(manifest['not_applicable'])} not_applicable")
