#!/usr/bin/env python3
"""Refresh the generated tables inside DESIGN.md (fix log from fixes/APPLIED.md)."""
import os, re
root = os.path.dirname(os.path.dirname(os.path.abspath(__file__)))
p = os.path.join(root, "DESIGN.md")
s = open(p).read()
rows = [l for l in open(os.path.join(root, "fixes", "APPLIED.md")) if l.startswith("| F")]
table = "| finding | property | /repo commit | what failed |\n|---|---|---|---|\n" + "".join(rows)
s = re.sub(r"<!-- APPLIED:BEGIN -->.*?<!-- APPLIED:END -->", lambda m: "<!-- APPLIED:BEGIN -->\n" + table + "<!-- APPLIED:END -->", s, flags=re.S)
open(p, "w").write(s)
print(len(rows), "fix rows")
