#!/usr/bin/env python3
"""Print the seeded-change agent prompt for a property: tools/mutprompt.py C33 /tmp/mut-C33 3 'locks_test.py'"""
import json, sys, os
pid, wt, n, tests = sys.argv[1], sys.argv[2], sys.argv[3], sys.argv[4]
root = os.path.dirname(os.path.dirname(os.path.abspath(__file__)))
p = [json.loads(l) for l in open(os.path.join(root, "properties.jsonl")) if json.loads(l)["id"] == pid][0]
t = open(os.path.join(root, "notes", "MUTATOR_PROMPT.md")).read().split("\n\n", 1)[1]
anch = "; ".join("%s (%s)" % (m["name"], m["where"]) for m in p["anchors"]["mechanism"])
print(t.replace("{WT}", wt).replace("{STATEMENT}", p["statement"]).replace("{ANCHORS}", anch)
       .replace("{N}", n).replace("{TESTS}", tests).replace("{TAG}", os.path.basename(wt)))
