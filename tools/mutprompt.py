#!/usr/bin/env python3
"""Print the seeded-change agent prompt: tools/mutprompt.py <worktree> <n-per-property> C34:locks_test.py C35:queues_test.py ...
The agent is given only property texts and a scratch worktree (nothing from /verif)."""
import json, sys, os
wt, n = sys.argv[1], sys.argv[2]
root = os.path.dirname(os.path.dirname(os.path.abspath(__file__)))
props = {json.loads(l)["id"]: json.loads(l) for l in open(os.path.join(root, "properties.jsonl"))}
tag = os.path.basename(wt)
out = "/tmp/%s-out" % tag
blocks = []
for spec in sys.argv[3:]:
    pid, _, tests = spec.partition(":")
    p = props[pid]
    anch = "; ".join("%s (%s)" % (m["name"], m["where"]) for m in p["anchors"]["mechanism"])
    blocks.append("PROPERTY %s\n  \"%s\"\n  Anchored code: %s\n  Existing tests most relevant: %s" % (
        pid, p["statement"], anch, " ".join("tornado/test/" + t for t in tests.split(",")) if tests else "(find them under tornado/test)"))
print("""You are testing a verification tool's ability to catch regressions in the Python library
tornado.  You work ONLY inside the git worktree {wt} (a checkout of tornado; python is
/venv/bin/python; run things with `cd {wt} && PYTHONPATH={wt} /venv/bin/python ...` so that THIS
checkout is imported, not /repo).  Do not look at or touch /verif or /repo.

Below are {k} properties of tornado that must hold.  For EACH property make {n} DIFFERENT,
realistic changes to tornado's source (each one separately, as its own patch against the clean
worktree) that BREAK that property while the code still imports and the existing test suite still
passes (run at least the listed test files with the change applied, e.g.
`cd {wt} && /venv/bin/python -m pytest -q -p no:cacheprovider <files>`; the machine is heavily
loaded, so timing-based tests such as process_test multi-process, autoreload, *linear_performance*
may fail on the clean tree too - ignore those).  Each change must be the kind of bug a maintainer
could plausibly introduce (a refactor gone wrong, an off-by-one, a dropped or reordered check, a
state update moved across a callback, two cooperating sites that each look fine alone).  It must
need something SPECIFIC to manifest - a particular interleaving, a crash or fault at a particular
point, a multi-step sequence of operations, an unusual input - not something ordinary use exposes
at once.  No giveaways (no comments saying it is a bug, no debug output).  Keep each patch small.

{blocks}

For each property <ID> and i = 1..{n} write into {out}/<ID>/ (create it):
  change<i>.diff   `git diff` of the change against the clean worktree
  demo<i>.py       a small standalone program that exits non-zero (failing assertion) with the
                   change applied and exits 0 on the clean tree, demonstrating the property violation
                   through tornado's public behaviour; it must put {wt} (or $TORNADO_SRC if set) at the
                   front of sys.path itself; no network, no real sleeping beyond ~1 s
  change<i>.md     what it breaks, why the existing tests miss it, what it needs to manifest
After writing each diff run `git checkout -- .` so the next change starts from the clean tree (NEVER use
`git stash`: the stash is shared by all worktrees of this repository and other agents use them), and
verify both directions of each demo (clean tree: exit 0; with the change: non-zero) and that the
listed tests pass with the change.  Finish with a short summary (one line per change).""".format(
    wt=wt, n=n, k=len(blocks), blocks="\n\n".join(blocks), out=out))
