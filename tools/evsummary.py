#!/usr/bin/env python3
"""Table of what the last run of each check covered (from evidence/*.json) -> notes/EVIDENCE.md"""
import json, glob, os
root = os.path.dirname(os.path.dirname(os.path.abspath(__file__)))
rows = []
for f in sorted(glob.glob(os.path.join(root, "evidence", "C*.json"))):
    e = json.load(open(f)); c = e["coverage"]
    rows.append("| %s | %s | %s | %s | %s | %s | %s | %s | %s |" % (
        e["property_id"], e["tier"], c.get("states", ""), c.get("transitions", ""),
        c.get("traces_validated_against_impl", ""), c.get("distinct_nontrivial", ""),
        "yes" if c.get("exhaustive") else "", e.get("wall_s", ""), ", ".join(sorted((c.get("known_findings_hit") or {}).keys()))))
out = ["# Coverage of the last run of each check (generated from evidence/*.json by tools/evsummary.py)", "",
       "| property | tier | TLC distinct states | TLC transitions | behaviours replayed / traces validated against the implementation | distinct non-trivial | exhaustive within bounds | wall s | known findings hit |",
       "|---|---|---|---|---|---|---|---|---|"] + rows
open(os.path.join(root, "notes", "EVIDENCE.md"), "w").write("\n".join(out) + "\n")
print(len(rows), "rows")
