#!/bin/sh
# setup_cmd: everything is interpreted (python + TLA+); verify the toolchain and parse every spec.
set -e
cd "$(dirname "$0")"
mkdir -p evidence replays
command -v java >/dev/null
test -f /opt/veriftools/tla/tla2tools.jar
/venv/bin/python -c "import sys; sys.path.insert(0,'/repo'); import tornado" 
/venv/bin/python -m harness.selftest
echo "setup ok"
