SPECIFICATION FairSpec
CONSTANTS
  MaxThreads = 3
  MaxItems = 3
  Shapes = {103, 202, 203, 302}
VIEW View
INVARIANT RunsOnce
INVARIANT PerThreadOrder
INVARIANT NoGaps
INVARIANT Causal
INVARIANT NoLostWakeup
PROPERTY EventuallyAllRun
CHECK_DEADLOCK FALSE
