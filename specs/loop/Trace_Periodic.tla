---------------------------- MODULE Trace_Periodic ----------------------------
(* Validates runs recorded from a real PeriodicCallback (random long runs, larger periods and
   clock jumps than the enumerated ones) against Periodic.tla; all invariants and action
   properties are evaluated at every step. *)
EXTENDS Periodic, Json, IOUtils, TLCExt
Traces == ndJsonDeserialize(IOEnv.TRACE_FILE)
Verbose == IOEnv.TRACE_VERBOSE = "1"
VARIABLES tid, l
Ev == Traces[tid].ev
TraceInit ==
    /\ tid \in 1..Len(Traces)
    /\ l = 1
    /\ InitWith([p |-> Traces[tid].cfg.p, kind |-> Traces[tid].cfg.kind, w0 |-> Traces[tid].cfg.w0])
IsEvent(a) == l <= Len(Ev) /\ Ev[l].a = a /\ l' = l + 1 /\ UNCHANGED tid
Bind == Proj' = Ev[l].obs
TrStart == IsEvent("start") /\ Start /\ Bind
TrStop  == IsEvent("stop") /\ Stop /\ Bind
TrDone  == IsEvent("done") /\ Done /\ Bind
TrTick  == IsEvent("tick") /\ Tick(Ev[l].args[1] + Back, Ev[l].args[2]) /\ Bind
TraceNext == TrStart \/ TrStop \/ TrDone \/ TrTick
TraceSpec == TraceInit /\ [][TraceNext]_<<vars, step, tid, l>>
Report == IF Verbose THEN PrintT(<<"AT", Traces[tid].id, l>>)
          ELSE (l = Len(Ev) + 1 => PrintT(<<"ACCEPT", Traces[tid].id>>))
=============================================================================
