SPECIFICATION TraceSpec
CONSTANTS
  MaxThreads = 8
  MaxItems = 100
  Shapes = {101}
CONSTRAINT Report
INVARIANT Causal
INVARIANT NoLostWakeup
CHECK_DEADLOCK FALSE
