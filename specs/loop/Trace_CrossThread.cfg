SPECIFICATION TraceSpec
CONSTANTS
  MaxThreads = 8
  MaxItems = 100
  Shapes = {101}
CONSTRAINT Report
INVARIANT RunsOnce
INVARIANT PerThreadOrder
INVARIANT Causal
CHECK_DEADLOCK FALSE
