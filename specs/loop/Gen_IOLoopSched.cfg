SPECIFICATION GenSpec
CONSTANTS
  NTop = 2
  KindsCb = {"noop", "raise", "failcoro", "addcb", "addto"}
  KindsTo = {"noop", "rm"}
  KindsFut = {"noop"}
  Delays = {0, 1}
  ChildDelays = {0, 1}
  Forms = {"x"}
  CbForms = {"x"}
  Offs = {0}
  MaxAdvance = 1
  MaxNow = 2
  MaxIter = 3
  MaxLat = 3
  L = 5
CONSTRAINT GenBound
CHECK_DEADLOCK FALSE
