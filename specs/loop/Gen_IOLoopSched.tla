---------------------------- MODULE Gen_IOLoopSched ----------------------------
(* Path enumeration for IOLoopSched: with the history in the state every path is a distinct
   state, so TLC's BFS enumerates every program (sequence of calls / advances / iterations) up
   to length L together with every allowed observation sequence; -dump writes them out. *)
EXTENDS IOLoopSched
CONSTANT L
VARIABLE hist
GenInit == InitState /\ hist = <<>>
GenNext == Len(hist) < L /\ Next /\ hist' = Append(hist, step')
GenSpec == GenInit /\ [][GenNext]_<<vars, step, hist>>
GenBound == Len(hist) <= L /\ now <= MaxNow /\ iter <= MaxIter
=============================================================================
