SPECIFICATION GenSpec
CONSTANTS
  Kinds = {"none", "raise", "value", "coro", "cororaise", "gencoro", "future", "swallow", "stop"}
  SecondKinds = {"none", "coro", "future"}
  Durations = {0, 1, 3}
  Timeouts = {0, 2, 999}
  MaxCalls = 2
  L = 2
CONSTRAINT GenBound
CHECK_DEADLOCK FALSE
