---------------------------- MODULE PeriodicJitter ----------------------------
(***************************************************************************)
(* Extension of Periodic.tla to PeriodicCallback(jitter = 1/2): every call *)
(* of _update_next draws one random number r and uses the period           *)
(*     q = p * (1 + jitter * (r - 1/2))                                    *)
(* for that one update.  The draw is an argument `f` of the action that    *)
(* reschedules (f in JF, q = p*f/8; r = (f - 6)/4 for jitter 1/2, so that  *)
(* f = 6..9 covers r = 0, 1/4, 1/2, 3/4 and every q is an integer when 8   *)
(* divides p).  The grid clause of C39 is stated "without jitter" and is   *)
(* not demanded here; the other clauses are, with the period actually used:*)
(* run times increase, are not in the past, are at most one (jittered)     *)
(* period ahead while the clock has not gone backwards, exactly one        *)
(* (jittered) period on when it has; q stays within p*(1 -+ jitter/2); one *)
(* draw per update; no overlap; stop prevents further runs.                *)
(* Same two clocks and action grain as Periodic.tla (Restart not offered). *)
(***************************************************************************)
EXTENDS Integers, Sequences, TLC

CONSTANTS Periods,     \* base periods p (ticks), multiples of 8
          Kinds,       \* "sync", "raise", "coro", "cororaise"
          JF,          \* draws offered: q = p*f/8, subset of 6..10
          Ticks, Back, \* clock changes coded 100*x + dm: wall moves by x - Back, loop clock by dm
          MaxWall, MaxMono,
          IdleStop

VARIABLES cfg,      \* [p, kind, w0, jit]
          wall, mono, running, armed, md, next, inflight, calls, starts, sched, errs,
          q,        \* the period used by the last _update_next (0: none yet)
          rnd,      \* random numbers drawn so far
          step

vars == <<cfg, wall, mono, running, armed, md, next, inflight, calls, starts, sched, errs, q, rnd>>

Proj == [running |-> running, armed |-> armed, inflight |-> inflight, calls |-> calls, sched |-> sched,
         errs |-> errs, rnd |-> rnd]
Obs(a, args) == [act |-> a, args |-> args, exp |-> Proj']

Max2(a, b) == IF a >= b THEN a ELSE b
F0 == CHOOSE x \in JF : \A y \in JF : x <= y

UpdateNext(nx, w, p) ==
    IF nx <= w THEN nx + (((w - nx) \div p) + 1) * p
               ELSE nx + p

InitWith(c) ==
    /\ cfg = c
    /\ wall = c.w0 /\ mono = 0
    /\ running = 0 /\ armed = 0 /\ md = 0 /\ next = 0
    /\ inflight = 0 /\ calls = 0 /\ starts = 0 /\ sched = <<>> /\ errs = 0 /\ q = 0 /\ rnd = 0
    /\ step = [act |-> "init", args |-> <<>>,
               exp |-> [running |-> 0, armed |-> 0, inflight |-> 0, calls |-> 0, sched |-> <<>>, errs |-> 0, rnd |-> 0]]

InitState == \E c \in [p : Periods, kind : Kinds, w0 : {Back}, jit : {1}] : InitWith(c)

IsCoro == cfg.kind \in {"coro", "cororaise"}
Raises == cfg.kind \in {"raise", "cororaise"}

(* _schedule_next at clocks (w, m) with draw f *)
Schedule(r, nx, sc, w, m, f) ==
    IF r = 1
      THEN LET qq == (cfg.p * f) \div 8
               nn == UpdateNext(nx, w, qq) IN
           /\ next' = nn /\ armed' = 1 /\ md' = m + Max2(0, nn - w) /\ sched' = Append(sc, nn)
           /\ q' = qq /\ rnd' = rnd + 1
      ELSE /\ next' = nx /\ armed' = 0 /\ md' = md /\ sched' = sc /\ q' = q /\ rnd' = rnd
           /\ f = F0        \* no draw: one representative

Start(f) ==
    /\ running = 0 /\ inflight = 0 /\ armed = 0
    /\ running' = 1 /\ starts' = starts + 1
    /\ Schedule(1, wall, sched, wall, mono, f)
    /\ UNCHANGED <<cfg, wall, mono, inflight, calls, errs>>
    /\ step' = Obs("start", <<f>>)

Stop ==
    /\ running = 1 \/ IdleStop = 1
    /\ running' = 0 /\ armed' = 0
    /\ UNCHANGED <<cfg, wall, mono, md, next, inflight, calls, starts, sched, errs, q, rnd>>
    /\ step' = Obs("stop", <<>>)

Tick(x, dm, f) ==
    /\ wall + x - Back >= 0 /\ wall + x - Back <= MaxWall /\ mono + dm <= MaxMono
    /\ wall' = wall + x - Back /\ mono' = mono + dm
    /\ IF armed = 1 /\ md <= mono'
         THEN /\ calls' = calls + 1
              /\ IF IsCoro
                   THEN /\ inflight' = inflight + 1 /\ armed' = 0 /\ f = F0
                        /\ UNCHANGED <<md, next, sched, errs, q, rnd>>
                   ELSE /\ errs' = errs + (IF Raises THEN 1 ELSE 0)
                        /\ Schedule(running, next, sched, wall', mono', f)
                        /\ UNCHANGED inflight
         ELSE /\ f = F0
              /\ UNCHANGED <<armed, md, next, sched, calls, inflight, errs, q, rnd>>
    /\ UNCHANGED <<cfg, running, starts>>
    /\ step' = Obs("tick", <<x - Back, dm, f>>)

Done(f) ==
    /\ inflight > 0
    /\ inflight' = inflight - 1
    /\ errs' = errs + (IF Raises THEN 1 ELSE 0)
    /\ Schedule(running, next, sched, wall, mono, f)
    /\ UNCHANGED <<cfg, wall, mono, running, calls, starts>>
    /\ step' = Obs("done", <<f>>)

Next ==
    \/ Stop
    \/ \E f \in JF : Start(f) \/ Done(f)
    \/ \E t \in Ticks, f \in JF : Tick(t \div 100, t % 100, f)

Spec == InitState /\ [][Next]_<<vars, step>>

----------------------------------------------------------------------------
TypeOK ==
    /\ running \in {0, 1} /\ armed \in {0, 1} /\ inflight \in Nat /\ wall \in Nat /\ mono \in Nat
    /\ (armed = 1 => running = 1)

Rescheduled == Len(sched') = Len(sched) + 1 /\ starts' = starts

Increasing == [][Rescheduled => next' > next]_vars
NotPast == [][Len(sched') = Len(sched) + 1 => next' > wall']_vars
(* at most one period - the one drawn for this update - after the current time *)
AtMostOnePeriod == [][(Rescheduled /\ next <= wall') => next' <= wall' + q']_vars
BackwardsOnePeriod == [][(Rescheduled /\ next > wall') => next' = next + q']_vars
(* the first run after start() is one drawn period after the start time *)
FirstRun == [][starts' = starts + 1 => next' = wall' + q']_vars
(* the drawn period stays within p*(1 - jitter/2) <= q <= p*(1 + jitter/2), jitter = 1/2 (closed at both
   ends: which end random() = 0 maps to is the implementation's choice, f = 10 is offered to traces); the base
   period itself is never changed by a draw (no drift): q is always derived from cfg.p *)
QInRange == q = 0 \/ (4 * q >= 3 * cfg.p /\ 4 * q <= 5 * cfg.p)
(* exactly one draw per update *)
OneDrawPerUpdate == rnd = Len(sched)

NoOverlap == inflight <= 1
NoStartWhileRunning == [][calls' > calls => inflight = 0]_vars
NoRunAfterStop == [][calls' > calls => running = 1]_vars
StoppedMeansDisarmed == running = 0 => armed = 0
NeverStalls == (running = 1 /\ inflight = 0) => armed = 1
NotEarlyMono == armed = 1 => md > mono

StateBound == wall <= MaxWall /\ mono <= MaxMono
View == <<cfg, wall, mono, running, armed, md, next, inflight, q>>
=============================================================================
