SPECIFICATION Spec
CONSTANTS
  Periods = {8}
  Kinds = {"sync", "coro"}
  JF = {6, 7, 8, 9}
  Ticks = {300, 1003, 1008, 1511, 2013, 712, 5, 4028}
  Back = 10
  MaxWall = 56
  MaxMono = 32
  IdleStop = 1
CONSTRAINT StateBound
VIEW View
INVARIANT TypeOK
INVARIANT QInRange
INVARIANT OneDrawPerUpdate
INVARIANT NoOverlap
INVARIANT StoppedMeansDisarmed
INVARIANT NeverStalls
INVARIANT NotEarlyMono
PROPERTY Increasing
PROPERTY NotPast
PROPERTY AtMostOnePeriod
PROPERTY BackwardsOnePeriod
PROPERTY FirstRun
PROPERTY NoStartWhileRunning
PROPERTY NoRunAfterStop
CHECK_DEADLOCK FALSE
