---------------------------- MODULE CrossThread ----------------------------
(***************************************************************************)
(* add_callback from several threads (property C38): every thread          *)
(* (thread 1 is the loop's own thread, scheduling from inside callbacks)   *)
(* schedules a numbered series of callbacks while the loop runs.  The      *)
(* contract: each callback runs exactly once, after its add_callback call  *)
(* began, and the callbacks of one thread run in the order that thread     *)
(* scheduled them.  Nothing is promised about the relative order of        *)
(* different threads' callbacks, so the model keeps one FIFO per thread    *)
(* (a global FIFO would demand more than the property states).             *)
(***************************************************************************)
EXTENDS Integers, Sequences, FiniteSets, TLC

CONSTANTS MaxThreads, MaxItems, Shapes     \* Shapes: set of <<threads, items>> coded 100*threads + items

VARIABLES cfg,     \* [nt, nk]
          begun,   \* thread -> number of add_callback calls started
          nrun,    \* thread -> number of its callbacks that ran
          ran,     \* execution log: <<thread, k>>
          step

vars == <<cfg, begun, nrun, ran>>
Threads == 1..cfg.nt

Proj == [nran |-> Len(ran)]
Obs(a, args) == [act |-> a, args |-> args, exp |-> Proj']

InitWith(c) ==
    /\ cfg = c
    /\ begun = [t \in 1..c.nt |-> 0] /\ nrun = [t \in 1..c.nt |-> 0]
    /\ ran = <<>>
    /\ step = [act |-> "init", args |-> <<>>, exp |-> [nran |-> 0]]
InitState == \E s \in Shapes : InitWith([nt |-> s \div 100, nk |-> s % 100])

Begin(t) ==
    /\ t \in Threads /\ begun[t] < cfg.nk
    /\ (t = 1 /\ begun[t] > 0 => nrun[t] = begun[t])   \* the loop thread schedules its next item from inside the previous one
    /\ begun' = [begun EXCEPT ![t] = @ + 1]
    /\ UNCHANGED <<cfg, nrun, ran>>
    /\ step' = Obs("begin", <<t, begun[t] + 1>>)

(* the loop runs the oldest not yet run callback of some thread *)
Run(t) ==
    /\ t \in Threads /\ nrun[t] < begun[t]
    /\ ran' = Append(ran, <<t, nrun[t] + 1>>)
    /\ nrun' = [nrun EXCEPT ![t] = @ + 1]
    /\ UNCHANGED <<cfg, begun>>
    /\ step' = Obs("run", <<t, nrun[t] + 1>>)

AllDone == \A t \in Threads : nrun[t] = cfg.nk
Next == \E t \in 1..MaxThreads : Begin(t) \/ Run(t)
Spec == InitState /\ [][Next]_<<vars, step>>
FairSpec == Spec /\ WF_vars(Next)

----------------------------------------------------------------------------
(* each callback runs exactly once, in scheduling order per thread, and only after it was scheduled *)
RunsOnce == \A p, q \in 1..Len(ran) : p # q => ran[p] # ran[q]
PerThreadOrder == \A p, q \in 1..Len(ran) : (p < q /\ ran[p][1] = ran[q][1]) => ran[p][2] < ran[q][2]
NoGaps == \A t \in Threads : \A k \in 1..nrun[t] : \E p \in 1..Len(ran) : ran[p] = <<t, k>>
Causal == \A t \in Threads : nrun[t] <= begun[t]
EventuallyAllRun == <>[]AllDone
View == vars
=============================================================================
