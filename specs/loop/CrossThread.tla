---------------------------- MODULE CrossThread ----------------------------
(***************************************************************************)
(* add_callback from several threads (property C38): every thread          *)
(* (thread 1 is the loop's own thread, scheduling from inside callbacks;   *)
(* the others are plain threads, threads running their OWN asyncio loop,   *)
(* threads running their own IOLoop) schedules a numbered series of        *)
(* callbacks on one target loop that is otherwise idle.  The contract:     *)
(* each callback runs exactly once, after its add_callback call began, the *)
(* callbacks of one thread run in the order that thread scheduled them,    *)
(* and a callback whose add_callback call has RETURNED is never left       *)
(* behind by a loop that went to sleep: add_callback from another thread   *)
(* leaves a wake-up pending (NoLostWakeup).  Nothing is promised about the *)
(* relative order of different threads' callbacks, so the model keeps one  *)
(* FIFO per thread (a global FIFO would demand more than the property).    *)
(*                                                                         *)
(* Sleeping is modelled with two bits: `asleep` (the loop is blocked       *)
(* waiting for I/O with no timeout) and `wake` (a wake-up is pending).     *)
(* The loop only blocks when nothing that was added is unrun, or when a    *)
(* wake-up is pending (it then returns at once); while it sleeps nothing   *)
(* runs.  Sleep / WakeUp / Drain are internal steps.                       *)
(***************************************************************************)
EXTENDS Integers, Sequences, FiniteSets, TLC

CONSTANTS MaxThreads, MaxItems, Shapes     \* Shapes: set of <<threads, items>> coded 100*threads + items

VARIABLES cfg,     \* [nt, nk]
          begun,   \* thread -> number of add_callback calls started
          added,   \* thread -> number of add_callback calls that have returned
          nrun,    \* thread -> number of its callbacks that ran
          ran,     \* execution log: <<thread, k>>
          asleep,  \* 1: the loop is blocked with nothing to do
          wake,    \* 1: a wake-up is pending
          step

vars == <<cfg, begun, added, nrun, ran, asleep, wake>>
Threads == 1..cfg.nt

Proj == [nran |-> Len(ran)]
Obs(a, args) == [act |-> a, args |-> args, exp |-> Proj']

InitWith(c) ==
    /\ cfg = c
    /\ begun = [t \in 1..c.nt |-> 0] /\ added = [t \in 1..c.nt |-> 0] /\ nrun = [t \in 1..c.nt |-> 0]
    /\ ran = <<>> /\ asleep = 0 /\ wake = 0
    /\ step = [act |-> "init", args |-> <<>>, exp |-> [nran |-> 0]]
InitState == \E s \in Shapes : InitWith([nt |-> s \div 100, nk |-> s % 100])

(* thread t starts its next add_callback call (its calls do not overlap) *)
Begin(t) ==
    /\ t \in Threads /\ begun[t] < cfg.nk /\ added[t] = begun[t]
    /\ (t = 1 => asleep = 0 /\ (begun[t] > 0 => nrun[t] = begun[t]))   \* the loop thread schedules its next item from inside the previous one
    /\ begun' = [begun EXCEPT ![t] = @ + 1]
    /\ UNCHANGED <<cfg, added, nrun, ran, asleep, wake>>
    /\ step' = Obs("begin", <<t, begun[t] + 1>>)

(* the call returns: the callback is queued and - from another thread - a wake-up is pending *)
Added(t) ==
    /\ t \in Threads /\ added[t] < begun[t]
    /\ (t = 1 => asleep = 0)
    /\ added' = [added EXCEPT ![t] = @ + 1]
    /\ wake' = IF t = 1 THEN wake ELSE 1
    /\ UNCHANGED <<cfg, begun, nrun, ran, asleep>>
    /\ step' = Obs("added", <<t, begun[t]>>)

(* the loop runs the oldest not yet run callback of some thread *)
Run(t) ==
    /\ t \in Threads /\ nrun[t] < begun[t] /\ asleep = 0
    /\ ran' = Append(ran, <<t, nrun[t] + 1>>)
    /\ nrun' = [nrun EXCEPT ![t] = @ + 1]
    /\ UNCHANGED <<cfg, begun, added, asleep, wake>>
    /\ step' = Obs("run", <<t, nrun[t] + 1>>)

AllAddedRun == \A t \in Threads : nrun[t] >= added[t]
(* the loop's own thread is inside a callback while one of its add_callback calls is in progress
   and between running its item k and scheduling item k + 1 from inside it *)
LoopThreadBusy == added[1] # begun[1] \/ (begun[1] < cfg.nk /\ nrun[1] = begun[1])
Sleep  == /\ asleep = 0 /\ (AllAddedRun \/ wake = 1) /\ ~LoopThreadBusy
          /\ asleep' = 1 /\ UNCHANGED <<cfg, begun, added, nrun, ran, wake, step>>
WakeUp == /\ asleep = 1 /\ wake = 1
          /\ asleep' = 0 /\ wake' = 0 /\ UNCHANGED <<cfg, begun, added, nrun, ran, step>>
Drain  == /\ asleep = 0 /\ wake = 1
          /\ wake' = 0 /\ UNCHANGED <<cfg, begun, added, nrun, ran, asleep, step>>
Internal == Sleep \/ WakeUp \/ Drain

AllDone == \A t \in Threads : nrun[t] = cfg.nk
Next == (\E t \in 1..MaxThreads : Begin(t) \/ Added(t) \/ Run(t)) \/ Internal
Spec == InitState /\ [][Next]_<<vars, step>>
FairSpec == Spec /\ WF_vars(Next)

----------------------------------------------------------------------------
(* each callback runs exactly once, in scheduling order per thread, and only after it was scheduled *)
RunsOnce == \A p, q \in 1..Len(ran) : p # q => ran[p] # ran[q]
PerThreadOrder == \A p, q \in 1..Len(ran) : (p < q /\ ran[p][1] = ran[q][1]) => ran[p][2] < ran[q][2]
NoGaps == \A t \in Threads : \A k \in 1..nrun[t] : \E p \in 1..Len(ran) : ran[p] = <<t, k>>
Causal == \A t \in Threads : nrun[t] <= begun[t] /\ added[t] <= begun[t] /\ begun[t] <= added[t] + 1
(* bounded progress: the loop is never asleep, with no wake-up pending, while a callback that was
   added has not run - such a state would last for ever on an otherwise idle loop *)
Stuck == asleep = 1 /\ wake = 0 /\ ~AllAddedRun
NoLostWakeup == ~Stuck
EventuallyAllRun == <>[]AllDone
View == vars
=============================================================================
