---------------------------- MODULE Gen_RunSync ----------------------------
EXTENDS RunSync
CONSTANT L
VARIABLE hist
GenInit == InitState /\ hist = <<>>
GenNext == Len(hist) < L /\ Next /\ hist' = Append(hist, step')
GenSpec == GenInit /\ [][GenNext]_<<vars, step, hist>>
GenBound == Len(hist) <= L
=============================================================================
