SPECIFICATION TraceSpec
CONSTANTS
  Periods = {8}
  Kinds = {"sync"}
  JF = {6, 7, 8, 9, 10}
  Ticks = {0}
  Back = 1000
  MaxWall = 100000000
  MaxMono = 100000000
  IdleStop = 1
CONSTRAINT Report
INVARIANT TypeOK
INVARIANT QInRange
INVARIANT OneDrawPerUpdate
INVARIANT NoOverlap
INVARIANT StoppedMeansDisarmed
INVARIANT NeverStalls
INVARIANT NotEarlyMono
PROPERTY Increasing
PROPERTY NotPast
PROPERTY AtMostOnePeriod
PROPERTY BackwardsOnePeriod
PROPERTY FirstRun
PROPERTY NoStartWhileRunning
PROPERTY NoRunAfterStop
CHECK_DEADLOCK FALSE
