---------------------------- MODULE Trace_CrossThread ----------------------------
(* Validates event logs of real multi-threaded add_callback runs against CrossThread.tla.
   Logged: begin(t, k) (taken just before thread t calls add_callback for its k-th item), run(t, k)
   (inside the callback, on the loop thread), end.  A log is accepted iff it is an order-preserving merge with
   every item run once, none before its add_callback call began, and all of them run at the end. *)
EXTENDS CrossThread, Json, IOUtils, TLCExt
Traces == ndJsonDeserialize(IOEnv.TRACE_FILE)
Verbose == IOEnv.TRACE_VERBOSE = "1"
VARIABLES tid, l
Ev == Traces[tid].ev
TraceInit ==
    /\ tid \in 1..Len(Traces)
    /\ l = 1
    /\ InitWith([nt |-> Traces[tid].cfg.nt, nk |-> Traces[tid].cfg.nk])
IsEvent(a) == l <= Len(Ev) /\ Ev[l].a = a /\ l' = l + 1 /\ UNCHANGED tid
Bind == Proj' = Ev[l].obs
TrBegin == IsEvent("begin") /\ Begin(Ev[l].args[1]) /\ begun'[Ev[l].args[1]] = Ev[l].args[2] /\ Bind
TrRun   == IsEvent("run") /\ Run(Ev[l].args[1]) /\ ran'[Len(ran')] = <<Ev[l].args[1], Ev[l].args[2]>> /\ Bind
TrEnd   == IsEvent("end") /\ AllDone /\ UNCHANGED <<vars, step>>
TraceNext == TrBegin \/ TrRun \/ TrEnd
TraceSpec == TraceInit /\ [][TraceNext]_<<vars, step, tid, l>>
Report == IF Verbose THEN PrintT(<<"AT", Traces[tid].id, l>>)
          ELSE (l = Len(Ev) + 1 => PrintT(<<"ACCEPT", Traces[tid].id>>))
=============================================================================
