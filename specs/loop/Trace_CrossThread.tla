---------------------------- MODULE Trace_CrossThread ----------------------------
(* Validates event logs of real multi-threaded add_callback runs against CrossThread.tla.
   Logged (one global order): begin(t, k) just before thread t calls add_callback for its k-th
   item, added(t, k) when the call has returned, run(t, k) inside the callback on the loop thread,
   end.  The loop's sleeping and waking is not logged: Sleep / WakeUp / Drain are silent steps TLC
   places.  The harness watchdog logs `stuck` when, after every producer has finished, it finds the
   loop blocked in select() without timeout, its self-pipe empty and callbacks still unrun - a state
   that cannot end by itself; the specification has no such state (NoLostWakeup), so a log containing
   `stuck` is rejected there.  A log is accepted iff it is an order-preserving merge with every item
   run once, none before its add_callback call began, no lost wake-up, and all of them run at the end. *)
EXTENDS CrossThread, Json, IOUtils, TLCExt
Traces == ndJsonDeserialize(IOEnv.TRACE_FILE)
Verbose == IOEnv.TRACE_VERBOSE = "1"
VARIABLES tid, l
Ev == Traces[tid].ev
TraceInit ==
    /\ tid \in 1..Len(Traces)
    /\ l = 1
    /\ InitWith([nt |-> Traces[tid].cfg.nt, nk |-> Traces[tid].cfg.nk])
IsEvent(a) == l <= Len(Ev) /\ Ev[l].a = a /\ l' = l + 1 /\ UNCHANGED tid
Bind == Proj' = Ev[l].obs
TrBegin == IsEvent("begin") /\ Begin(Ev[l].args[1]) /\ begun'[Ev[l].args[1]] = Ev[l].args[2] /\ Bind
TrAdded == IsEvent("added") /\ Added(Ev[l].args[1]) /\ added'[Ev[l].args[1]] = Ev[l].args[2] /\ Bind
TrRun   == IsEvent("run") /\ Run(Ev[l].args[1]) /\ ran'[Len(ran')] = <<Ev[l].args[1], Ev[l].args[2]>> /\ Bind
TrStuck == IsEvent("stuck") /\ Stuck /\ UNCHANGED <<vars, step>>
TrEnd   == IsEvent("end") /\ AllDone /\ UNCHANGED <<vars, step>>
TrSilent == UNCHANGED <<tid, l>> /\ Internal
TraceNext == TrBegin \/ TrAdded \/ TrRun \/ TrStuck \/ TrEnd \/ TrSilent
TraceSpec == TraceInit /\ [][TraceNext]_<<vars, step, tid, l>>
Report == IF Verbose THEN PrintT(<<"AT", Traces[tid].id, l>>)
          ELSE (l = Len(Ev) + 1 => PrintT(<<"ACCEPT", Traces[tid].id>>))
=============================================================================
