SPECIFICATION TraceSpec
CONSTANTS
  NTop = 12
  KindsCb = {"noop"}
  KindsTo = {"noop"}
  KindsFut = {"noop"}
  Delays = {0}
  ChildDelays = {0}
  Forms = {"x"}
  CbForms = {"x"}
  Offs = {0}
  MaxAdvance = 1
  MaxNow = 100000
  MaxIter = 100000
  MaxLat = 3
CONSTRAINT Report
INVARIANT TypeOK
INVARIANT RunsOnce
INVARIANT CallbackFifo
INVARIANT CallbackNoOvertake
INVARIANT NextIteration
INVARIANT LaterIteration
INVARIANT TimerLaterIteration
INVARIANT NotEarly
INVARIANT DeadlineOrder
INVARIANT RemovedNeverRan
INVARIANT ErrorsLogged
INVARIANT FutureErrors
PROPERTY DueTimersRun
PROPERTY ReadyRuns
PROPERTY RemovedSticky
PROPERTY LogGrows
PROPERTY FutureErrorLater
CHECK_DEADLOCK FALSE
