SPECIFICATION GenSpec
CONSTANTS
  Periods = {8}
  Kinds = {"sync", "coro"}
  JF = {6, 7, 9}
  Ticks = {1608, 1307, 310, 4005}
  Back = 10
  MaxWall = 400
  MaxMono = 400
  IdleStop = 0
  L = 5
CONSTRAINT GenBound
CHECK_DEADLOCK FALSE
