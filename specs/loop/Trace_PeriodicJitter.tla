---------------------------- MODULE Trace_PeriodicJitter ----------------------------
(* Validates runs recorded from a real PeriodicCallback(jitter = 1/2) with scripted draws against
   PeriodicJitter.tla; all invariants and action properties are evaluated at every step. *)
EXTENDS PeriodicJitter, Json, IOUtils, TLCExt
Traces == ndJsonDeserialize(IOEnv.TRACE_FILE)
Verbose == IOEnv.TRACE_VERBOSE = "1"
VARIABLES tid, l
Ev == Traces[tid].ev
TraceInit ==
    /\ tid \in 1..Len(Traces)
    /\ l = 1
    /\ InitWith([p |-> Traces[tid].cfg.p, kind |-> Traces[tid].cfg.kind, w0 |-> Traces[tid].cfg.w0, jit |-> 1])
IsEvent(a) == l <= Len(Ev) /\ Ev[l].a = a /\ l' = l + 1 /\ UNCHANGED tid
Bind == Proj' = Ev[l].obs
(* The draw itself is not bound to the logged random number: which period a given random number maps to
   (r -> p*(1 + j*(r - 1/2)) or its mirror image) is not part of C39, so TLC infers f from the logged
   deadline; the logged draw count and deadlines are bound, and every property is evaluated per step. *)
Drawn(f) == TRUE
TrStart == IsEvent("start") /\ (\E f \in JF : Start(f) /\ Drawn(f)) /\ Bind
TrStop  == IsEvent("stop") /\ Stop /\ Bind
TrDone  == IsEvent("done") /\ (\E f \in JF : Done(f) /\ Drawn(f)) /\ Bind
TrTick  == IsEvent("tick") /\ (\E f \in JF : Tick(Ev[l].args[1] + Back, Ev[l].args[2], f) /\ Drawn(f)) /\ Bind
TraceNext == TrStart \/ TrStop \/ TrDone \/ TrTick
TraceSpec == TraceInit /\ [][TraceNext]_<<vars, step, tid, l>>
Report == IF Verbose THEN PrintT(<<"AT", Traces[tid].id, l>>)
          ELSE (l = Len(Ev) + 1 => PrintT(<<"ACCEPT", Traces[tid].id>>))
=============================================================================
