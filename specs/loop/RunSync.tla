---------------------------- MODULE RunSync ----------------------------
(***************************************************************************)
(* Reference model of IOLoop.run_sync(func, timeout) (property C38, last   *)
(* clause): run_sync returns the function's result, re-raises its          *)
(* exception, or raises TimeoutError after cancelling it.                  *)
(*                                                                         *)
(* run_sync blocks, so one action = one complete call on the same loop (a  *)
(* behaviour is a sequence of calls: an earlier call must leave nothing    *)
(* behind that disturbs a later one).  d is the virtual time the function  *)
(* needs, to the timeout (NoTo = none); the loop's clock only advances     *)
(* while the loop waits.                                                   *)
(*                                                                         *)
(* kinds:  none      plain function returning None                         *)
(*         raise     plain function raising ValueError                     *)
(*         value     plain function returning 42 (not awaitable: an error) *)
(*         coro      native coroutine: sleeps d, returns 7                 *)
(*         cororaise native coroutine: sleeps d, raises ValueError         *)
(*         gencoro   @gen.coroutine: sleeps d, returns 7                   *)
(*         future    returns a Future that is resolved with 7 after d      *)
(*         swallow   native coroutine: sleeps d, ignores cancellation,     *)
(*                   returns 8                                             *)
(*         stop      native coroutine: stops the loop, then sleeps d >= 1  *)
(* When the function needs exactly as long as the timeout allows (d = to)  *)
(* both outcomes are allowed.  `seen` = the coroutine observed             *)
(* CancelledError (native coroutines only; with to = 0 it may be cancelled *)
(* before it ever started).                                                *)
(***************************************************************************)
EXTENDS Integers, Sequences, TLC

CONSTANTS Kinds, SecondKinds, Durations, Timeouts, MaxCalls    \* SecondKinds: kinds offered after the first call
NoTo == 999

VARIABLES cfg, now, calls, last, step
vars == <<cfg, now, calls, last>>

Proj == [out |-> last.out, elapsed |-> last.elapsed, seen |-> last.seen, now |-> now]
Obs(a, args) == [act |-> a, args |-> args, exp |-> Proj']

NoCall == [k |-> "none", d |-> 0, to |-> NoTo, out |-> <<"ret", "None">>, elapsed |-> 0, seen |-> 0]

InitWith(c) ==
    /\ cfg = c /\ now = 0 /\ calls = 0 /\ last = NoCall
    /\ step = [act |-> "init", args |-> <<>>, exp |-> [out |-> <<"ret", "None">>, elapsed |-> 0, seen |-> 0, now |-> 0]]
InitState == InitWith([v |-> 1])

Native(k) == k \in {"coro", "cororaise", "swallow"}
Timed(k)  == k \in {"coro", "cororaise", "gencoro", "future", "swallow"}

OnTime(k) == CASE k \in {"coro", "gencoro", "future"} -> <<"ret", "7">>
               [] k = "cororaise" -> <<"exc", "ValueError">>
               [] k = "swallow"   -> <<"ret", "8">>

(* timeout 0: a coroutine may be cancelled before its body ever ran (it then cannot react) *)
NeverStarted == {[out |-> <<"exc", "TimeoutError">>, elapsed |-> 0, seen |-> 0]}

(* the allowed results [out, elapsed, seen] of one call *)
Results(k, d, to) ==
    CASE k = "none"  -> {[out |-> <<"ret", "None">>, elapsed |-> 0, seen |-> 0]}
      [] k = "raise" -> {[out |-> <<"exc", "ValueError">>, elapsed |-> 0, seen |-> 0]}
      [] k = "value" -> {[out |-> <<"exc", "BadYieldError">>, elapsed |-> 0, seen |-> 0]}
      [] k = "stop"  -> {[out |-> <<"exc", "RuntimeError">>, elapsed |-> 0, seen |-> 0]}
                        \cup (IF to = 0 THEN NeverStarted ELSE {})
      [] OTHER ->
           LET fin == {[out |-> OnTime(k), elapsed |-> d, seen |-> 0]}
               cut == IF k = "swallow"
                        THEN {[out |-> <<"ret", "8">>, elapsed |-> to, seen |-> 1]} \cup (IF to = 0 THEN NeverStarted ELSE {})
                        ELSE {[out |-> <<"exc", "TimeoutError">>, elapsed |-> to, seen |-> s] :
                                 s \in (IF ~Native(k) THEN {0} ELSE IF to = 0 THEN {0, 1} ELSE {1})}
           IN IF to = NoTo \/ d < to THEN fin
              ELSE IF d > to THEN cut
              ELSE fin \cup cut

Call(k, d, to) ==
    /\ calls < MaxCalls
    /\ (calls > 0 => k \in SecondKinds)
    /\ (k = "stop" => d >= 1)
    /\ (~Timed(k) /\ k # "stop" => d = 0)
    /\ \E r \in Results(k, d, to) :
         /\ last' = [k |-> k, d |-> d, to |-> to, out |-> r.out, elapsed |-> r.elapsed, seen |-> r.seen]
         /\ now' = now + r.elapsed
         /\ calls' = calls + 1
         /\ UNCHANGED cfg
         /\ step' = [act |-> "run_sync", args |-> <<k, d, to, r>>, exp |-> Proj']

Next == \E k \in Kinds, d \in Durations, to \in Timeouts : Call(k, d, to)
Spec == InitState /\ [][Next]_<<vars, step>>

----------------------------------------------------------------------------
(* Properties *)
IsTimeout == last.out = <<"exc", "TimeoutError">>
(* TimeoutError only when a timeout was given and the function had not finished before it *)
TimeoutJustified == IsTimeout => (last.to # NoTo /\ last.d >= last.to /\ last.elapsed = last.to)
(* a function that finishes before the timeout (or without one) yields its own outcome *)
OwnOutcome == (Timed(last.k) /\ (last.to = NoTo \/ last.d < last.to)) => (last.out = OnTime(last.k) /\ last.elapsed = last.d)
(* a function that needs longer than the timeout never yields "on time" after d *)
CutShort == (Timed(last.k) /\ last.to # NoTo /\ last.d > last.to) => last.elapsed = last.to
(* TimeoutError comes after the coroutine was cancelled: it observed it unless it never started *)
CancelObserved == (IsTimeout /\ Native(last.k) /\ last.to > 0) => last.seen = 1
NeverLate == last.to # NoTo /\ Timed(last.k) => last.elapsed <= last.to \/ last.elapsed = last.d
ClockAdds == [][now' = now + last'.elapsed]_vars
View == vars
=============================================================================
