---------------------------- MODULE IOLoopSched ----------------------------
(***************************************************************************)
(* Reference model of IOLoop scheduling (property C38): add_callback /     *)
(* spawn_callback, add_timeout (absolute, timedelta) / call_later /        *)
(* call_at, remove_timeout, add_future and the error handling of           *)
(* IOLoop._run_callback, over an explicit ready queue, timer set, clock    *)
(* and loop iterations.                                                    *)
(*                                                                         *)
(* Grain: one action = one call made by the program from outside a         *)
(* callback, one clock advance, or ONE LOOP ITERATION (Iterate).  Calls    *)
(* made from inside callbacks are the callbacks' scripts; they take effect *)
(* inside Iterate.  An iteration runs what was ready when it began,        *)
(* followed by the timers that are due, in deadline order; everything      *)
(* scheduled during the iteration waits for a later iteration.             *)
(*                                                                         *)
(* What the contract leaves open is nondeterministic here:                 *)
(*   - the relative order of timeouts with EQUAL deadlines (TieOrders);    *)
(*   - in which later iteration (1..MaxLat iterations after the callback)  *)
(*     the exception of a future RETURNED by a callback is logged.         *)
(* A program (sequence of calls) therefore has a set of allowed            *)
(* observation sequences; the real loop must produce one of them.          *)
(*                                                                         *)
(* Item ids: the program's own calls create items 1..NTop in call order;   *)
(* the item created by the script of item i has id i + 100.                 *)
(***************************************************************************)
EXTENDS Integers, Sequences, FiniteSets, SequencesExt, TLC

CONSTANTS NTop,       \* number of items the program itself may create
          KindsCb,    \* script kinds offered to add_callback
          KindsTo,    \* script kinds offered to add_timeout
          KindsFut,   \* script kinds offered to add_future callbacks
          Delays,     \* relative deadlines offered to add_timeout (ticks)
          ChildDelays,\* delays used by the "addto" script
          Forms,      \* API forms of add_timeout ("abs","delta","later","at", or "x" = harness picks)
          CbForms,    \* API forms of add_callback ("add","spawn", or "x")
          Offs,       \* offsets between IOLoop.time() and the asyncio clock
          MaxAdvance, MaxNow, MaxIter,
          MaxLat      \* a returned future's exception is logged at most MaxLat iterations later

Child(i) == i + 100
Ids == (1..NTop) \cup {Child(i) : i \in 1..NTop}

NoItem == [how |-> "none", k |-> "none", a |-> 0, dl |-> 0, st |-> "none", rit |-> 0, seq |-> 0]

VARIABLES cfg,    \* [off]: fixed per behaviour
          now,    \* clock (ticks since start)
          iter,   \* number of completed loop iterations
          n,      \* items created by the program so far
          sc,     \* scheduling counter (orders all scheduling calls)
          item,   \* id -> [how, k, a, dl, st, rit, seq]
                  \*   how: "cb" | "to" | "fut";  k, a: script;  dl: deadline (timers)
                  \*   st: "none" | "ready" | "timer" | "waiting" | "removed" | "ran"
                  \*   rit: iteration during/after which it was scheduled (made ready);  seq: scheduling order
          ready,  \* FIFO of ids that run in the next iteration
          ran,    \* log: <<id, time, iteration>> in execution order
          errs,   \* ids whose callback raised: one log record each, in order
          fage,   \* id -> iterations since the callback returned a failing future (-1: none pending)
          ferrs,  \* ids whose returned future's exception has been logged
          step

vars == <<cfg, now, iter, n, sc, item, ready, ran, errs, fage, ferrs>>

Proj == [ran |-> ran, errs |-> errs, ferrs |-> ferrs]
Obs(a, args) == [act |-> a, args |-> args, exp |-> Proj']

InitWith(c) ==
    /\ cfg = c
    /\ now = 0 /\ iter = 0 /\ n = 0 /\ sc = 0
    /\ item = [i \in Ids |-> NoItem]
    /\ ready = <<>> /\ ran = <<>> /\ errs = <<>>
    /\ fage = [i \in Ids |-> -1]
    /\ ferrs = {}
    /\ step = [act |-> "init", args |-> <<>>, exp |-> [ran |-> <<>>, errs |-> <<>>, ferrs |-> {}]]

InitState == \E c \in [off : Offs] : InitWith(c)

----------------------------------------------------------------------------
(* Scripts: what a callback does when it runs.                             *)
(*   noop     returns None                                                 *)
(*   retval   returns a non-None, non-awaitable value (ignored)            *)
(*   raise    raises an Exception              -> one log record, at once  *)
(*   cancel   raises asyncio.CancelledError    -> not logged               *)
(*   failfut  returns an already failed Future -> logged on a later iteration *)
(*   failcoro is a coroutine function that raises -> logged on a later iteration *)
(*   okcoro   is a coroutine function that returns -> nothing logged       *)
(*   addcb    add_callback(child)  (a = 1: child raises, else noop)        *)
(*   addfut   add_future(already completed future, child)                  *)
(*   addto    add_timeout(now + a, child)                                  *)
(*   rm       remove_timeout(handle of item a)                             *)
(*   resolve  completes the future of add_future item a                    *)

ScriptArgs(k) ==
    CASE k = "addcb"   -> {0, 1}
      [] k = "addto"   -> ChildDelays
      [] k = "rm"      -> {j \in 1..n : item[j].how = "to"}
      [] k = "resolve" -> {j \in 1..n : item[j].how = "fut" /\ item[j].st = "waiting"}
      [] OTHER         -> {0}

New(how, k, a, d, st, it, s) == [how |-> how, k |-> k, a |-> a, dl |-> d, st |-> st, rit |-> it, seq |-> s]

(* program calls, made between iterations *)
AddCallback(form, k, a) ==
    /\ n < NTop
    /\ LET i == n + 1 IN
       /\ item' = [item EXCEPT ![i] = New("cb", k, a, 0, "ready", iter, sc + 1)]
       /\ ready' = Append(ready, i)
    /\ n' = n + 1 /\ sc' = sc + 1
    /\ UNCHANGED <<cfg, now, iter, ran, errs, fage, ferrs>>
    /\ step' = Obs("add_callback", <<form, k, a>>)

AddTimeout(form, d, k, a) ==
    /\ n < NTop
    /\ item' = [item EXCEPT ![n + 1] = New("to", k, a, now + d, "timer", iter, sc + 1)]
    /\ n' = n + 1 /\ sc' = sc + 1
    /\ UNCHANGED <<cfg, now, iter, ready, ran, errs, fage, ferrs>>
    /\ step' = Obs("add_timeout", <<form, d, k, a>>)

(* add_future(f, callback): done = 1 when f is already completed *)
AddFuture(done, k, a) ==
    /\ n < NTop
    /\ LET i == n + 1 IN
       IF done = 1
         THEN /\ item' = [item EXCEPT ![i] = New("fut", k, a, 0, "ready", iter, sc + 1)]
              /\ ready' = Append(ready, i)
         ELSE /\ item' = [item EXCEPT ![i] = New("fut", k, a, 0, "waiting", iter, sc + 1)]
              /\ UNCHANGED ready
    /\ n' = n + 1 /\ sc' = sc + 1
    /\ UNCHANGED <<cfg, now, iter, ran, errs, fage, ferrs>>
    /\ step' = Obs("add_future", <<done, k, a>>)

Resolve(i) ==
    /\ i \in Ids /\ item[i].how = "fut" /\ item[i].st = "waiting"
    /\ item' = [item EXCEPT ![i].st = "ready", ![i].rit = iter]
    /\ ready' = Append(ready, i)
    /\ UNCHANGED <<cfg, now, iter, n, sc, ran, errs, fage, ferrs>>
    /\ step' = Obs("resolve", <<i>>)

(* remove_timeout on any handle obtained so far - also after it ran or was removed *)
RemoveTimeout(i) ==
    /\ i \in Ids /\ item[i].how = "to" /\ item[i].st # "none"
    /\ item' = [item EXCEPT ![i].st = IF @ = "timer" THEN "removed" ELSE @]
    /\ UNCHANGED <<cfg, now, iter, n, sc, ready, ran, errs, fage, ferrs>>
    /\ step' = Obs("remove", <<i>>)

Advance(d) ==
    /\ now + d <= MaxNow
    /\ now' = now + d
    /\ UNCHANGED <<cfg, iter, n, sc, item, ready, ran, errs, fage, ferrs>>
    /\ step' = Obs("advance", <<d>>)

----------------------------------------------------------------------------
(* one loop iteration *)

RunItem(acc, i) ==
    IF acc.item[i].st # "ready" THEN acc      \* removed by an earlier callback of this iteration
    ELSE
    LET me == acc.item[i]
        c  == Child(i)
        a1 == [acc EXCEPT !.item[i].st = "ran", !.ran = Append(@, <<i, now, iter + 1>>)]
    IN  CASE me.k = "raise" -> [a1 EXCEPT !.errs = Append(@, i)]
          [] me.k \in {"failfut", "failcoro"} -> [a1 EXCEPT !.fp = @ \cup {i}]
          [] me.k = "addcb" ->
               [a1 EXCEPT !.item[c] = New("cb", IF me.a = 1 THEN "raise" ELSE "noop", 0, 0, "ready", iter + 1, a1.sc + 1),
                          !.ready = Append(@, c), !.sc = @ + 1]
          [] me.k = "addfut" ->
               [a1 EXCEPT !.item[c] = New("fut", "noop", 0, 0, "ready", iter + 1, a1.sc + 1),
                          !.ready = Append(@, c), !.sc = @ + 1]
          [] me.k = "addto" ->
               [a1 EXCEPT !.item[c] = New("to", "noop", 0, now + me.a, "timer", iter + 1, a1.sc + 1), !.sc = @ + 1]
          [] me.k = "rm" ->
               IF a1.item[me.a].how = "to" /\ a1.item[me.a].st \in {"timer", "ready"}
                 THEN [a1 EXCEPT !.item[me.a].st = "removed"] ELSE a1
          [] me.k = "resolve" ->
               IF a1.item[me.a].how = "fut" /\ a1.item[me.a].st = "waiting"
                 THEN [a1 EXCEPT !.item[me.a].st = "ready", !.item[me.a].rit = iter + 1, !.ready = Append(@, me.a)]
                 ELSE a1
          [] OTHER -> a1

Due == {i \in Ids : item[i].st = "timer" /\ item[i].dl <= now}
TieOrders(D) == {s \in SetToSeqs(D) : \A p, q \in 1..Len(s) : p < q => item[s[p]].dl <= item[s[q]].dl}
FPending == {i \in Ids : fage[i] >= 0}

Iterate ==
    /\ iter < MaxIter
    /\ \E ord \in TieOrders(Due), S \in SUBSET FPending :
         /\ \A i \in FPending : fage[i] >= MaxLat - 1 => i \in S
         /\ LET item0 == [i \in Ids |-> IF i \in Due THEN [item[i] EXCEPT !.st = "ready"] ELSE item[i]]
                acc0  == [item |-> item0, ready |-> <<>>, ran |-> ran, errs |-> errs, fp |-> {}, sc |-> sc]
                r     == FoldLeft(RunItem, acc0, ready \o ord)
            IN /\ item' = r.item /\ ready' = r.ready /\ ran' = r.ran /\ errs' = r.errs /\ sc' = r.sc
               /\ fage' = [i \in Ids |-> IF i \in S THEN -1
                                         ELSE IF i \in r.fp THEN 0
                                         ELSE IF fage[i] >= 0 THEN fage[i] + 1 ELSE -1]
               /\ ferrs' = ferrs \cup S
               /\ step' = Obs("iterate", <<ord, S>>)     \* the args name the choice made (not an input)
    /\ iter' = iter + 1
    /\ UNCHANGED <<cfg, now, n>>

Next ==
    \/ \E f \in CbForms, k \in KindsCb : \E a \in ScriptArgs(k) : AddCallback(f, k, a)
    \/ \E f \in Forms, d \in Delays, k \in KindsTo : \E a \in ScriptArgs(k) : AddTimeout(f, d, k, a)
    \/ \E dn \in {0, 1}, k \in KindsFut : \E a \in ScriptArgs(k) : AddFuture(dn, k, a)
    \/ \E i \in Ids : Resolve(i)
    \/ \E i \in Ids : RemoveTimeout(i)
    \/ \E d \in 1..MaxAdvance : Advance(d)
    \/ Iterate

Spec == InitState /\ [][Next]_<<vars, step>>

----------------------------------------------------------------------------
(* Properties (C38) *)

States == {"none", "ready", "timer", "waiting", "removed", "ran"}
RanIds == {ran[p][1] : p \in 1..Len(ran)}
Pos(i) == CHOOSE p \in 1..Len(ran) : ran[p][1] = i

TypeOK ==
    /\ now \in Nat /\ iter \in Nat /\ n \in 0..NTop
    /\ \A i \in Ids : item[i].st \in States
    /\ \A p \in 1..Len(ready) : item[ready[p]].st = "ready"

(* every item runs at most once; the log and the item states agree *)
RunsOnce ==
    /\ \A p, q \in 1..Len(ran) : p # q => ran[p][1] # ran[q][1]
    /\ \A i \in Ids : item[i].st = "ran" <=> i \in RanIds

(* callbacks run in scheduling order (one scheduling thread) *)
CallbackFifo ==
    \A i, j \in RanIds : (item[i].how = "cb" /\ item[j].how = "cb" /\ item[i].seq < item[j].seq) => Pos(i) < Pos(j)
(* ... and a callback still queued was scheduled after every callback that ran *)
CallbackNoOvertake ==
    \A i \in RanIds, j \in Ids : (item[i].how = "cb" /\ item[j].how = "cb" /\ item[j].st = "ready") => item[i].seq < item[j].seq

(* add_callback: the next iteration; add_future: a later iteration than the completion / registration *)
NextIteration  == \A p \in 1..Len(ran) : item[ran[p][1]].how = "cb"  => ran[p][3] = item[ran[p][1]].rit + 1
LaterIteration == \A p \in 1..Len(ran) : item[ran[p][1]].how = "fut" => ran[p][3] > item[ran[p][1]].rit
TimerLaterIteration == \A p \in 1..Len(ran) : item[ran[p][1]].how = "to" => ran[p][3] > item[ran[p][1]].rit

(* timeouts: not before the deadline, in deadline order *)
NotEarly == \A p \in 1..Len(ran) : item[ran[p][1]].how = "to" => ran[p][2] >= item[ran[p][1]].dl
DeadlineOrder ==
    \A i, j \in RanIds : (item[i].how = "to" /\ item[j].how = "to" /\ item[i].dl < item[j].dl) => Pos(i) < Pos(j)
(* a due timeout does not survive an iteration *)
DueTimersRun == [][iter' = iter + 1 => \A i \in Ids : (item[i].st = "timer" /\ item[i].dl <= now) => item'[i].st \in {"ran", "removed"}]_vars
ReadyRuns    == [][iter' = iter + 1 => \A i \in Ids : item[i].st = "ready" => item'[i].st \in {"ran", "removed"}]_vars

(* never after remove_timeout; nothing runs twice *)
RemovedSticky == [][\A i \in Ids : item[i].st \in {"removed", "ran"} => item'[i].st = item[i].st]_vars
RemovedNeverRan == \A i \in Ids : item[i].st = "removed" => i \notin RanIds
LogGrows == [][/\ Len(ran') >= Len(ran) /\ SubSeq(ran', 1, Len(ran)) = ran
               /\ Len(errs') >= Len(errs) /\ SubSeq(errs', 1, Len(errs)) = errs /\ ferrs \subseteq ferrs']_vars

(* exceptions: exactly one record per raising callback, in order; CancelledError and plain
   return values are not logged; a returned future's exception is logged on a LATER iteration,
   at most MaxLat iterations later; the loop goes on (ReadyRuns / DueTimersRun) *)
ErrorsLogged == errs = SelectSeq([p \in 1..Len(ran) |-> ran[p][1]], LAMBDA i : item[i].k = "raise")
FutureErrors ==
    /\ \A i \in ferrs : i \in RanIds /\ item[i].k \in {"failfut", "failcoro"} /\ fage[i] = -1
    /\ \A i \in Ids : fage[i] >= 0 => (i \in RanIds /\ i \notin ferrs /\ fage[i] < MaxLat)
    /\ \A i \in RanIds : item[i].k \in {"failfut", "failcoro"} => (i \in ferrs \/ fage[i] >= 0)
FutureErrorLater == [][\A i \in Ids : (i \in ferrs' /\ i \notin ferrs) => item[i].st = "ran"]_vars

StateBound == now <= MaxNow /\ iter <= MaxIter
View == vars
=============================================================================
