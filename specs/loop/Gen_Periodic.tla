---------------------------- MODULE Gen_Periodic ----------------------------
(* Path enumeration for Periodic: every sequence of start / stop / done / tick(dw, dm) up to
   length L with the expected projection after every step. *)
EXTENDS Periodic
CONSTANT L
VARIABLE hist
GenInit == InitState /\ hist = <<>>
GenNext == Len(hist) < L /\ Next /\ hist' = Append(hist, step')
GenSpec == GenInit /\ [][GenNext]_<<vars, step, hist>>
GenBound == Len(hist) <= L /\ StateBound
=============================================================================
