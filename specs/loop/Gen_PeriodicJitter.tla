---------------------------- MODULE Gen_PeriodicJitter ----------------------------
(* Path enumeration for PeriodicJitter: every sequence of start(f) / stop / done(f) / tick(dw, dm, f)
   up to length L with the expected projection after every step. *)
EXTENDS PeriodicJitter
CONSTANT L
VARIABLE hist
GenInit == InitState /\ hist = <<>>
GenNext == Len(hist) < L /\ Next /\ hist' = Append(hist, step')
GenSpec == GenInit /\ [][GenNext]_<<vars, step, hist>>
GenBound == Len(hist) <= L /\ StateBound
=============================================================================
