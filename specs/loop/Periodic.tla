---------------------------- MODULE Periodic ----------------------------
(***************************************************************************)
(* Reference model of tornado.ioloop.PeriodicCallback (property C39) over  *)
(* integer ticks, with TWO clocks: `wall` is IOLoop.time() (what           *)
(* PeriodicCallback reads; it may jump, also backwards) and `mono` is the  *)
(* event loop's clock that fires timers (never goes back).  A deadline D   *)
(* handed to add_timeout while the wall clock shows w becomes a timer that *)
(* fires once mono has advanced by max(0, D - w).                          *)
(*                                                                         *)
(* One action = one public call (start / stop), one completion of the      *)
(* coroutine callback, or one change of the clocks, each followed by       *)
(* running the loop to quiescence (a due timer fires inside Tick).         *)
(***************************************************************************)
EXTENDS Integers, Sequences, TLC

CONSTANTS Periods,     \* periods (ticks) explored
          Kinds,       \* callback kinds: "sync", "raise", "coro", "cororaise"
          Ticks, Back, \* clock changes offered, coded 10*x + dm: wall clock moves by x - Back (Back = largest
                       \* backward jump), the loop's clock advances by dm
          MaxWall, MaxMono,
          IdleStop,    \* 1: stop() is also offered when not running
          Restart      \* 1: start() is also offered while an invocation is still in flight (after stop)

VARIABLES cfg,      \* [p, kind]
          wall, mono,
          running,  \* 0/1: is_running()
          armed,    \* 0/1: a timeout is pending
          md,       \* mono deadline of the pending timeout
          next,     \* the deadline last handed to add_timeout (wall scale) = _next_timeout
          origin,   \* wall clock at the last start(): the grid is origin + k*p
          inflight, \* callback invocations started and not finished
          calls,    \* callback invocations started
          starts,   \* start() calls
          sched,    \* every deadline handed to add_timeout, in order
          errs,     \* log records for raising callbacks
          step

vars == <<cfg, wall, mono, running, armed, md, next, origin, inflight, calls, starts, sched, errs>>

Proj == [running |-> running, armed |-> armed, inflight |-> inflight, calls |-> calls, sched |-> sched, errs |-> errs]
Obs(a, args) == [act |-> a, args |-> args, exp |-> Proj']

Max2(a, b) == IF a >= b THEN a ELSE b

(* PeriodicCallback._update_next: floor branch when the deadline has been reached, otherwise
   (the wall clock is behind the deadline: it went backwards, or runs slower than mono) one period on *)
UpdateNext(nx, w, p) ==
    IF nx <= w THEN nx + (((w - nx) \div p) + 1) * p
               ELSE nx + p

InitWith(c) ==
    /\ cfg = c
    /\ wall = c.w0 /\ mono = 0
    /\ running = 0 /\ armed = 0 /\ md = 0 /\ next = 0 /\ origin = 0
    /\ inflight = 0 /\ calls = 0 /\ starts = 0 /\ sched = <<>> /\ errs = 0
    /\ step = [act |-> "init", args |-> <<>>,
               exp |-> [running |-> 0, armed |-> 0, inflight |-> 0, calls |-> 0, sched |-> <<>>, errs |-> 0]]

InitState == \E c \in [p : Periods, kind : Kinds, w0 : {Back}] : InitWith(c)

IsCoro == cfg.kind \in {"coro", "cororaise"}
Raises == cfg.kind \in {"raise", "cororaise"}

(* _schedule_next at clocks (w, m), given the values (r, nx, sc) current at that point *)
Schedule(r, nx, sc, w, m) ==
    IF r = 1
      THEN LET nn == UpdateNext(nx, w, cfg.p) IN
           /\ next' = nn /\ armed' = 1 /\ md' = m + Max2(0, nn - w) /\ sched' = Append(sc, nn)
      ELSE /\ next' = nx /\ armed' = 0 /\ md' = md /\ sched' = sc

Start ==
    /\ running = 0
    /\ Restart = 1 \/ inflight = 0
    /\ armed = 0
    /\ running' = 1 /\ origin' = wall /\ starts' = starts + 1
    /\ Schedule(1, wall, sched, wall, mono)
    /\ UNCHANGED <<cfg, wall, mono, inflight, calls, errs>>
    /\ step' = Obs("start", <<>>)

Stop ==
    /\ running = 1 \/ IdleStop = 1        \* stop() when not running changes nothing
    /\ running' = 0 /\ armed' = 0
    /\ UNCHANGED <<cfg, wall, mono, md, next, origin, inflight, calls, starts, sched, errs>>
    /\ step' = Obs("stop", <<>>)

(* the clocks change; a due timeout fires: the callback is invoked; a plain function finishes
   at once (and the next run is scheduled), a coroutine stays in flight *)
Tick(x, dm) ==
    /\ wall + x - Back >= 0 /\ wall + x - Back <= MaxWall /\ mono + dm <= MaxMono
    /\ wall' = wall + x - Back /\ mono' = mono + dm
    /\ IF armed = 1 /\ md <= mono' /\ inflight > 0
         THEN \* only after stop + start while in flight (Restart): this run is skipped, not overlapped
              /\ Schedule(running, next, sched, wall', mono')
              /\ UNCHANGED <<calls, inflight, errs>>
         ELSE
       IF armed = 1 /\ md <= mono'
         THEN /\ calls' = calls + 1
              /\ IF IsCoro
                   THEN /\ inflight' = inflight + 1 /\ armed' = 0
                        /\ UNCHANGED <<md, next, sched, errs>>
                   ELSE /\ errs' = errs + (IF Raises THEN 1 ELSE 0)
                        /\ Schedule(running, next, sched, wall', mono')
                        /\ UNCHANGED inflight
         ELSE UNCHANGED <<armed, md, next, sched, calls, inflight, errs>>
    /\ UNCHANGED <<cfg, running, origin, starts>>
    /\ step' = Obs("tick", <<x - Back, dm>>)

(* the coroutine callback finishes (or raises): the next run is scheduled now *)
Done ==
    /\ inflight > 0
    /\ inflight' = inflight - 1
    /\ errs' = errs + (IF Raises THEN 1 ELSE 0)
    /\ IF armed = 1       \* only after stop + start while in flight (Restart): a timeout is pending already
         THEN UNCHANGED <<armed, md, next, sched>>
         ELSE Schedule(running, next, sched, wall, mono)
    /\ UNCHANGED <<cfg, wall, mono, running, origin, calls, starts>>
    /\ step' = Obs("done", <<>>)

Next ==
    \/ Start \/ Stop \/ Done
    \/ \E t \in Ticks : Tick(t \div 10, t % 10)

Spec == InitState /\ [][Next]_<<vars, step>>

----------------------------------------------------------------------------
(* Properties (C39) *)

TypeOK ==
    /\ running \in {0, 1} /\ armed \in {0, 1} /\ inflight \in Nat /\ wall \in Nat /\ mono \in Nat
    /\ (armed = 1 => running = 1)

Rescheduled == Len(sched') = Len(sched) + 1 /\ starts' = starts     \* _schedule_next after a run

(* each scheduled run time is later than the previously scheduled one *)
Increasing == [][Rescheduled => next' > next]_vars
(* ... lies on the grid start + k*period *)
OnGrid == running = 1 => \E k \in 1..(MaxWall + 2 * cfg.p + 2) : next = origin + k * cfg.p
OnGridMod == running = 1 => (next - origin) % cfg.p = 0 /\ next > origin
(* ... is not before the current time *)
NotPast == [][Len(sched') = Len(sched) + 1 => next' > wall']_vars
(* ... and, while the clock has not gone backwards, at most one period after the current time:
   missed periods are skipped, not bunched *)
AtMostOnePeriod == [][(Rescheduled /\ next <= wall') => next' <= wall' + cfg.p]_vars
(* clock behind the deadline: exactly one period on *)
BackwardsOnePeriod == [][(Rescheduled /\ next > wall') => next' = next + cfg.p]_vars

(* a callback is never started while the previous invocation is still running *)
NoOverlap == inflight <= 1
NoStartWhileRunning == [][calls' > calls => inflight = 0]_vars
(* stop prevents further runs *)
NoRunAfterStop == [][calls' > calls => running = 1]_vars
StoppedMeansDisarmed == running = 0 => armed = 0
(* while running and idle, the next run is always scheduled *)
NeverStalls == (running = 1 /\ inflight = 0) => armed = 1
(* the pending timeout fires exactly when the loop's clock has advanced by the remaining wall delay *)
NotEarlyMono == armed = 1 => md > mono

StateBound == wall <= MaxWall /\ mono <= MaxMono
View == <<cfg, wall, mono, running, armed, md, next, origin, inflight>>
=============================================================================
