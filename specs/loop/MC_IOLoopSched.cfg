SPECIFICATION Spec
CONSTANTS
  NTop = 2
  KindsCb = {"noop", "raise", "failfut", "addcb", "addto", "rm", "resolve"}
  KindsTo = {"noop", "addto", "rm"}
  KindsFut = {"noop"}
  Delays = {0, 1}
  ChildDelays = {0, 1}
  Forms = {"x"}
  CbForms = {"x"}
  Offs = {0}
  MaxAdvance = 2
  MaxNow = 2
  MaxIter = 3
  MaxLat = 3
CONSTRAINT StateBound
VIEW View
INVARIANT TypeOK
INVARIANT RunsOnce
INVARIANT CallbackFifo
INVARIANT CallbackNoOvertake
INVARIANT NextIteration
INVARIANT LaterIteration
INVARIANT TimerLaterIteration
INVARIANT NotEarly
INVARIANT DeadlineOrder
INVARIANT RemovedNeverRan
INVARIANT ErrorsLogged
INVARIANT FutureErrors
PROPERTY DueTimersRun
PROPERTY ReadyRuns
PROPERTY RemovedSticky
PROPERTY LogGrows
PROPERTY FutureErrorLater
CHECK_DEADLOCK FALSE
