SPECIFICATION Spec
CONSTANTS
  NTop = 3
  KindsCb = {"noop", "retval", "raise", "cancel", "failfut", "failcoro", "addcb", "addfut", "addto", "rm", "resolve"}
  KindsTo = {"noop", "raise", "failfut", "addcb", "addto", "rm", "resolve"}
  KindsFut = {"noop", "raise", "addcb"}
  Delays = {0, 1, 2}
  ChildDelays = {0, 1}
  Forms = {"x"}
  CbForms = {"x"}
  Offs = {0}
  MaxAdvance = 2
  MaxNow = 3
  MaxIter = 4
  MaxLat = 3
CONSTRAINT StateBound
VIEW View
INVARIANT TypeOK
INVARIANT RunsOnce
INVARIANT CallbackFifo
INVARIANT CallbackNoOvertake
INVARIANT NextIteration
INVARIANT LaterIteration
INVARIANT TimerLaterIteration
INVARIANT NotEarly
INVARIANT DeadlineOrder
INVARIANT RemovedNeverRan
INVARIANT ErrorsLogged
INVARIANT FutureErrors
PROPERTY DueTimersRun
PROPERTY ReadyRuns
PROPERTY RemovedSticky
PROPERTY LogGrows
PROPERTY FutureErrorLater
CHECK_DEADLOCK FALSE
