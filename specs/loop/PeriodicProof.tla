---------------------------- MODULE PeriodicProof ----------------------------
(***************************************************************************)
(* TLAPS proofs of the integer arithmetic facts behind property C39:       *)
(* PeriodicCallback._update_next, as modelled by UpdateNext in             *)
(* Periodic.tla, for ALL integers (TLC checks them for small ones).        *)
(* Rational periods / clock readings reduce to integers by a common        *)
(* denominator.  Grid membership is stated with an explicit multiplier.    *)
(***************************************************************************)
EXTENDS Integers

UpdateNext(nx, w, p) ==
    IF nx <= w THEN nx + (((w - nx) \div p) + 1) * p
               ELSE nx + p

(* floor division: the quotient q of a by p > 0 satisfies q*p <= a < (q+1)*p *)
LEMMA DivFloor ==
    ASSUME NEW a \in Int, NEW p \in Int, p > 0
    PROVE  /\ (a \div p) \in Int
           /\ (a \div p) * p <= a
           /\ a < ((a \div p) + 1) * p
  OBVIOUS

THEOREM Increasing ==
    ASSUME NEW nx \in Int, NEW w \in Int, NEW p \in Int, p > 0
    PROVE  UpdateNext(nx, w, p) > nx
<1>1. CASE nx <= w
  <2> DEFINE q == (w - nx) \div p
  <2>1. q \in Int /\ q * p <= w - nx /\ w - nx < (q + 1) * p
    <3>1. w - nx \in Int
      OBVIOUS
    <3> HIDE DEF q
    <3>2. ((w - nx) \div p) \in Int /\ ((w - nx) \div p) * p <= w - nx /\ w - nx < (((w - nx) \div p) + 1) * p
      BY <3>1, DivFloor
    <3> QED BY <3>2 DEF q
  <2>2. (q + 1) * p > 0
    BY <2>1, <1>1
  <2>3. UpdateNext(nx, w, p) = nx + (q + 1) * p
    BY <1>1 DEF UpdateNext
  <2> QED BY <2>2, <2>3, <2>1
<1>2. CASE ~(nx <= w)
  BY <1>2 DEF UpdateNext
<1> QED BY <1>1, <1>2

THEOREM NotPast ==
    ASSUME NEW nx \in Int, NEW w \in Int, NEW p \in Int, p > 0
    PROVE  UpdateNext(nx, w, p) > w
<1>1. CASE nx <= w
  <2> DEFINE q == (w - nx) \div p
  <2>1. q \in Int /\ q * p <= w - nx /\ w - nx < (q + 1) * p
    <3>1. w - nx \in Int
      OBVIOUS
    <3> HIDE DEF q
    <3>2. ((w - nx) \div p) \in Int /\ ((w - nx) \div p) * p <= w - nx /\ w - nx < (((w - nx) \div p) + 1) * p
      BY <3>1, DivFloor
    <3> QED BY <3>2 DEF q
  <2>3. UpdateNext(nx, w, p) = nx + (q + 1) * p
    BY <1>1 DEF UpdateNext
  <2> QED BY <2>3, <2>1
<1>2. CASE ~(nx <= w)
  BY <1>2 DEF UpdateNext
<1> QED BY <1>1, <1>2

THEOREM AtMostOnePeriod ==
    ASSUME NEW nx \in Int, NEW w \in Int, NEW p \in Int, p > 0, nx <= w
    PROVE  UpdateNext(nx, w, p) <= w + p
<1> DEFINE q == (w - nx) \div p
<1>1. q \in Int /\ q * p <= w - nx /\ w - nx < (q + 1) * p
  <2>1. w - nx \in Int
    OBVIOUS
  <2> HIDE DEF q
  <2>2. ((w - nx) \div p) \in Int /\ ((w - nx) \div p) * p <= w - nx /\ w - nx < (((w - nx) \div p) + 1) * p
    BY <2>1, DivFloor
  <2> QED BY <2>2 DEF q
<1>2. UpdateNext(nx, w, p) = nx + (q + 1) * p
  BY DEF UpdateNext
<1>3. (q + 1) * p = q * p + p
  BY <1>1
<1> QED BY <1>1, <1>2, <1>3

THEOREM OnGrid ==
    ASSUME NEW nx \in Int, NEW w \in Int, NEW p \in Int, p > 0,
           NEW s \in Int, NEW k \in Int, nx = s + k * p
    PROVE  \E m \in Int : UpdateNext(nx, w, p) = s + m * p /\ m > k
<1>1. CASE nx <= w
  <2> DEFINE q == (w - nx) \div p
  <2>1. q \in Int /\ q * p <= w - nx /\ w - nx < (q + 1) * p
    <3>1. w - nx \in Int
      OBVIOUS
    <3> HIDE DEF q
    <3>2. ((w - nx) \div p) \in Int /\ ((w - nx) \div p) * p <= w - nx /\ w - nx < (((w - nx) \div p) + 1) * p
      BY <3>1, DivFloor
    <3> QED BY <3>2 DEF q
  <2>2. UpdateNext(nx, w, p) = nx + (q + 1) * p
    BY <1>1 DEF UpdateNext
  <2>3. q >= 0
    BY <2>1, <1>1
  <2>4. s + k * p + (q + 1) * p = s + (k + q + 1) * p
    BY <2>1
  <2>5. k + q + 1 \in Int /\ k + q + 1 > k
    BY <2>1, <2>3
  <2> QED BY <2>2, <2>4, <2>5
<1>2. CASE ~(nx <= w)
  <2>1. UpdateNext(nx, w, p) = nx + p
    BY <1>2 DEF UpdateNext
  <2>2. s + k * p + p = s + (k + 1) * p
    OBVIOUS
  <2>3. k + 1 \in Int /\ k + 1 > k
    OBVIOUS
  <2> QED BY <2>1, <2>2, <2>3
<1> QED BY <1>1, <1>2

(* the clock-behind branch advances by exactly one period *)
THEOREM BackwardsOnePeriod ==
    ASSUME NEW nx \in Int, NEW w \in Int, NEW p \in Int, p > 0, nx > w
    PROVE  UpdateNext(nx, w, p) = nx + p
  BY DEF UpdateNext
=============================================================================
