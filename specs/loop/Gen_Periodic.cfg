SPECIFICATION GenSpec
CONSTANTS
  Periods = {2, 3}
  Kinds = {"sync", "coro"}
  Ticks = {41, 52, 31, 11, 101}
  Back = 3
  MaxWall = 40
  MaxMono = 40
  IdleStop = 0
  Restart = 0
  L = 5
CONSTRAINT GenBound
CHECK_DEADLOCK FALSE
