SPECIFICATION Spec
CONSTANTS
  Kinds = {"none", "raise", "value", "coro", "cororaise", "gencoro", "future", "swallow", "stop"}
  SecondKinds = {"none", "raise", "value", "coro", "cororaise", "gencoro", "future", "swallow", "stop"}
  Durations = {0, 1, 2, 3}
  Timeouts = {0, 1, 2, 999}
  MaxCalls = 3
VIEW View
INVARIANT TimeoutJustified
INVARIANT OwnOutcome
INVARIANT CutShort
INVARIANT CancelObserved
INVARIANT NeverLate
PROPERTY ClockAdds
CHECK_DEADLOCK FALSE
