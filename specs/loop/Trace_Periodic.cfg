SPECIFICATION TraceSpec
CONSTANTS
  Periods = {1}
  Kinds = {"sync"}
  Ticks = {0}
  Back = 1000
  MaxWall = 100000000
  MaxMono = 100000000
  IdleStop = 1
  Restart = 0
CONSTRAINT Report
INVARIANT TypeOK
INVARIANT OnGridMod
INVARIANT NoOverlap
INVARIANT StoppedMeansDisarmed
INVARIANT NeverStalls
INVARIANT NotEarlyMono
PROPERTY Increasing
PROPERTY NotPast
PROPERTY AtMostOnePeriod
PROPERTY BackwardsOnePeriod
PROPERTY NoStartWhileRunning
PROPERTY NoRunAfterStop
CHECK_DEADLOCK FALSE
