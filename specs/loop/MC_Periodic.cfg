SPECIFICATION Spec
CONSTANTS
  Periods = {1, 2, 3, 5}
  Kinds = {"sync", "coro"}
  Ticks = {1, 2, 10, 11, 21, 22, 30, 31, 32, 41, 42, 51, 52, 62, 71, 82}
  Back = 3
  MaxWall = 11
  MaxMono = 6
  IdleStop = 1
  Restart = 0
CONSTRAINT StateBound
VIEW View
INVARIANT TypeOK
INVARIANT OnGrid
INVARIANT OnGridMod
INVARIANT NoOverlap
INVARIANT StoppedMeansDisarmed
INVARIANT NeverStalls
INVARIANT NotEarlyMono
PROPERTY Increasing
PROPERTY NotPast
PROPERTY AtMostOnePeriod
PROPERTY BackwardsOnePeriod
PROPERTY NoStartWhileRunning
PROPERTY NoRunAfterStop
CHECK_DEADLOCK FALSE
