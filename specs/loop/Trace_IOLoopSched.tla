---------------------------- MODULE Trace_IOLoopSched ----------------------------
(* Validates runs recorded from a real IOLoop (random programs, longer and with more items than
   the enumerated ones) against IOLoopSched.tla.  Every event must be explained by the action of
   the same name with the logged arguments, and the projection after the action must equal the
   logged observation; Iterate's open choices (equal-deadline order, when a returned future's
   exception is logged) are resolved by that equation.  All invariants are evaluated at every step. *)
EXTENDS IOLoopSched, Json, IOUtils, TLCExt
Traces == ndJsonDeserialize(IOEnv.TRACE_FILE)
Verbose == IOEnv.TRACE_VERBOSE = "1"
VARIABLES tid, l
Ev == Traces[tid].ev
TraceInit ==
    /\ tid \in 1..Len(Traces)
    /\ l = 1
    /\ InitWith([off |-> Traces[tid].cfg.off])
IsEvent(a) == l <= Len(Ev) /\ Ev[l].a = a /\ l' = l + 1 /\ UNCHANGED tid
ObsOf(o) == [ran |-> o.ran, errs |-> o.errs, ferrs |-> {o.ferrs[p] : p \in 1..Len(o.ferrs)}]
Bind == /\ DOMAIN Ev[l].obs = {"ran", "errs", "ferrs"}
        /\ Proj' = ObsOf(Ev[l].obs)
A == Ev[l].args
TrAddCallback == IsEvent("add_callback") /\ AddCallback(A[1], A[2], A[3]) /\ Bind
TrAddTimeout  == IsEvent("add_timeout") /\ AddTimeout(A[1], A[2], A[3], A[4]) /\ Bind
TrAddFuture   == IsEvent("add_future") /\ AddFuture(A[1], A[2], A[3]) /\ Bind
TrResolve     == IsEvent("resolve") /\ Resolve(A[1]) /\ Bind
TrRemove      == IsEvent("remove") /\ RemoveTimeout(A[1]) /\ Bind
TrAdvance     == IsEvent("advance") /\ Advance(A[1]) /\ Bind
TrIterate     == IsEvent("iterate") /\ Iterate /\ Bind
TraceNext == TrAddCallback \/ TrAddTimeout \/ TrAddFuture \/ TrResolve \/ TrRemove \/ TrAdvance \/ TrIterate
TraceSpec == TraceInit /\ [][TraceNext]_<<vars, step, tid, l>>
Report == IF Verbose THEN PrintT(<<"AT", Traces[tid].id, l>>)
          ELSE (l = Len(Ev) + 1 => PrintT(<<"ACCEPT", Traces[tid].id>>))
=============================================================================
