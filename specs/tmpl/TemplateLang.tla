---------------------------- MODULE TemplateLang ----------------------------
(***************************************************************************)
(* Reference definition of Tornado's template language (properties C19,    *)
(* C20), in three layers:                                                  *)
(*                                                                         *)
(*   Lex        character-level scanner: text / {{ }} / {% %} / {# #},     *)
(*              innermost pair of a brace run, {{! {%! {#! escapes,        *)
(*              unterminated tags;                                         *)
(*   Parse      (WellFormed) stack machine over the tokens: block nesting, *)
(*              which intermediate block attaches to which parent,         *)
(*              break/continue only inside a loop and not across apply,    *)
(*              empty tags, unknown operators, missing / extra end; yields *)
(*              the tree or the set of acceptable error lines;             *)
(*   Eval       denotational output over a fixed expression pool, with     *)
(*              per-text-node whitespace filtering, per-file autoescape    *)
(*              and a loader (extends / block / include).                  *)
(*                                                                         *)
(* Text is a sequence of code points, output a sequence of bytes (UTF-8).  *)
(* Result kinds: "ok" (bytes), "parse" (acceptable (file, line) pairs),    *)
(* "exc" (class of the exception generate() raises), "unspec" (the         *)
(* template is outside what this definition gives a meaning to: arbitrary  *)
(* Python, invalid Python, disputed corners - never compared).             *)
(***************************************************************************)
EXTENDS Integers, Sequences, FiniteSets, TLC, SequencesExt, TmplTokens

CONSTANTS Fams,        \* names of the template families explored (see Family below)
          Grow,        \* token bound of a family = its max + Grow - 1  (MC quick 0, Gen quick / MC thorough 1, Gen thorough 2)
          SLen,        \* values of the pool string s in the "values" families: every string over SAlpha up to this length
          Fuel         \* iteration bound for while loops (more = unspecified "diverge")

LBc == 123  RBc == 125  PCc == 37  HASHc == 35  BANGc == 33  SPc == 32  LFc == 10
Unbound == 0 - 1

MinS(S) == CHOOSE m \in S : \A o \in S : m <= o
MaxS(S) == CHOOSE m \in S : \A o \in S : m >= o

IsWsSimple(c) == c \in {9, 10, 32}
IsWsOther(c) == \/ c \in {11, 12, 13, 28, 29, 30, 31, 133, 160, 5760, 8232, 8233, 8239, 8287, 12288}
                \/ (c >= 8192 /\ c <= 8202)
IsWs(c) == IsWsSimple(c) \/ IsWsOther(c)

StripBy(s, Drop(_)) == LET a == SelectInSeq(s, LAMBDA c : ~Drop(c))
                           b == SelectLastInSeq(s, LAMBDA c : ~Drop(c))
                       IN IF a = 0 THEN <<>> ELSE SubSeq(s, a, b)
Strip(s) == StripBy(s, IsWs)
StripQ(s) == StripBy(StripBy(s, LAMBDA c : c = 34), LAMBDA c : c = 39)

FirstSp(s) == SelectInSeq(s, LAMBDA c : c = SPc)
OpOf(c) == IF FirstSp(c) = 0 THEN c ELSE SubSeq(c, 1, FirstSp(c) - 1)
SfxOf(c) == IF FirstSp(c) = 0 THEN <<>> ELSE Strip(SubSeq(c, FirstSp(c) + 1, Len(c)))

NameOf(tab, c) == IF \E n \in DOMAIN tab : tab[n] = c THEN CHOOSE n \in DOMAIN tab : tab[n] = c ELSE "?"
ArgOf(sfx) == IF sfx = <<>> THEN "" ELSE NameOf(Pool, sfx)

ValExprs == {"s", "b", "n", "o", "t", "f", "x", "y", "k", "boom", "esc_s", "kLT2", "kEQ1", "xEQ1"}
LoopHdrs == {"x_in_r", "y_in_r", "x_in_e"}
SetStmts == {"kSET0", "kINC"}
ApplyFns == {"wrap", "xhtml_escape", "escape"}
ExcArgs  == {"", "ZeroDivisionError", "NameError"}
EscFns   == {"xhtml_escape", "escape"}
WsModes  == {"all", "single", "oneline"}
Vars     == {"x", "y", "k"}

-----------------------------------------------------------------------------
(* Layer 1: Lex *)

Closer(mode) == CASE mode = "expr" -> RBc [] mode = "block" -> PCc [] OTHER -> HASHc

LexStep(T, a, i) ==
    LET n == Len(T)
        c == T[i]
        ln == IF c = LFc THEN a.line + 1 ELSE a.line
    IN
    IF a.skip > 0 THEN [a EXCEPT !.skip = @ - 1, !.line = ln]
    ELSE IF a.mode = "text" THEN
        IF /\ c = LBc /\ i < n /\ T[i + 1] \in {LBc, PCc, HASHc}
           /\ ~(i + 2 <= n /\ T[i + 1] = LBc /\ T[i + 2] = LBc)
        THEN LET flushed == IF a.buf = <<>> THEN a.tks
                            ELSE Append(a.tks, [k |-> "text", s |-> a.buf, line |-> a.line, eline |-> a.line])
             IN IF i + 2 <= n /\ T[i + 2] = BANGc
                THEN [a EXCEPT !.tks = Append(flushed, [k |-> "text", s |-> <<LBc, T[i + 1]>>,
                                                         line |-> a.line, eline |-> a.line]),
                               !.buf = <<>>, !.skip = 2]
                ELSE [a EXCEPT !.tks = flushed, !.buf = <<>>, !.skip = 1, !.start = a.line,
                               !.mode = (CASE T[i + 1] = LBc -> "expr" [] T[i + 1] = PCc -> "block" [] OTHER -> "cmt")]
        ELSE [a EXCEPT !.buf = Append(@, c), !.line = ln]
    ELSE
        IF c = Closer(a.mode) /\ i < n /\ T[i + 1] = RBc
        THEN [a EXCEPT !.tks = (IF a.mode = "cmt" THEN a.tks
                                 ELSE Append(a.tks, [k |-> a.mode, s |-> Strip(a.buf), line |-> a.start, eline |-> a.line])),
                       !.buf = <<>>, !.skip = 1, !.mode = "text"]
        ELSE [a EXCEPT !.buf = Append(@, c), !.line = ln]

(* Lex(T) = [tks, nlines]; an unterminated tag becomes a final "lexerr" token at the line the tag starts *)
Lex(T) ==
    LET a0 == [mode |-> "text", buf |-> <<>>, tks |-> <<>>, line |-> 1, start |-> 1, skip |-> 0]
        a == FoldLeftDomain(LAMBDA acc, i : LexStep(T, acc, i), a0, T)
        toks_ == IF a.mode # "text"
                  THEN Append(a.tks, [k |-> "lexerr", s |-> <<>>, line |-> a.start, eline |-> a.start])
                ELSE IF a.buf # <<>>
                  THEN Append(a.tks, [k |-> "text", s |-> a.buf, line |-> a.line, eline |-> a.line])
                ELSE a.tks
    IN [tks |-> toks_, nlines |-> a.line]

-----------------------------------------------------------------------------
(* Layer 2: Parse / WellFormed *)

(* DictLoader path resolution: a file reference is resolved relative to the directory of the file the tag is
   written in (posixpath.normpath(join(dirname(parent), name))); paths are sequences of components *)
SplitSlash(s) == LET r == FoldLeft(LAMBDA a, c : IF c = 47 THEN [done |-> Append(a.done, a.cur), cur |-> <<>>]
                                                  ELSE [a EXCEPT !.cur = Append(@, c)],
                                   [done |-> <<>>, cur |-> <<>>], s)
                 IN Append(r.done, r.cur)
NormPath(comps) == FoldLeft(LAMBDA a, c : IF c = <<>> \/ c = <<46>> THEN a
                                          ELSE IF c = <<46, 46>> /\ a # <<>> /\ a[Len(a)] # <<46, 46>> THEN SubSeq(a, 1, Len(a) - 1)
                                          ELSE Append(a, c),
                            <<>>, comps)
ResolveRef(dir, paths, ref) ==
    IF ref # <<>> /\ ref[1] = 47 THEN "?"
    ELSE LET tgt == NormPath(dir \o SplitSlash(ref)) IN
         IF \E f \in DOMAIN paths : paths[f] = tgt THEN CHOOSE f \in DOMAIN paths : paths[f] = tgt ELSE "?"
FlatPaths == [main |-> <<Pool.main>>, base |-> <<Pool.base>>, inc |-> <<Pool.inc>>]

Allowed(o) == CASE o = "else" -> {"if", "for", "while", "try"}
                [] o = "elif" -> {"if"}
                [] OTHER -> {"try"}

Pends(st) == {st[i].pend : i \in 1..Len(st)} \ {0}
Err(p, lines) == [p EXCEPT !.err = lines \cup Pends(p.st)]
MarkUn(p, cond, why) == IF cond /\ p.un = "" THEN [p EXCEPT !.un = why] ELSE p
Top(p) == p.st[Len(p.st)]
AddNode(p, node) == [p EXCEPT !.st[Len(p.st)].cur = Append(@, node)]

(* is the sequence of parts of a closed block valid Python?  (otherwise: unspecified) *)
PartsOK(parts) ==
    LET op == parts[1].op
        n == Len(parts)
        ops == [i \in 1..(n - 1) |-> parts[i + 1].op]
        HeadOK(pt) == CASE pt.op \in {"if", "elif", "while"} -> pt.arg \in ValExprs
                        [] pt.op = "for" -> pt.arg \in LoopHdrs
                        [] pt.op \in {"try", "else", "finally"} -> pt.arg = ""
                        [] pt.op = "except" -> pt.arg \in ExcArgs
                        [] OTHER -> TRUE
        nE == Cardinality({i \in 1..(n - 1) : \A j \in 1..i : ops[j] = "except"})
        rest == SubSeq(ops, nE + 1, n - 1)
    IN /\ \A i \in 1..n : HeadOK(parts[i])
       /\ CASE op = "if" -> \A i \in 1..(n - 1) : ops[i] = "elif" \/ (ops[i] = "else" /\ i = n - 1)
            [] op \in {"for", "while"} -> n = 1 \/ (n = 2 /\ ops[1] = "else")
            [] op = "try" -> /\ IF nE = 0 THEN rest = <<"finally">>
                                ELSE rest \in {<<>>, <<"else">>, <<"finally">>, <<"else", "finally">>}
                             /\ \A i \in 1..nE : parts[i + 1].arg = "" => i = nE
            [] OTHER -> TRUE

ParseBlockTok(p, tk) ==
    LET span == tk.line..tk.eline
        o == NameOf(Kw, OpOf(tk.s))
        sfx == SfxOf(tk.s)
        arg == ArgOf(sfx)
        top == Top(p)
        depth == Len(p.st)
    IN
    IF tk.s = <<>> THEN Err(p, span)
    ELSE IF o \in {"else", "elif", "except", "finally"} THEN
        IF depth = 1 \/ top.op \notin Allowed(o) THEN Err(p, span)
        ELSE [p EXCEPT !.st[depth] = [top EXCEPT !.parts = Append(@, [op |-> top.hop, arg |-> top.harg, body |-> top.cur]),
                                                 !.hop = o, !.harg = arg, !.cur = <<>>]]
    ELSE IF o = "end" THEN
        IF depth = 1 THEN Err(p, span)
        ELSE IF top.pend # 0 THEN Err(p, {})
        ELSE LET parts == Append(top.parts, [op |-> top.hop, arg |-> top.harg, body |-> top.cur])
                 node == IF top.op \in {"apply", "block"}
                           THEN [k |-> top.op, arg |-> top.arg, name |-> top.sfx, body |-> top.cur]
                           ELSE [k |-> "ctl", op |-> top.op, parts |-> parts]
                 q == [p EXCEPT !.st = SubSeq(p.st, 1, depth - 1)]
                 bad == \/ ~PartsOK(parts)
                        \/ (top.op = "apply" /\ top.arg \notin ApplyFns)
             IN AddNode(MarkUn(q, bad, "python"), node)
    ELSE IF o = "comment" THEN p
    ELSE IF o \in {"extends", "include"} THEN
        IF StripQ(sfx) = <<>> THEN Err(p, span)
        ELSE IF o = "extends" /\ depth > 1 THEN AddNode(MarkUn(p, TRUE, "nested-extends"), [k |-> "py"])
        ELSE AddNode(p, [k |-> o, file |-> ResolveRef(p.dir, p.paths, StripQ(sfx))])
    ELSE IF o = "set" THEN
        IF sfx = <<>> THEN Err(p, span)
        ELSE AddNode(MarkUn(p, arg \notin SetStmts, "python"), [k |-> "set", e |-> arg])
    ELSE IF o \in {"import", "from"} THEN
        IF sfx = <<>> THEN Err(p, span) ELSE AddNode(MarkUn(p, TRUE, "python"), [k |-> "py"])
    ELSE IF o = "module" THEN AddNode(MarkUn(p, TRUE, "python"), [k |-> "py"])
    ELSE IF o = "autoescape" THEN
        IF sfx = <<>> THEN Err(p, span)         \* a directive without its argument is not well-formed
        ELSE LET q == MarkUn(p, arg \notin EscFns \cup {"None"}, "python")
                 v == IF arg \in EscFns THEN "esc" ELSE arg
             IN [q EXCEPT !.ae = IF p.ae \in {"unset", v} THEN v ELSE "conflict"]
    ELSE IF o = "whitespace" THEN
        IF arg \in WsModes THEN [p EXCEPT !.ws = arg] ELSE Err(p, span)
    ELSE IF o = "raw" THEN
        AddNode(MarkUn(p, arg \notin ValExprs, "python"), [k |-> "expr", e |-> arg, raw |-> TRUE])
    ELSE IF o \in {"apply", "block", "try", "if", "for", "while"} THEN
        [p EXCEPT !.st = Append(@, [op |-> o, arg |-> arg, sfx |-> sfx, line |-> tk.line, parts |-> <<>>,
                                    hop |-> o, harg |-> arg, cur |-> <<>>,
                                    loop |-> (CASE o \in {"for", "while"} -> TRUE [] o = "apply" -> FALSE [] OTHER -> top.loop),
                                    pend |-> IF o \in {"apply", "block"} /\ sfx = <<>> THEN tk.line ELSE 0])]
    ELSE IF o \in {"break", "continue"} THEN
        IF ~top.loop THEN Err(p, span)
        ELSE LET vis == {i \in 1..depth : /\ p.st[i].op \in {"for", "while"}
                                          /\ \A j \in (i + 1)..depth : p.st[j].op # "apply"}
                 good == {i \in vis : p.st[i].parts = <<>>}      \* loops whose body (not else part) we are in
                 (* invalid Python: no binding loop *)
                 bad == sfx # <<>> \/ good = {}
                 (* the binding loop lies outside a named block: well-defined as long as the block is generated in
                    place; Run leaves it open only when inheritance may place the block body elsewhere *)
                 crossing == good # {} /\ \E j \in (MaxS(good) + 1)..depth : p.st[j].op = "block"
                 q == IF crossing THEN [p EXCEPT !.xb = TRUE] ELSE p
             IN AddNode(MarkUn(q, bad, "python"), [k |-> "brk", op |-> o])
    ELSE Err(p, span)

ParseTok(p, tk) ==
    IF p.err # {} THEN p
    ELSE IF tk.k = "lexerr" THEN [Err(p, {tk.line}) EXCEPT !.soft = TRUE]
    ELSE IF tk.k = "text" THEN AddNode(p, [k |-> "text", s |-> tk.s, ws |-> p.ws])
    ELSE IF tk.k = "expr" THEN
        IF tk.s = <<>> THEN Err(p, tk.line..tk.eline)
        ELSE LET e == NameOf(Pool, tk.s) IN
             AddNode(MarkUn(p, e \notin ValExprs, "python"), [k |-> "expr", e |-> e, raw |-> FALSE])
    ELSE ParseBlockTok(p, tk)

RootFrame == [op |-> "root", arg |-> "", sfx |-> <<>>, line |-> 0, parts |-> <<>>, hop |-> "root", harg |-> "",
              cur |-> <<>>, loop |-> FALSE, pend |-> 0]

(* Parse(T, ws) = [ok, lines (acceptable ParseError lines), body, un, ae, soft, xb]
   xb: some break / continue binds to a loop outside the named block it is written in
   soft: the error is raised at the end of the text (unterminated tag, missing end) - more text could repair it *)
ParseAt(T, ws, dir, paths) ==
    LET lx == Lex(T)
        p0 == [dir |-> dir, paths |-> paths, st |-> <<RootFrame>>, err |-> {}, un |-> "", ws |-> ws, ae |-> "unset", soft |-> FALSE, xb |-> FALSE]
        p1 == FoldLeft(ParseTok, p0, lx.tks)
        p == IF p1.err = {} /\ Len(p1.st) > 1 THEN [Err(p1, p1.st[2].line..lx.nlines) EXCEPT !.soft = TRUE] ELSE p1
    IN [ok |-> p.err = {}, lines |-> p.err, body |-> p.st[1].cur, un |-> p.un, ae |-> p.ae, soft |-> p.soft, xb |-> p.xb]

Parse(T, ws) == ParseAt(T, ws, <<>>, FlatPaths)

-----------------------------------------------------------------------------
(* Layer 3: Eval *)

EscapeCh(c) == CASE c = 38 -> <<38, 97, 109, 112, 59>>              \* &amp;
                 [] c = 60 -> <<38, 108, 116, 59>>                  \* &lt;
                 [] c = 62 -> <<38, 103, 116, 59>>                  \* &gt;
                 [] c = 34 -> <<38, 113, 117, 111, 116, 59>>        \* &quot;
                 [] c = 39 -> <<38, 35, 120, 50, 55, 59>>           \* &#x27;
                 [] OTHER -> <<c>>
Escape(s) == FoldLeft(LAMBDA a, c : a \o EscapeCh(c), <<>>, s)

Utf8Ch(c) == IF c < 128 THEN <<c>>
             ELSE IF c < 2048 THEN <<192 + (c \div 64), 128 + (c % 64)>>
             ELSE IF c < 65536 THEN <<224 + (c \div 4096), 128 + ((c \div 64) % 64), 128 + (c % 64)>>
             ELSE <<240 + (c \div 262144), 128 + ((c \div 4096) % 64), 128 + ((c \div 64) % 64), 128 + (c % 64)>>
Utf8(s) == FoldLeft(LAMBDA a, c : a \o Utf8Ch(c), <<>>, s)

Digits(i) == IF i < 10 THEN <<48 + i>> ELSE <<48 + (i \div 10), 48 + (i % 10)>>

(* whitespace filtering of one text node; [ok, s] - not ok: characters / patterns whose treatment is left open *)
HasPre(s) == \E i \in 1..(Len(s) - 4) : SubSeq(s, i, i + 4) = <<60, 112, 114, 101, 62>>
FilterWs(mode, s) ==
    LET Emit(a) == IF ~a.run THEN a.out ELSE Append(a.out, IF mode = "single" /\ a.nl THEN LFc ELSE SPc)
        r == FoldLeft(LAMBDA a, c : IF IsWsSimple(c) THEN [a EXCEPT !.run = TRUE, !.nl = @ \/ c = LFc]
                                    ELSE [out |-> Append(Emit(a), c), run |-> FALSE, nl |-> FALSE],
                      [out |-> <<>>, run |-> FALSE, nl |-> FALSE], s)
    IN IF mode = "all" THEN [ok |-> TRUE, s |-> s]
       ELSE IF HasPre(s) \/ \E i \in 1..Len(s) : IsWsOther(s[i]) THEN [ok |-> FALSE, s |-> s]
       ELSE [ok |-> TRUE, s |-> Emit(r)]

ValStr(ty, s) == [ok |-> TRUE, ty |-> ty, s |-> s, i |-> 0]
ValInt(i) == [ok |-> TRUE, ty |-> "int", s |-> <<>>, i |-> i]
ValBool(b) == [ok |-> TRUE, ty |-> "bool", s |-> <<>>, i |-> IF b THEN 1 ELSE 0]
Raise(c) == [ok |-> FALSE, ty |-> c, s |-> <<>>, i |-> 0]
VarV(env, v) == IF env[v] = Unbound THEN Raise("NameError") ELSE ValInt(env[v])
CmpV(env, v, Test(_)) == IF env[v] = Unbound THEN Raise("NameError") ELSE ValBool(Test(env[v]))

ExprV(c, e, env) ==
    CASE e = "s" -> ValStr("str", c.sval)
      [] e = "b" -> ValStr("bytes", c.bval)
      [] e = "o" -> ValStr("obj", c.oval)
      [] e = "n" -> ValInt(7)
      [] e = "t" -> ValBool(TRUE)
      [] e = "f" -> ValBool(FALSE)
      [] e \in Vars -> VarV(env, e)
      [] e = "boom" -> Raise("ZeroDivisionError")
      [] e = "esc_s" -> ValStr("str", Escape(c.sval))
      [] e = "kLT2" -> CmpV(env, "k", LAMBDA v : v < 2)
      [] e = "kEQ1" -> CmpV(env, "k", LAMBDA v : v = 1)
      [] e = "xEQ1" -> CmpV(env, "x", LAMBDA v : v = 1)

TextOf(v) == CASE v.ty \in {"str", "bytes", "obj"} -> v.s
               [] v.ty = "int" -> Digits(v.i)
               [] OTHER -> IF v.i = 1 THEN <<84, 114, 117, 101>> ELSE <<70, 97, 108, 115, 101>>
Truthy(v) == CASE v.ty \in {"str", "bytes"} -> v.s # <<>>
               [] v.ty = "obj" -> TRUE
               [] OTHER -> v.i # 0

(* context C = [P (parse result per file), B (block entries, later wins), cfg, file, depth] *)
FileAE(C, f) == IF C.P[f].ae = "unset" THEN (IF C.cfg.ae = "None" THEN "None" ELSE "esc") ELSE C.P[f].ae
BlockOf(C, name) == LET idx == {i \in 1..Len(C.B) : C.B[i].name = name} IN C.B[MaxS(idx)]

Emit(st, seg) == [st EXCEPT !.out = Append(@, seg)]
Throw(st, cls) == [st EXCEPT !.sig = "exc", !.exc = cls]
Unspec(st, why) == [st EXCEPT !.sig = "unspec", !.why = why]

RECURSIVE Asg(_, _, _)
Asg(C, nodes, d) ==
    UNION {LET n == nodes[i] IN
           CASE n.k = "set" -> {"k"}
             [] n.k = "ctl" -> (IF n.op = "for" THEN {IF n.parts[1].arg = "y_in_r" THEN "y" ELSE "x"} ELSE {})
                               \cup UNION {Asg(C, n.parts[j].body, d) : j \in 1..Len(n.parts)}
             [] n.k = "block" -> IF d > 6 THEN {} ELSE Asg(C, BlockOf(C, n.name).body, d + 1)
             [] n.k = "include" -> IF d > 6 \/ n.file \notin DOMAIN C.P THEN {} ELSE Asg(C, C.P[n.file].body, d + 1)
             [] OTHER -> {}
           : i \in 1..Len(nodes)}

RECURSIVE EvalSeq(_, _, _)

EvalIf(C, parts, st) ==
    LET r == FoldLeft(LAMBDA a, pt :
                 IF a.done THEN a
                 ELSE IF pt.op = "else" THEN [done |-> TRUE, st |-> EvalSeq(C, pt.body, a.st)]
                 ELSE LET v == ExprV(C.cfg, pt.arg, a.st.env) IN
                      IF ~v.ok THEN [done |-> TRUE, st |-> Throw(a.st, v.ty)]
                      ELSE IF Truthy(v) THEN [done |-> TRUE, st |-> EvalSeq(C, pt.body, a.st)]
                      ELSE a,
                 [done |-> FALSE, st |-> st], parts)
    IN r.st

LoopBody(C, body, a, st1) ==
    LET s1 == EvalSeq(C, body, st1) IN
    CASE s1.sig \in {"ok", "continue"} -> [stop |-> FALSE, norm |-> TRUE, st |-> [s1 EXCEPT !.sig = "ok"]]
      [] s1.sig = "break" -> [stop |-> TRUE, norm |-> FALSE, st |-> [s1 EXCEPT !.sig = "ok"]]
      [] OTHER -> [stop |-> TRUE, norm |-> FALSE, st |-> s1]

EvalFor(C, parts, st) ==
    LET hdr == parts[1].arg
        var == IF hdr = "y_in_r" THEN "y" ELSE "x"
        items == IF hdr = "x_in_e" THEN <<>> ELSE <<1, 2>>
        r == FoldLeft(LAMBDA a, it : IF a.stop THEN a
                                     ELSE LoopBody(C, parts[1].body, a, [a.st EXCEPT !.env[var] = it]),
                      [stop |-> FALSE, norm |-> TRUE, st |-> st], items)
    IN IF r.norm /\ Len(parts) = 2 THEN EvalSeq(C, parts[2].body, r.st) ELSE r.st

EvalWhile(C, parts, st) ==
    LET r == FoldLeft(LAMBDA a, it :
                 IF a.stop THEN a
                 ELSE LET v == ExprV(C.cfg, parts[1].arg, a.st.env) IN
                      IF ~v.ok THEN [stop |-> TRUE, norm |-> FALSE, st |-> Throw(a.st, v.ty)]
                      ELSE IF ~Truthy(v) THEN [stop |-> TRUE, norm |-> TRUE, st |-> a.st]
                      ELSE [LoopBody(C, parts[1].body, a, a.st) EXCEPT !.norm = FALSE],
                 [stop |-> FALSE, norm |-> FALSE, st |-> st], [i \in 1..(C.cfg.fuel + 1) |-> i])
    IN IF ~r.stop THEN Unspec(r.st, "diverge")
       ELSE IF r.norm /\ Len(parts) = 2 THEN EvalSeq(C, parts[2].body, r.st) ELSE r.st

Catches(arg, cls) == arg = "" \/ arg = cls

EvalTry(C, parts, st) ==
    LET n == Len(parts)
        exIdx == {i \in 2..n : parts[i].op = "except"}
        elIdx == {i \in 2..n : parts[i].op = "else"}
        fiIdx == {i \in 2..n : parts[i].op = "finally"}
        s1 == EvalSeq(C, parts[1].body, st)
        hit == {i \in exIdx : s1.sig = "exc" /\ Catches(parts[i].arg, s1.exc)}
        s2 == IF s1.sig = "exc" /\ hit # {}
                THEN EvalSeq(C, parts[MinS(hit)].body, [s1 EXCEPT !.sig = "ok", !.exc = ""])
              ELSE IF s1.sig = "ok" /\ elIdx # {}
                THEN EvalSeq(C, parts[MinS(elIdx)].body, s1)
              ELSE s1
    IN IF fiIdx = {} \/ s2.sig = "unspec" THEN s2
       ELSE LET s3 == EvalSeq(C, parts[MinS(fiIdx)].body, [s2 EXCEPT !.sig = "ok", !.exc = ""])
            IN IF s3.sig # "ok" THEN s3 ELSE [s3 EXCEPT !.sig = s2.sig, !.exc = s2.exc]

ApplyFn(fn, s) == IF fn = "wrap" THEN <<91>> \o s \o <<93>> ELSE Escape(s)
Concat(segs) == FoldLeft(LAMBDA a, g : a \o g.s, <<>>, segs)

EvalApply(C, n, st) ==
    IF Asg(C, n.body, 0) \cap {v \in Vars : st.env[v] # Unbound} # {} THEN Unspec(st, "apply-scope")
    ELSE LET s1 == EvalSeq(C, n.body, [st EXCEPT !.out = <<>>]) IN
         IF s1.sig # "ok" THEN [s1 EXCEPT !.out = st.out, !.env = st.env]
         ELSE Emit(st, [src |-> "apply", file |-> C.file, esc |-> FALSE, s |-> ApplyFn(n.arg, Concat(s1.out))])

EvalNode(C, n, st) ==
    CASE n.k = "text" ->
           LET f == FilterWs(n.ws, n.s) IN
           IF ~f.ok THEN Unspec(st, "whitespace-class")
           ELSE IF f.s = <<>> THEN st
           ELSE Emit(st, [src |-> "text", file |-> C.file, esc |-> FALSE, s |-> f.s])
      [] n.k = "expr" ->
           LET v == ExprV(C.cfg, n.e, st.env)
               esc == ~n.raw /\ FileAE(C, C.file) # "None"
           IN IF ~v.ok THEN Throw(st, v.ty)
              ELSE Emit(st, [src |-> IF n.raw THEN "raw" ELSE "expr", file |-> C.file, esc |-> esc,
                             s |-> IF esc THEN Escape(TextOf(v)) ELSE TextOf(v)])
      [] n.k = "set" ->
           IF n.e = "kSET0" THEN [st EXCEPT !.env.k = 0]
           ELSE IF st.env.k = Unbound THEN Throw(st, "NameError") ELSE [st EXCEPT !.env.k = @ + 1]
      [] n.k = "brk" -> [st EXCEPT !.sig = n.op]
      [] n.k = "ctl" ->
           (CASE n.op = "if" -> EvalIf(C, n.parts, st)
              [] n.op = "for" -> EvalFor(C, n.parts, st)
              [] n.op = "while" -> EvalWhile(C, n.parts, st)
              [] OTHER -> EvalTry(C, n.parts, st))
      [] n.k = "apply" -> EvalApply(C, n, st)
      [] n.k = "block" ->
           LET b == BlockOf(C, n.name) IN
           IF C.depth > 6 THEN Unspec(st, "cycle")
           ELSE EvalSeq([C EXCEPT !.file = b.file, !.depth = @ + 1], b.body, st)
      [] n.k = "include" ->
           IF C.depth > 6 THEN Unspec(st, "cycle")
           ELSE EvalSeq([C EXCEPT !.file = n.file, !.depth = @ + 1], C.P[n.file].body, st)
      [] OTHER -> Unspec(st, "python")          \* extends below the top level, import, module

EvalSeq(C, nodes, st) == FoldLeft(LAMBDA a, n : IF a.sig = "ok" THEN EvalNode(C, n, a) ELSE a, st, nodes)

-----------------------------------------------------------------------------
(* Loader: reachable files, inheritance chain, block table, the result *)

RECURSIVE RefsIn(_, _)
RefsIn(nodes, kinds) ==
    UNION {LET n == nodes[i] IN
           CASE n.k \in kinds -> {n.file}
             [] n.k = "ctl" -> UNION {RefsIn(n.parts[j].body, kinds) : j \in 1..Len(n.parts)}
             [] n.k \in {"apply", "block"} -> RefsIn(n.body, kinds)
             [] OTHER -> {}
           : i \in 1..Len(nodes)}

(* block entries of a node list in registration order (a block registers before its children) *)
RECURSIVE BlocksIn(_, _, _, _)
BlocksIn(P, nodes, file, d) ==
    FoldLeft(LAMBDA a, n :
        a \o (CASE n.k = "block" -> <<[name |-> n.name, file |-> file, body |-> n.body]>> \o BlocksIn(P, n.body, file, d)
                [] n.k = "apply" -> BlocksIn(P, n.body, file, d)
                [] n.k = "ctl" -> FoldLeft(LAMBDA b, pt : b \o BlocksIn(P, pt.body, file, d), <<>>, n.parts)
                [] n.k = "include" -> IF d > 6 \/ n.file \notin DOMAIN P \/ ~P[n.file].ok THEN <<>>
                                      ELSE BlocksIn(P, P[n.file].body, n.file, d + 1)
                [] OTHER -> <<>>),
        <<>>, nodes)

TopExtends(pr) == SelectSeq(pr.body, LAMBDA n : n.k = "extends")
NoDup(bl) == \A i, j \in 1..Len(bl) : i # j => bl[i].name # bl[j].name

Res(kind) == [kind |-> kind, out |-> <<>>, errs |-> {}, cls |-> "", why |-> "", segs |-> <<>>, soft |-> FALSE]

Run(src, cfg) ==
    LET names == DOMAIN src
        ws0 == IF cfg.ws = "default" THEN "all" ELSE cfg.ws
        (* an explicit record: TLC evaluates each field once (a function constructor [f \in S |-> ..] is
           re-evaluated at every application) *)
        DirOf(f) == SubSeq(cfg.paths[f], 1, Len(cfg.paths[f]) - 1)
        P == [main |-> ParseAt(src.main, ws0, DirOf("main"), cfg.paths), base |-> ParseAt(src.base, ws0, DirOf("base"), cfg.paths),
              inc |-> ParseAt(src.inc, ws0, DirOf("inc"), cfg.paths)]
        Refs(f) == IF f \in names /\ P[f].ok THEN RefsIn(P[f].body, {"include", "extends"}) ELSE {}
        R1 == {"main"} \cup Refs("main")
        R2 == R1 \cup UNION {Refs(f) : f \in R1}
        R3 == R2 \cup UNION {Refs(f) : f \in R2}
        R4 == R3 \cup UNION {Refs(f) : f \in R3}
        bad == {f \in R4 \cap names : ~P[f].ok}
        included == UNION {IF P[f].ok THEN RefsIn(P[f].body, {"include"}) ELSE {} : f \in R4 \cap names}
        (* inheritance chain, child first *)
        Parent(f) == LET e == TopExtends(P[f]) IN IF Len(e) = 1 THEN e[1].file ELSE ""
        c1 == <<"main">>
        c2 == IF Parent("main") = "" THEN c1 ELSE Append(c1, Parent("main"))
        c3 == IF Len(c2) = 1 \/ Parent(c2[2]) = "" THEN c2 ELSE Append(c2, Parent(c2[2]))
        chainBad == \/ \E i \in 1..Len(c3) : Len(TopExtends(P[c3[i]])) > 1
                    \/ (Len(c3) = 3 /\ Parent(c3[3]) # "")
                    \/ Cardinality({c3[i] : i \in 1..Len(c3)}) # Len(c3)
        root == c3[Len(c3)]
        perFile == [i \in 1..Len(c3) |-> BlocksIn(P, P[c3[Len(c3) + 1 - i]].body, c3[Len(c3) + 1 - i], 0)]
        B == FlattenSeq(perFile)
        un == {P[f].un : f \in R4} \ {""}
        C == [P |-> P, B |-> B, cfg |-> cfg, file |-> root, depth |-> 0]
        st0 == [out |-> <<>>, env |-> [x |-> Unbound, y |-> Unbound, k |-> Unbound], sig |-> "ok", exc |-> "", why |-> ""]
    IN
    IF ~P["main"].ok THEN [Res("parse") EXCEPT !.errs = {[file |-> "main", line |-> l] : l \in P["main"].lines}, !.soft = P["main"].soft]
    ELSE IF ~(R4 \subseteq names) THEN [Res("unspec") EXCEPT !.why = "no-such-file"]
    (* every loaded file is also compiled on its own, so invalid Python in one file and a ParseError in
       another are reported in load order: left open *)
    ELSE IF un # {} THEN [Res("unspec") EXCEPT !.why = CHOOSE w \in un : TRUE]
    ELSE IF bad # {} THEN [Res("parse") EXCEPT !.errs = UNION {{[file |-> f, line |-> l] : l \in P[f].lines} : f \in bad}]
    ELSE IF \E f \in included : TopExtends(P[f]) # <<>> THEN [Res("unspec") EXCEPT !.why = "include-of-child"]
    ELSE IF \E f \in R4 : P[f].ae = "conflict" THEN [Res("unspec") EXCEPT !.why = "autoescape-conflict"]
    ELSE IF chainBad THEN [Res("unspec") EXCEPT !.why = "extends-chain"]
    (* a child's block body with a break / continue bound outside the block is generated where the parent
       places the block (possibly outside any loop: invalid Python) - left open only under inheritance *)
    ELSE IF Len(c3) > 1 /\ \E f \in R4 : P[f].xb THEN [Res("unspec") EXCEPT !.why = "break-across-inherited-block"]
    ELSE IF \E i \in 1..Len(perFile) : ~NoDup(perFile[i]) THEN [Res("unspec") EXCEPT !.why = "duplicate-block"]
    ELSE LET fin == EvalSeq(C, P[root].body, st0) IN
         CASE fin.sig = "ok" -> [Res("ok") EXCEPT !.out = Utf8(Concat(fin.out)), !.segs = fin.out]
           [] fin.sig = "exc" -> [Res("exc") EXCEPT !.cls = fin.exc, !.segs = fin.out]
           [] fin.sig = "unspec" -> [Res("unspec") EXCEPT !.why = fin.why]
           [] OTHER -> [Res("unspec") EXCEPT !.why = "signal"]

-----------------------------------------------------------------------------
(* State machine: "main" is built token by token (after a family-specific prefix); base / inc
   come from a library variant.  A family fixes the token alphabet, the bound and the loader
   settings explored, so that one TLC run enumerates several focused template spaces. *)

VARIABLES cfg,     \* [fam, ae, ws, sval, bval, oval, fuel, lib, pre]
          toks,    \* token ids of "main" (generator only)
          src,     \* file name -> text (code points)
          res,     \* Run(src, cfg)
          step

vars == <<cfg, toks, src, res>>

Cps(id) == TokText[id]
Render(ts) == FlattenSeq([i \in 1..Len(ts) |-> Cps(ts[i])])

(* library variants of the two other files *)
Library(n) ==
    CASE n = 1 -> [base |-> Render(<<"a", "block_p", "e_s", "end", "b_">>),
                   inc  |-> Render(<<"e_s", "lt">>)]
      [] n = 2 -> [base |-> Render(<<"ae_none", "block_p", "e_s", "end", "inc_inc", "e_s">>),
                   inc  |-> Render(<<"ae_x", "e_o", "raw_s">>)]
      [] n = 3 -> [base |-> Render(<<"ws_oneline", "sp_nl_sp", "for_x", "block_p", "a", "end", "end", "block_q", "e_b", "end">>),
                   inc  |-> Render(<<"ae_none", "ws_single", "a_sp_sp_a", "e_s", "e_x", "e_k">>)]
      [] n = 4 -> [base |-> Render(<<"a", "nl", "block_p", "nl", "bogus", "end">>),
                   inc  |-> Render(<<"nl", "nl", "if_t", "nl">>)]
      [] n = 5 -> [base |-> Render(<<"apply_wrap", "block_p", "e_s", "end", "end", "ae_x">>),
                   inc  |-> Render(<<"block_p", "raw_s", "end", "for_y", "e_y", "end">>)]
      [] n = 6 -> (* directory layout: a/b/main extends "../inc" (a/inc), which extends "base" = a/base; decoys a/b/base, base *)
                  [base |-> Render(<<"a", "block_p", "b_", "end", "block_q", "e_s", "end">>),
                   inc  |-> Render(<<"ext_base", "block_p", "e_n", "end">>)]
      [] OTHER -> [base |-> <<>>, inc |-> <<>>]

(* physical layout of the loader: logical file -> path; decoys exist in the loader but are never the right target *)
Layout(n) == IF n = 6 THEN [main |-> <<Cps("a"), Cps("b_"), Pool.main>>, inc |-> <<Cps("a"), Pool.inc>>, base |-> <<Cps("a"), Pool.base>>]
             ELSE FlatPaths
Decoys(n) == IF n = 6 THEN <<[path |-> <<Cps("a"), Cps("b_"), Pool.base>>, text |-> Render(<<"lt", "block_p", "end", "block_q", "end">>)],
                             [path |-> <<Pool.base>>, text |-> Render(<<"amp", "block_p", "end">>)]>>
             ELSE <<>>

DefaultS == <<60, 38, 97, 34, 39, 62>>     \* <&a"'>
SAlpha == {60, 62, 38, 34, 39, 97}
DefaultB == <<60, 98, 233, 62>>           \* "<bé>" (the bytes value is its UTF-8 encoding)
DefaultO == <<60, 111, 38, 62>>           \* "<o&>"
AllS == {DefaultS} \cup BoundedSeq(SAlpha, SLen)

AEboth == {"xhtml_escape", "None"}
F(toks_, max, libs, aes, wss, svals, pre) ==
    [alpha |-> toks_, max |-> max, libs |-> libs, aes |-> aes, wss |-> wss, svals |-> svals, pre |-> pre]

Family(f) ==
    CASE f = "tiny" ->      \* smallest family: used for the per-action coverage run (-coverage is very slow on this spec)
           F({"a", "e_s", "if_t", "end"}, 3, {0}, {"xhtml_escape"}, {"all"}, {DefaultS}, <<>>)
      [] f = "lex" ->       \* character level: brace runs, escapes, unterminated and empty tags
           F({"lb", "rb", "pc", "hash", "bang", "n_ch", "nl"}, 4, {0}, {"xhtml_escape"}, {"all"}, {DefaultS}, <<>>)
      [] f = "text" ->      \* literal text: quotes, backslash, non-ASCII, escapes next to braces, comments
           F({"a", "dq", "bsl", "eacute", "astral", "lt", "lb", "rb", "esc_expr", "esc_block", "esc_cmt", "cmt"},
             3, {0}, {"xhtml_escape"}, {"all"}, {DefaultS}, <<>>)
      [] f = "control" ->   \* if / elif / else, for with break / continue / else
           F({"a", "e_x", "if_t", "if_x1", "elif_f", "else", "end", "for_x", "for_e", "break", "continue"},
             3, {0}, {"xhtml_escape"}, {"all"}, {DefaultS}, <<>>)
      [] f = "control4" ->  \* the core of "control" one token deeper
           F({"e_x", "if_x1", "else", "end", "for_x", "break", "continue"},
             4, {0}, {"xhtml_escape"}, {"all"}, {DefaultS}, <<>>)
      [] f = "while" ->     \* while with a counter (prefix: set k = 0)
           F({"e_k", "while_k", "set_kinc", "if_k1", "break", "continue", "end"},
             4, {0}, {"xhtml_escape"}, {"all"}, {DefaultS}, <<"set_k0">>)
      [] f = "try" ->       \* try / except / else / finally around a raising call
           F({"e_boom", "e_k", "try", "except", "except_zde", "else", "finally", "end"},
             4, {0}, {"xhtml_escape"}, {"all"}, {DefaultS}, <<>>)
      [] f = "tryloop" ->   \* signals through finally inside a loop (prefix: for x in r, try)
           F({"e_x", "e_boom", "break", "continue", "except", "finally", "else", "end"},
             3, {0}, {"xhtml_escape"}, {"all"}, {DefaultS}, <<"for_x", "try">>)
      [] f = "blockloop" -> \* loop > named block > break / continue (prefix: for x in r, block p): generated in place
           F({"a", "e_x", "if_x1", "break", "continue", "else", "end"},
             3, {0}, {"xhtml_escape"}, {"all"}, {DefaultS}, <<"for_x", "block_p">>)
      [] f = "apply" ->     \* apply blocks: nested function, scoping, break across apply
           F({"a", "e_s", "e_x", "raw_s", "apply_wrap", "apply_esc", "for_x", "set_k0", "e_k", "break", "end"},
             3, {0}, {"xhtml_escape"}, {"all"}, {DefaultS}, <<>>)
      [] f = "loader" ->    \* extends / block / include through the loader, per-file settings
           F({"a", "e_s", "ext_base", "inc_inc", "inc_inc_sq", "inc_base", "block_p", "block_q", "end", "ae_none", "ae_x", "for_x",
              "ws_oneline", "sp_nl_sp", "ext_up_inc"},
             2, {1, 2, 3, 4, 5, 6}, AEboth, {"single"}, {DefaultS}, <<>>)
      [] f = "ws" ->        \* whitespace filtering per text node and whitespace directives
           F({"a", "sp", "nl", "tab", "sp_nl_sp", "a_sp_sp_a", "cmt", "esc_expr", "ws_single", "ws_oneline"},
             3, {0}, {"xhtml_escape"}, {"default", "oneline"}, {DefaultS}, <<>>)
      [] f = "errors" ->    \* ill-formed templates and the line of the ParseError
           F({"nl", "if_t", "for_x", "try", "end", "else", "break", "bogus",
              "empty_block", "e_empty",
              "apply_empty", "block_empty", "apply_wrap", "block_p", "set_empty", "ae_empty", "ws_bogus"},
             3, {0}, {"xhtml_escape"}, {"all"}, {DefaultS}, <<>>)
      [] f = "errors2" ->   \* further spellings of ill-formed tags (tight, multi-line, unterminated block tag)
           F({"nl", "a", "if_t", "for_x", "try", "end", "continue", "e_empty_tight", "empty_block_tight", "end_tight", "open_block",
              "inc_empty", "e_s_ml", "close_expr", "close_block", "cmt_close", "elif_t", "finally", "bogus_arg", "if_t_ml", "except",
              "except_ne", "for_y", "ws_all", "e_n", "e_boom", "cmt_open", "open_expr", "ext_empty", "e_s_tight", "raw_o", "e_t",
              "apply_wrap"},
             2, {0}, {"xhtml_escape"}, {"all"}, {DefaultS}, <<>>)
      [] f = "values" ->    \* C20: every value type / string through expression, raw, explicit escape under both settings
           F({"e_s", "e_b", "e_n", "e_o", "e_esc_s", "raw_s", "raw_b", "ae_none", "ae_x", "ae_empty"},
             2, {0}, AEboth, {"all"}, AllS, <<>>)
      [] f = "escfiles" ->  \* C20: autoescape scoping across include / extends / apply
           F({"e_s", "raw_s", "ae_none", "ae_x", "inc_inc", "ext_base", "block_p", "end", "apply_esc"},
             3, {1, 2, 5}, AEboth, {"all"}, {DefaultS}, <<>>)

InitWith(c, s) ==
    /\ cfg = c
    /\ toks = <<>>
    /\ src = s
    /\ res = Run(s, c)
    /\ step = [act |-> "init", args |-> <<>>, exp |-> <<>>]

InitState ==
    \E f \in Fams : \E ae \in Family(f).aes, ws \in Family(f).wss, sv \in Family(f).svals, lib \in Family(f).libs :
        InitWith([fam |-> f, ae |-> ae, ws |-> ws, sval |-> sv, bval |-> DefaultB, oval |-> DefaultO, fuel |-> Fuel, lib |-> lib,
                  paths |-> Layout(lib), decoys |-> Decoys(lib)],
                 [main |-> Render(Family(f).pre), base |-> Library(lib).base, inc |-> Library(lib).inc])

AddFree(t) ==
    /\ toks' = Append(toks, t)
    /\ src' = [src EXCEPT !.main = @ \o Cps(t)]
    /\ res' = Run(src', cfg)
    /\ UNCHANGED cfg
    /\ step' = [act |-> "add", args |-> <<t>>, exp |-> <<>>]

Add(t) ==
    /\ Len(toks) + 1 < Family(cfg.fam).max + Grow
    /\ t \in Family(cfg.fam).alpha
    /\ AddFree(t)

Next == \E t \in DOMAIN TokText : Add(t)
Spec == InitState /\ [][Next]_<<vars, step>>
View == vars
AllToks == Family(cfg.fam).pre \o toks

-----------------------------------------------------------------------------
(* Properties *)

Kinds == {"ok", "parse", "exc", "unspec"}
TypeOK == /\ res.kind \in Kinds
          /\ res.kind = "parse" => res.errs # {}
          /\ res.kind = "ok" => \A i \in 1..Len(res.out) : res.out[i] \in 0..255

MainParse == Parse(src.main, IF cfg.ws = "default" THEN "all" ELSE cfg.ws)
NLines(T) == Lex(T).nlines

(* every reported error line lies inside the file it names *)
ErrorLinesInFile == res.kind = "parse" => \A e \in res.errs : e.file \in DOMAIN src /\ e.line \in 1..NLines(src[e.file])

(* Lex / Parse / Eval agree: the result is a ParseError exactly when some reachable file is not well-formed,
   and a well-formed main never yields an error naming main *)
WellFormedEvaluates == /\ (~MainParse.ok) <=> (res.kind = "parse" /\ \E e \in res.errs : e.file = "main")
                       /\ MainParse.ok /\ res.kind = "parse" => \A e \in res.errs : e.file # "main"

(* Lex round trip: a token sequence whose text tokens contain no brace/percent/hash/bang characters lexes back
   to the same number of tags (every tag token is recognised as exactly one tag, nothing else becomes a tag) *)
PlainText(id) == \A i \in 1..Len(Cps(id)) : Cps(id)[i] \notin {LBc, RBc, PCc, HASHc, BANGc}
IsTagTok(id) == LET t == Cps(id) IN Len(t) >= 4 /\ t[1] = LBc /\ t[2] \in {LBc, PCc} /\ t[Len(t)] = RBc
                                    /\ (t[3] # BANGc)
IsCmtTok(id) == id = "cmt"
LexRoundTrip ==
    (\A i \in 1..Len(AllToks) : PlainText(AllToks[i]) \/ IsTagTok(AllToks[i]) \/ IsCmtTok(AllToks[i])) =>
        LET lx == Lex(src.main).tks
            tags == SelectSeq(lx, LAMBDA t : t.k \in {"expr", "block"})
            want == SelectSeq(AllToks, IsTagTok)
        IN /\ Len(tags) = Len(want)
           /\ \A i \in 1..Len(tags) : tags[i].s = Strip(SubSeq(Cps(want[i]), 3, Len(Cps(want[i])) - 2))
           /\ \A i \in 1..Len(lx) : lx[i].k # "lexerr"

(* literal text is reproduced byte for byte when no whitespace filtering is selected: a template made of
   plain text, escapes and comments only evaluates to its text with the escapes' "!" and the comments removed *)
TextOnlyTok(id) == PlainText(id) \/ id \in {"esc_expr", "esc_block", "esc_cmt", "cmt"}
LiteralOf(id) == IF id = "cmt" THEN <<>> ELSE IF PlainText(id) THEN Cps(id) ELSE SubSeq(Cps(id), 1, 2)
LiteralText ==
    (cfg.ws \in {"all", "default"} /\ \A i \in 1..Len(AllToks) : TextOnlyTok(AllToks[i])) =>
        /\ res.kind = "ok"
        /\ res.out = Utf8(FlattenSeq([i \in 1..Len(AllToks) |-> LiteralOf(AllToks[i])]))

(* C20: with an escaping function in effect for the file an expression tag is written in, the emitted segment
   contains none of < > " ' and no & that does not start one of the five entities *)
Entities == {<<38, 97, 109, 112, 59>>, <<38, 108, 116, 59>>, <<38, 103, 116, 59>>, <<38, 113, 117, 111, 116, 59>>,
             <<38, 35, 120, 50, 55, 59>>}
SafeText(s) == /\ \A i \in 1..Len(s) : s[i] \notin {60, 62, 34, 39}
               /\ \A i \in 1..Len(s) : s[i] = 38 => \E e \in Entities : i + Len(e) - 1 <= Len(s) /\ SubSeq(s, i, i + Len(e) - 1) = e
FinalAE(f) == (* independent of Parse: the last autoescape directive of the file decides, else the loader's *)
    LET P == Parse(src[f], "all") IN
    IF P.ae = "unset" THEN (IF cfg.ae = "None" THEN "None" ELSE "esc") ELSE P.ae
EscapedWhereInEffect ==
    LET aM == FinalAE("main")       \* zero-arity LET definitions are evaluated lazily, at most once
        aB == FinalAE("base")
        aI == FinalAE("inc")
        AEof(f) == CASE f = "main" -> aM [] f = "base" -> aB [] OTHER -> aI
    IN
    \A i \in 1..Len(res.segs) :
        LET g == res.segs[i] IN
        /\ g.src = "expr" => (g.esc <=> AEof(g.file) # "None")
        /\ g.esc => SafeText(g.s)
        /\ g.src = "raw" => ~g.esc
(* the whole output is the concatenation of the segments *)
OutputIsSegments == res.kind = "ok" => res.out = Utf8(Concat(res.segs))

(* conformance of an observation of the real code with the result (the python comparator is the same relation) *)
Match(r, obs) ==
    CASE r.kind = "unspec" -> TRUE
      [] r.kind = "ok" -> obs.kind = "ok" /\ obs.out = r.out
      [] r.kind = "parse" -> obs.kind = "parse" /\ [file |-> obs.file, line |-> obs.line] \in r.errs
      [] r.kind = "exc" -> obs.kind = "exc" /\ \E i \in 1..Len(obs.mro) : obs.mro[i] = r.cls
=============================================================================
