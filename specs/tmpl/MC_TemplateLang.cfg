SPECIFICATION Spec
CONSTANTS
  TokSet = {"a", "e_s", "if_t", "else", "end", "for_x", "break"}
  MaxToks = 4
  Libs = {0}
  AEs = {"xhtml_escape", "None"}
  WSs = {"all"}
  SLen = 0
  Fuel = 3
VIEW View
INVARIANT TypeOK
INVARIANT ErrorLinesInFile
INVARIANT WellFormedEvaluates
INVARIANT LexRoundTrip
INVARIANT LiteralText
INVARIANT EscapedWhereInEffect
INVARIANT OutputIsSegments
CHECK_DEADLOCK FALSE
