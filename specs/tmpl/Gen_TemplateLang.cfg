SPECIFICATION GenSpec
CONSTANTS
  Fams = {"lex", "text", "control", "control4", "while", "try", "tryloop", "blockloop", "apply", "loader", "ws", "errors", "errors2"}
  Grow = 1
  SLen = 0
  Fuel = 3
INVARIANT TypeOK
INVARIANT ErrorLinesInFile
INVARIANT WellFormedEvaluates
INVARIANT LexRoundTrip
INVARIANT LiteralText
INVARIANT EscapedWhereInEffect
INVARIANT OutputIsSegments
CHECK_DEADLOCK FALSE
