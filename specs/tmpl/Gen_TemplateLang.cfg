SPECIFICATION GenSpec
CONSTANTS
  Fams = {"lex", "text", "control", "while", "try", "tryloop", "apply", "loader", "ws", "errors"}
  Grow = 0
  SLen = 0
  Fuel = 3
CHECK_DEADLOCK FALSE
