---------------------------- MODULE Gen_TemplateLang ----------------------------
(* Template enumeration: every reachable state is one test case (cfg, src) carrying the
   specification's result res.  "main" grows token by token up to the family's bound.  A
   template whose ParseError is final (raised at a tag: every extension raises the same error)
   is not extended by arbitrary tokens, but it is still closed by up to two {% end %} tags
   beyond the bound - so that a compiler which wrongly accepts the offending tag is carried to
   a complete template and observed, instead of agreeing by accident on "missing end". *)
EXTENDS TemplateLang
VARIABLE dead        \* number of tokens appended since the first final ParseError
Hard(r) == r.kind = "parse" /\ ~r.soft
GenInit == InitState /\ dead = 0
GenNext == \/ dead = 0 /\ Next /\ dead' = (IF Hard(res') THEN 1 ELSE 0)
           \/ dead \in 1..2 /\ AddFree("end") /\ dead' = dead + 1
GenSpec == GenInit /\ [][GenNext]_<<vars, step, dead>>
=============================================================================
