---------------------------- MODULE Gen_TemplateLang ----------------------------
(* Template enumeration: every reachable state is one test case (cfg, src) carrying the
   specification's result res.  "main" grows token by token; a template whose ParseError is
   final (raised at a tag, so every extension raises the same error) is not extended. *)
EXTENDS TemplateLang
Extendable == res.kind # "parse" \/ res.soft
GenNext == Extendable /\ Next
GenSpec == InitState /\ [][GenNext]_<<vars, step>>
=============================================================================
