---------------------------- MODULE Gen_TemplateLang ----------------------------
(* Template enumeration: every reachable state is one test case (cfg, src) carrying the
   specification's result res.  "main" grows token by token up to the family's bound.
   Beyond the bound only {% end %} is appended, in two situations:
   * a template whose ParseError is final (raised at a tag: every extension raises the same
     error) is not extended by arbitrary tokens, but it is closed by up to two {% end %} - so
     that a compiler which wrongly accepts the offending tag is carried to a complete template
     and observed, instead of agreeing by accident on "missing end";
   * a template that reaches the bound with blocks still open (ParseError "missing end") is
     closed by up to three {% end %} (block-structured families only), which turns the many open
     prefixes at the bound into complete templates that are evaluated. *)
EXTENDS TemplateLang
VARIABLE dead        \* number of tokens appended since the first final ParseError
Hard(r) == r.kind = "parse" /\ ~r.soft
Bound == Family(cfg.fam).max + Grow - 1
GenInit == InitState /\ dead = 0
GenNext == \/ dead = 0 /\ Next /\ dead' = (IF Hard(res') THEN 1 ELSE 0)
           \/ dead \in 1..2 /\ AddFree("end") /\ dead' = dead + 1
           \/ /\ dead = 0 /\ Len(toks) >= Bound /\ Len(toks) < Bound + 3
              /\ cfg.fam \in {"control", "control4", "while", "try", "tryloop", "blockloop", "apply", "loader", "escfiles"}
              /\ res.kind = "parse" /\ res.soft
              /\ AddFree("end") /\ dead' = (IF Hard(res') THEN 3 ELSE 0)
GenSpec == GenInit /\ [][GenNext]_<<vars, step, dead>>
=============================================================================
