---------------------------- MODULE Trace_TemplateLang ----------------------------
(* Validates observations of the real tornado.template against TemplateLang.tla.
   One ndjson line per trace:
     {"id":n, "cfg":{"ae":..,"ws":..,"sval":[..],"bval":[..],"oval":[..],"fuel":n,"lib":0,"fam":"trace",
                     "files":{"main":[code points],"base":[..],"inc":[..]}},
      "ev":[{"a":"render","args":[],"obs":{"kind":..,"out":[bytes],"file":..,"line":n,"mro":[..]}}]}
   The templates come from a python-side grammar (larger and deeper than TLC enumerates); TLC
   lexes the recorded *text* itself, parses and evaluates it (InitWith computes res = Run(..)),
   and the event is accepted iff the observation conforms to that result.  The Eval
   invariants (C20) are evaluated on every such state. *)
EXTENDS TemplateLang, Json, IOUtils, TLCExt
Traces == ndJsonDeserialize(IOEnv.TRACE_FILE)
Verbose == IOEnv.TRACE_VERBOSE = "1"
VARIABLES tid, l
Ev == Traces[tid].ev
TC == Traces[tid].cfg
TraceInit ==
    /\ tid \in 1..Len(Traces)
    /\ l = 1
    /\ InitWith([fam |-> "trace", ae |-> TC.ae, ws |-> TC.ws, sval |-> TC.sval, bval |-> TC.bval, oval |-> TC.oval,
                 fuel |-> TC.fuel, lib |-> 0, paths |-> FlatPaths, decoys |-> <<>>],
                [main |-> TC.files.main, base |-> TC.files.base, inc |-> TC.files.inc])
IsEvent(a) == l <= Len(Ev) /\ Ev[l].a = a /\ l' = l + 1 /\ UNCHANGED tid
TrRender == IsEvent("render") /\ Match(res, Ev[l].obs) /\ UNCHANGED <<vars, step>>
TraceNext == TrRender
TraceSpec == TraceInit /\ [][TraceNext]_<<vars, step, tid, l>>
Report == IF Verbose THEN PrintT(<<"AT", Traces[tid].id, l>>)
          ELSE (l = Len(Ev) + 1 => PrintT(<<"ACCEPT", Traces[tid].id>>))
=============================================================================
