SPECIFICATION TraceSpec
CONSTANTS
  Fams = {}
  Grow = 0
  SLen = 0
  Fuel = 4
CONSTRAINT Report
INVARIANT TypeOK
INVARIANT ErrorLinesInFile
INVARIANT WellFormedEvaluates
INVARIANT EscapedWhereInEffect
INVARIANT OutputIsSegments
CHECK_DEADLOCK FALSE
