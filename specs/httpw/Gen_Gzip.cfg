SPECIFICATION GenSpec
CONSTANTS
  Methods = {"GET"}
  Versions = {"1.1"}
  CTypes = {"default", "application/json; charset=utf-8", "image/png"}
  AEs = {"absent", "gzip", "deflate, gzip", "identity"}
  Pres = {"none"}
  Resps = {"200"}
  Lens = {0, 1, 1024}
  Fill = 97
  MaxOps = 3
  L = 4
CONSTRAINT GenBound
CHECK_DEADLOCK FALSE
