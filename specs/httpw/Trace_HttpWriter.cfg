SPECIFICATION TraceSpec
CONSTANTS
  Methods = {"GET"}
  Versions = {"1.1"}
  Inms = {"absent"}
  Statuses = {200}
  HdrVals = {1}
  ClVals = {1}
  ChunkIds = {1}
  MaxBody = 100000
  InmVersions = {"1.1"}
  Prune = FALSE
  MaxHdr = 1000
CONSTRAINT Report
INVARIANT TypeOK
INVARIANT TerminalHasOutcome
INVARIANT FinishedIsComplete
INVARIANT NoBodyObligation
INVARIANT ExplicitLengthHonoured
INVARIANT SubstitutionOnlyOnMatch
PROPERTY CommittedOnce
PROPERTY OutcomeSticky
PROPERTY NothingAfterFinish
CHECK_DEADLOCK FALSE
