---------------------------- MODULE KeepAlive ----------------------------
(***************************************************************************)
(* C03 - connection persistence.  A two-request scenario on one connection:*)
(* request 1 is described by cfg, the handler answers it in the configured *)
(* style, then a second pipelined request (GET, HTTP/1.1) is sent.         *)
(*                                                                         *)
(* cfg = [version   : "1.0" | "1.1",                                       *)
(*        conn      : the Connection request header as sent ("absent" or   *)
(*                    the literal value; Opts gives its option set),       *)
(*        method    : "GET" | "HEAD" | "POST",                             *)
(*        reqbody   : "none" | "cl" | "chunked"  (framing of request 1),   *)
(*        nka       : server configured with no_keep_alive,                *)
(*        early     : the handler finishes its response before the request *)
(*                    body has been read (stream_request_body handler),    *)
(*        style     : "buffered" (write + finish: Content-Length),         *)
(*                    "flushed"  (write, flush, write, finish),            *)
(*                    "flushed_cl" (explicit Content-Length, then flushes),*)
(*        rstatus   : 200 | 204]                                           *)
(*                                                                         *)
(* The decision is the property statement, literally:                      *)
(*   stays open  <=>  the request allows it  /\ ~no_keep_alive             *)
(*                    /\ the response is self-delimiting                   *)
(*                    /\ the whole request body was read                   *)
(* Obligations on response 1 when the connection will close: an HTTP/1.1   *)
(* client is told "Connection: close"; "Connection: keep-alive" is never   *)
(* sent.  Actions: Respond1 (request 1 read, handler ran, response 1       *)
(* written, connection kept or closed), Respond2 (second request answered  *)
(* iff the connection is still open).                                      *)
(***************************************************************************)
EXTENDS RespReader

CONSTANTS Versions, Conns, Methods, ReqBodies, Nkas, Earlies, Styles, RStatuses

VARIABLES cfg, phase, open, answered, step

vars == <<cfg, phase, open, answered>>

(* option set (lower case) of a Connection header value as sent by the harness *)
Opts(c) == CASE c = "absent" -> {}
             [] c = "close" -> {"close"}
             [] c = "Close" -> {"close"}
             [] c = "keep-alive" -> {"keep-alive"}
             [] c = "Keep-Alive" -> {"keep-alive"}
             [] c = "close, x" -> {"close", "x"}
             [] c = "x, close" -> {"close", "x"}
             [] c = "x" -> {"x"}
             [] c = "keep-alive, x" -> {"keep-alive", "x"}
             [] c = "keep-alive, close" -> {"keep-alive", "close"}
             [] OTHER -> {}

HasBody(c) == c.reqbody # "none"
WellFormed(c) ==
    /\ c.method \in {"GET", "HEAD"} => c.reqbody = "none"
    /\ c.version = "1.0" => c.reqbody # "chunked"          \* HTTP/1.0 with Transfer-Encoding: not generated (disputed)
    /\ c.early => HasBody(c)                                \* finishing early needs a body still to come
    /\ c.rstatus = 204 => c.style # "flushed_cl"

RequestAllows(c) ==
    IF c.version = "1.1" THEN "close" \notin Opts(c.conn)
    ELSE "keep-alive" \in Opts(c.conn) /\ (c.method \in {"GET", "HEAD"} \/ c.reqbody # "none")

NoRespBody(c) == c.method = "HEAD" \/ c.rstatus = 204
SelfDelimiting(c) == NoRespBody(c) \/ c.style \in {"buffered", "flushed_cl"} \/ c.version = "1.1"

StayOpen(c) == RequestAllows(c) /\ ~c.nka /\ SelfDelimiting(c) /\ ~c.early

(* HTTP/1.0 with keep-alive inside a longer option list: whether such a request "allows" persistence is
   left open (both answers accepted), but everything else still binds: a close option, no_keep_alive, a
   response that is not self-delimiting and an unread request body all force the close. *)
AllowanceFree(c) == c.version = "1.0" /\ "keep-alive" \in Opts(c.conn) /\ Cardinality(Opts(c.conn)) > 1
MustClose(c) == "close" \in Opts(c.conn) \/ c.nka \/ ~SelfDelimiting(c) \/ c.early
                \/ (c.version = "1.0" /\ ~(c.method \in {"GET", "HEAD"} \/ c.reqbody # "none"))
OpenChoices(c) == IF AllowanceFree(c) THEN (IF MustClose(c) THEN {FALSE} ELSE {TRUE, FALSE})
                  ELSE {StayOpen(c)}

Proj == [open |-> open, answered |-> answered]
Obs(a) == [act |-> a, args |-> <<>>, exp |-> Proj']

InitWith(c) ==
    /\ cfg = c
    /\ phase = "start"
    /\ open = TRUE
    /\ answered = 0
    /\ step = [act |-> "init", args |-> <<>>, exp |-> [open |-> TRUE, answered |-> 0]]

Rows == {c \in [version : Versions, conn : Conns, method : Methods, reqbody : ReqBodies, nka : Nkas,
                early : Earlies, style : Styles, rstatus : RStatuses] : WellFormed(c)}
InitState == \E c \in Rows : InitWith(c)

Respond1 ==
    /\ phase = "start"
    /\ phase' = "one"
    /\ answered' = 1
    /\ open' \in OpenChoices(cfg)
    /\ UNCHANGED cfg
    /\ step' = Obs("respond1")

Respond2 ==
    /\ phase = "one"
    /\ phase' = "two"
    /\ answered' = IF open THEN 2 ELSE 1
    /\ UNCHANGED <<cfg, open>>
    /\ step' = Obs("respond2")

Next == Respond1 \/ Respond2
Spec == InitState /\ [][Next]_<<vars, step>>

----------------------------------------------------------------------------
(* Obligations on the bytes (P1 = first message read from the wire, P2 = the message read from what
   follows it) *)
N_connection == <<99, 111, 110, 110, 101, 99, 116, 105, 111, 110>>
V_close == <<99, 108, 111, 115, 101>>
V_keep_alive == <<107, 101, 101, 112, 45, 97, 108, 105, 118, 101>>
Body1 == <<111, 110, 101>>        \* "one": o | n e  (flushed styles send it in two pieces)
Body2 == <<116, 119, 111>>        \* "two"

(* comma separated option list -> does it contain the (lower case) token t ? *)
SplitComma(v) ==
    LET f == FoldLeft(LAMBDA acc, b : IF b = 44 THEN [done |-> Append(acc.done, acc.cur), cur |-> <<>>]
                                      ELSE [acc EXCEPT !.cur = Append(acc.cur, b)],
                      [done |-> <<>>, cur |-> <<>>], v)
    IN Append(f.done, f.cur)
HasOption(p, t) ==
    \E k \in 1..Len(p.hdrs) : p.hdrs[k].name = N_connection /\
        \E j \in 1..Len(SplitComma(p.hdrs[k].value)) : LowerSeq(Trim(SplitComma(p.hdrs[k].value)[j])) = t

First(P1) ==
    /\ P1.ok /\ P1.complete
    /\ P1.code = cfg.rstatus
    /\ P1.body = (IF NoRespBody(cfg) THEN <<>> ELSE Body1)
    /\ ~open => ~HasOption(P1, V_keep_alive)
    /\ (~open /\ cfg.version = "1.1") => HasOption(P1, V_close)

(* after Respond1: out1 / eof1 observed once the first exchange has settled *)
AfterFirst(out, eof) ==
    LET P1 == ParseResp(out, eof, cfg.method = "HEAD") IN
    /\ First(P1)
    /\ P1.rest = <<>>
    /\ eof = ~open

(* after Respond2: the whole stream *)
AfterSecond(out, eof) ==
    LET P1 == ParseResp(out, eof, cfg.method = "HEAD")
        P2 == ParseResp(P1.rest, eof, FALSE)
    IN
    /\ First(P1)
    /\ IF open THEN P2.ok /\ P2.complete /\ P2.code = 200 /\ P2.body = Body2 /\ P2.rest = <<>>
               ELSE P1.rest = <<>> /\ eof

(* Properties of the decision *)
TypeOK == open \in BOOLEAN /\ answered \in 0..2 /\ phase \in {"start", "one", "two"}
ClosedStaysClosed == [][~open => ~open']_vars
SecondOnlyIfOpen == answered = 2 => open
NoKeepAliveNeverPersists == (phase # "start" /\ cfg.nka) => ~open
CloseOptionCloses == (phase # "start" /\ "close" \in Opts(cfg.conn)) => ~open
Http10NeedsKeepAlive == (phase # "start" /\ cfg.version = "1.0" /\ "keep-alive" \notin Opts(cfg.conn)) => ~open
UndelimitedCloses == (phase # "start" /\ ~SelfDelimiting(cfg)) => ~open
EarlyFinishCloses == (phase # "start" /\ cfg.early) => ~open
DefaultPersists == (phase # "start" /\ cfg.version = "1.1" /\ Opts(cfg.conn) \subseteq {"x", "keep-alive"} /\ ~cfg.nka /\ ~cfg.early) => open
View == vars
=============================================================================
