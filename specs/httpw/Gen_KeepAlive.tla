---------------------------- MODULE Gen_KeepAlive ----------------------------
(* every row of the factor product with its two-step scenario *)
EXTENDS KeepAlive
CONSTANT L
VARIABLE hist
GenInit == InitState /\ hist = <<>>
GenNext == Next /\ hist' = Append(hist, step')
GenSpec == GenInit /\ [][GenNext]_<<vars, step, hist>>
GenBound == Len(hist) <= L
=============================================================================
