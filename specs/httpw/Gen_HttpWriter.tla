---------------------------- MODULE Gen_HttpWriter ----------------------------
(* Path enumeration: every handler program (operation sequence) up to length L. *)
EXTENDS HttpWriter
CONSTANT L
VARIABLE hist
GenInit == InitState /\ hist = <<>>
GenNext == Next /\ hist' = Append(hist, step')
GenSpec == GenInit /\ [][GenNext]_<<vars, step, hist>>
GenBound == Len(hist) <= L
=============================================================================
