---------------------------- MODULE Gen_Gzip ----------------------------
EXTENDS Gzip
CONSTANT L
VARIABLE hist
GenInit == InitState /\ hist = <<>>
GenNext == Next /\ hist' = Append(hist, step')
GenSpec == GenInit /\ [][GenNext]_<<vars, step, hist>>
GenBound == Len(hist) <= L
=============================================================================
