SPECIFICATION Spec
CONSTANTS
  Methods = {"GET"}
  Versions = {"1.1"}
  CTypes = {"default", "application/json; charset=utf-8", "image/png"}
  AEs = {"absent", "gzip", "identity"}
  Pres = {"none", "vary", "ce"}
  Lens = {0, 1, 1023, 1024}
  Fill = 97
  MaxOps = 3
VIEW View
INVARIANT TypeOK
INVARIANT EndedIsFinished
INVARIANT ExpandLength
PROPERTY NothingAfterFinish
CHECK_DEADLOCK FALSE
