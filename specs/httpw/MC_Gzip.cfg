SPECIFICATION Spec
CONSTANTS
  Methods = {"GET"}
  Versions = {"1.1"}
  CTypes = {"default", "image/png"}
  AEs = {"absent", "gzip", "identity"}
  Pres = {"none", "ce"}
  Resps = {"200", "204", "304"}
  Lens = {0, 1, 1023, 1024}
  Fill = 97
  MaxOps = 3
VIEW View
INVARIANT TypeOK
INVARIANT EndedIsFinished
INVARIANT ExpandLength
PROPERTY NothingAfterFinish
CHECK_DEADLOCK FALSE
