---------------------------- MODULE Trace_HttpWriter ----------------------------
(* Validates executions recorded from real RequestHandler programs served by the real in-memory
   HTTPServer.  One ndjson line per trace:
     {"id":n, "cfg":{"method":..,"version":..,"inm":..},
      "ev":[{"a":op,"args":[..],"obs":{"err":..}}, ..., {"a":"response","args":[],"obs":{"out":[bytes],"eof":bool}}]}
   Every handler call must be explained by the spec action of the same name (the call raised iff the
   specification rejects it), and the final "response" event hands the raw bytes the client received
   to the strict reader (RespReader) whose result must meet the obligation (Conforms). *)
EXTENDS HttpWriter, Json, IOUtils, TLCExt
Traces == ndJsonDeserialize(IOEnv.TRACE_FILE)
Verbose == IOEnv.TRACE_VERBOSE = "1"
VARIABLES tid, l
Ev == Traces[tid].ev
TraceInit ==
    /\ tid \in 1..Len(Traces)
    /\ l = 1
    /\ InitWith([method |-> Traces[tid].cfg.method, version |-> Traces[tid].cfg.version, inm |-> Traces[tid].cfg.inm])
IsEvent(a) == l <= Len(Ev) /\ Ev[l].a = a /\ l' = l + 1 /\ UNCHANGED tid
Bind == (run' = "raised") = (Ev[l].obs.err # "none")
TrSetStatus == IsEvent("set_status") /\ SetStatus(Ev[l].args[1]) /\ Bind
TrSetHeader == IsEvent("set_header") /\ SetHeaderB(Ev[l].args[1], Ev[l].args[2]) /\ Bind
TrAddHeader == IsEvent("add_header") /\ AddHeaderB(Ev[l].args[1], Ev[l].args[2]) /\ Bind
TrClearHeader == IsEvent("clear_header") /\ ClearHeaderB(Ev[l].args[1]) /\ Bind
TrWrite == IsEvent("write") /\ WriteB(Ev[l].args[1]) /\ Bind
TrFlush == IsEvent("flush") /\ Flush /\ Bind
TrFinish == IsEvent("finish") /\ FinishB(Ev[l].args[1]) /\ Bind
TrEnd == IsEvent("end") /\ End /\ Bind
TrResponse ==
    /\ IsEvent("response")
    /\ run # "running"
    /\ Conforms(ParseResp(Ev[l].obs.out, Ev[l].obs.eof, IsHead), Ev[l].obs.eof)
    /\ UNCHANGED <<vars, step>>
TraceNext == TrSetStatus \/ TrSetHeader \/ TrAddHeader \/ TrClearHeader \/ TrWrite \/ TrFlush
             \/ TrFinish \/ TrEnd \/ TrResponse
TraceSpec == TraceInit /\ [][TraceNext]_<<vars, step, tid, l>>
Report == IF Verbose THEN PrintT(<<"AT", Traces[tid].id, l>>)
          ELSE (l = Len(Ev) + 1 => PrintT(<<"ACCEPT", Traces[tid].id>>))
=============================================================================
