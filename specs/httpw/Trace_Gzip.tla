---------------------------- MODULE Trace_Gzip ----------------------------
(* {"id":n, "cfg":{"method","version","ctype","ae","pre"},   (method HEAD: obs also has "gout","geof" = the GET response)
    "ev":[{"a":"write","args":[[[n,b],..]],"obs":{"err":..}}, {"a":"flush",..}, {"a":"finish","args":[runs],..},
          {"a":"end",..}, {"a":"response","args":[],"obs":{"out":[..],"eof":b,"gz":{"used":b,"ok":b,"enc":[..],"dec":[..]}}}]}
   The raw bytes are delimited by the strict reader inside TLC; gz is the harness's stdlib gunzip of
   the body (opaque codec), bound to the reader's body by gz.enc = P.body. *)
EXTENDS Gzip, Json, IOUtils, TLCExt
Traces == ndJsonDeserialize(IOEnv.TRACE_FILE)
Verbose == IOEnv.TRACE_VERBOSE = "1"
VARIABLES tid, l
Ev == Traces[tid].ev
C == Traces[tid].cfg
TraceInit ==
    /\ tid \in 1..Len(Traces)
    /\ l = 1
    /\ InitWith([method |-> C.method, version |-> C.version, ctype |-> C.ctype, ae |-> C.ae, pre |-> C.pre, resp |-> C.resp])
IsEvent(a) == l <= Len(Ev) /\ Ev[l].a = a /\ l' = l + 1 /\ UNCHANGED tid
Bind == (run' = "raised") = (Ev[l].obs.err # "none")
TrWrite == IsEvent("write") /\ WriteRuns(Ev[l].args[1]) /\ Bind
TrFlush == IsEvent("flush") /\ Flush /\ Bind
TrFinish == IsEvent("finish") /\ FinishRuns(Ev[l].args[1]) /\ Bind
TrEnd == IsEvent("end") /\ End /\ Bind
TrResponse ==
    /\ IsEvent("response")
    /\ run # "running"
    /\ IF cfg.method = "HEAD"
          THEN HeadMatchesGet(ParseResp(Ev[l].obs.out, Ev[l].obs.eof, TRUE), ParseResp(Ev[l].obs.gout, Ev[l].obs.geof, FALSE))
          ELSE Transparent(ParseResp(Ev[l].obs.out, Ev[l].obs.eof, FALSE), Ev[l].obs.gz)
    /\ UNCHANGED <<vars, step>>
TraceNext == TrWrite \/ TrFlush \/ TrFinish \/ TrEnd \/ TrResponse
TraceSpec == TraceInit /\ [][TraceNext]_<<vars, step, tid, l>>
Report == IF Verbose THEN PrintT(<<"AT", Traces[tid].id, l>>)
          ELSE (l = Len(Ev) + 1 => PrintT(<<"ACCEPT", Traces[tid].id>>))
=============================================================================
