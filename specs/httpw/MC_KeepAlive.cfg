SPECIFICATION Spec
CONSTANTS
  Versions = {"1.0", "1.1"}
  Conns = {"absent", "close", "Close", "keep-alive", "Keep-Alive", "close, x", "x, close", "x", "keep-alive, x", "keep-alive, close"}
  Methods = {"GET", "HEAD", "POST"}
  ReqBodies = {"none", "cl", "chunked"}
  Nkas = {FALSE, TRUE}
  Earlies = {FALSE, TRUE}
  Styles = {"buffered", "flushed", "flushed_cl"}
  RStatuses = {200, 204}
VIEW View
INVARIANT TypeOK
INVARIANT SecondOnlyIfOpen
INVARIANT NoKeepAliveNeverPersists
INVARIANT CloseOptionCloses
INVARIANT Http10NeedsKeepAlive
INVARIANT UndelimitedCloses
INVARIANT EarlyFinishCloses
INVARIANT DefaultPersists
PROPERTY ClosedStaysClosed
CHECK_DEADLOCK FALSE
