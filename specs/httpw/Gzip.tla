---------------------------- MODULE Gzip ----------------------------
(***************************************************************************)
(* C29 - gzip output encoding is transparent to the client.                *)
(*                                                                         *)
(* An application with compress_response=True; cfg = [version, ctype, ae,  *)
(* pre]: HTTP version of the request, the Content-Type the handler sets    *)
(* ("default" = leave Tornado's text/html; charset=UTF-8), the request's   *)
(* Accept-Encoding ("absent" or the literal value) and what the handler    *)
(* sets before writing ("none", "vary" = its own Vary: Cookie, "ce" = its  *)
(* own Content-Encoding: br, i.e. the body is already encoded).            *)
(* Actions: WriteRun(n, b) (n copies of byte b; lengths sit around the     *)
(* 1 KiB threshold), Flush, Finish, End.  The body the handler wrote is    *)
(* kept run-length encoded (`written`), Expand gives the bytes.            *)
(*                                                                         *)
(* zlib is opaque (DESIGN 3.6): the harness gunzips the body with the      *)
(* stdlib and supplies gz = [used, ok, enc, dec] - "dec is what enc        *)
(* decodes to as exactly one complete gzip member".  TLC checks that enc   *)
(* is precisely the body its own reader delimited, so the python side      *)
(* cannot choose what to decode.                                           *)
(*                                                                         *)
(* Obligations (Transparent): one complete message, nothing after it;      *)
(*   decode(body per Content-Encoding) = Expand(written);                  *)
(*   encoded => compressible type /\ Accept-Encoding mentions gzip         *)
(*              (implication only: not compressing is always allowed);     *)
(*   Vary includes Accept-Encoding;                                        *)
(*   Content-Length, when present, = length of the (encoded) body - this is*)
(*   what "complete and nothing after it" means for a length-framed body;  *)
(*   the handler's own Content-Encoding is never encoded a second time.    *)
(***************************************************************************)
EXTENDS RespReader

CONSTANTS Methods, Versions, CTypes, AEs, Pres, Resps, Lens, Fill, MaxOps

VARIABLES cfg, written, nops, hw, fin, run, step
vars == <<cfg, written, nops, hw, fin, run>>

Proj == [raised |-> run = "raised"]
Obs(a, args) == [act |-> a, args |-> args, exp |-> Proj']

InitWith(c) ==
    /\ cfg = c
    /\ written = <<>>          \* runs <<n, b>>
    /\ nops = 0
    /\ hw = FALSE             \* a flush before finish has committed status line and headers
    /\ fin = FALSE
    /\ run = "running"
    /\ step = [act |-> "init", args |-> <<>>, exp |-> [raised |-> FALSE]]
(* resp: "200" plain; "204" = the handler sets status 204 and writes nothing; "304" = the request carries an
   If-None-Match equal to the entity tag of the complete body, so finish() substitutes a 304 unless a flush
   has committed the 200 before *)
InitState == \E c \in [method : Methods, version : Versions, ctype : CTypes, ae : AEs, pre : Pres, resp : Resps] :
                 (c.method = "HEAD" => c.resp = "200") /\ InitWith(c)

Running == run = "running"

(* write(chunk): chunk given as a sequence of runs <<n, b>> *)
WriteRuns(rs) ==
    /\ Running
    /\ IF fin THEN run' = "raised" /\ UNCHANGED written
              ELSE written' = written \o rs /\ UNCHANGED run
    /\ nops' = nops + 1
    /\ UNCHANGED <<cfg, hw, fin>>
    /\ step' = Obs("write", <<rs>>)

(* flush() after finish() has nothing to send; whether it raises is not the client's business *)
Flush ==
    /\ Running
    /\ nops' = nops + 1
    /\ run' \in (IF fin THEN {"running", "raised"} ELSE {"running"})
    /\ hw' = (hw \/ ~fin)
    /\ UNCHANGED <<cfg, written, fin>>
    /\ step' = Obs("flush", <<>>)

FinishRuns(rs) ==
    /\ Running
    /\ IF fin THEN run' = "raised" /\ UNCHANGED <<written, fin>>
              ELSE written' = written \o rs /\ fin' = TRUE /\ UNCHANGED run
    /\ nops' = nops + 1
    /\ UNCHANGED <<cfg, hw>>
    /\ step' = Obs("finish", <<rs>>)

End ==
    /\ Running
    /\ run' = "ended" /\ fin' = TRUE
    /\ UNCHANGED <<cfg, written, nops, hw>>
    /\ step' = Obs("end", <<>>)

Runs(n) == IF n = 0 THEN <<>> ELSE <<<<n, Fill>>>>
LenOK(n) == cfg.resp = "204" => n = 0      \* a 204 handler does not write (a 204 with written chunks, even empty ones, is C02's business)
AWrite == \E n \in Lens : cfg.resp # "204" /\ nops < MaxOps /\ WriteRuns(Runs(n))
AFlush == nops < MaxOps /\ Flush
AFinish == \E n \in Lens : LenOK(n) /\ nops < MaxOps /\ FinishRuns(Runs(n))
Next == AWrite \/ AFlush \/ AFinish \/ End
Spec == InitState /\ [][Next]_<<vars, step>>

----------------------------------------------------------------------------
Expand(rs) == FoldLeft(LAMBDA acc, r : acc \o [i \in 1..r[1] |-> r[2]], <<>>, rs)
Total(rs) == FoldLeft(LAMBDA acc, r : acc + r[1], 0, rs)

Compressible(t) == t \in {"default", "text/plain", "text/css; charset=utf-8", "application/json",
                          "application/json; charset=utf-8", "application/javascript", "image/svg+xml"}
MentionsGzip(a) == a \in {"gzip", "deflate, gzip", "gzip, deflate, br", "gzip;q=0.5", "x-gzip"}

N_content_encoding == <<99, 111, 110, 116, 101, 110, 116, 45, 101, 110, 99, 111, 100, 105, 110, 103>>
N_vary == <<118, 97, 114, 121>>
V_gzip == <<103, 122, 105, 112>>
V_br == <<98, 114>>
V_accept_encoding == <<97, 99, 99, 101, 112, 116, 45, 101, 110, 99, 111, 100, 105, 110, 103>>

SplitComma(v) ==
    LET f == FoldLeft(LAMBDA acc, b : IF b = 44 THEN [done |-> Append(acc.done, acc.cur), cur |-> <<>>]
                                      ELSE [acc EXCEPT !.cur = Append(acc.cur, b)],
                      [done |-> <<>>, cur |-> <<>>], v)
    IN Append(f.done, f.cur)
ListHas(vals, t) == \E k \in 1..Len(vals) : \E j \in 1..Len(SplitComma(vals[k])) :
                        LowerSeq(Trim(SplitComma(vals[k])[j])) = t

ExpCode == IF cfg.resp = "204" THEN 204 ELSE IF cfg.resp = "304" /\ ~hw THEN 304 ELSE 200
Transparent(P, gz) ==
    LET ces == ValuesOf(P.hdrs, N_content_encoding)
        enc == Len(ces) = 1 /\ LowerSeq(ces[1]) = V_gzip
    IN
    /\ P.ok /\ P.complete /\ P.rest = <<>> /\ P.code = ExpCode
    /\ ListHas(ValuesOf(P.hdrs, N_vary), V_accept_encoding)          \* every status, also 204 and the substituted 304
    /\ (cfg.pre = "ce" /\ ExpCode = 200) => ces = <<V_br>>          \* (204 / 304 may drop the representation headers)
    /\ cfg.pre # "ce" => (ces = <<>> \/ enc)
    /\ enc => Compressible(cfg.ctype) /\ MentionsGzip(cfg.ae)
    /\ IF ExpCode # 200 THEN P.body = <<>>
       ELSE IF enc THEN gz.used /\ gz.ok /\ gz.enc = P.body /\ gz.dec = Expand(written)
              ELSE P.body = Expand(written)

(* HEAD (C02: "a Content-Length always equals the length of the body a GET would carry"; the output
   transforms are part of what a GET carries).  PH = the response to HEAD, PG = the response the same
   handler program gives to GET under the same configuration, both delimited by the reader. *)
HeadMatchesGet(PH, PG) ==
    LET cl == ValuesOf(PH.hdrs, N_content_length) IN
    /\ PH.ok /\ PH.complete /\ PH.rest = <<>> /\ PH.body = <<>> /\ PH.code = 200
    /\ PG.ok /\ PG.complete /\ PG.code = 200
    /\ ~HasHeader(PH, N_transfer_encoding)
    /\ ListHas(ValuesOf(PH.hdrs, N_vary), V_accept_encoding)
    /\ ValuesOf(PH.hdrs, N_content_encoding) = ValuesOf(PG.hdrs, N_content_encoding)
    /\ Len(cl) > 0 => DecVal(cl[1]) = Len(PG.body)

(* properties of the model itself *)
TypeOK == hw \in BOOLEAN /\ fin \in BOOLEAN /\ run \in {"running", "raised", "ended"} /\ nops \in 0..MaxOps
EndedIsFinished == run = "ended" => fin
NothingAfterFinish == [][fin => written' = written]_vars
ExpandLength == Len(Expand(written)) = Total(written)
(* the codec contract is meaningful: an identity "decode" of a non-empty body can never satisfy the
   encoded branch unless the bytes really are equal *)
View == vars
=============================================================================
