---------------------------- MODULE RespReader ----------------------------
(***************************************************************************)
(* A strict HTTP/1.1 *response* reader over Seq(0..255), written for the   *)
(* httpw family (C02, C03, C07, C29).  It is the oracle that delimits the  *)
(* raw bytes recorded from the real server: there is no python parser.     *)
(*                                                                         *)
(* One left fold over the bytes (FoldLeft is Java-backed and iterative)    *)
(* drives a small lexer/framing machine:                                   *)
(*   status-line = "HTTP/1." DIGIT SP 3DIGIT SP *( HTAB / SP / VCHAR /     *)
(*                 obs-text ) CRLF                                         *)
(*   field-line  = token ":" OWS *( HTAB / SP / VCHAR / obs-text ) OWS CRLF*)
(*   header block ends with an empty line; lines end with CRLF only (a bare*)
(*   LF, a CR not followed by LF, NUL or any other control byte is an      *)
(*   error; obs-fold is an error).                                         *)
(*   framing: HEAD / 1xx / 204 / 304 => no body;  Transfer-Encoding must be*)
(*   exactly "chunked" (and then no Content-Length); Content-Length =      *)
(*   1*DIGIT, repeated values must be identical; otherwise the body runs   *)
(*   until the connection is closed.                                       *)
(*   chunked   = *( 1*HEXDIG CRLF data CRLF ) "0" CRLF CRLF  (no chunk     *)
(*   extensions, no trailers: Tornado emits neither, a strict reader       *)
(*   refuses what it does not understand).                                 *)
(* Bytes after the end of the first message are returned as `rest` so that *)
(* a caller can read a second pipelined response.                          *)
(***************************************************************************)
EXTENDS Integers, Sequences, SequencesExt, FiniteSets, TLC

CR == 13
LF == 10
SP == 32
HT == 9
COLON == 58

IsDigit(b) == b \in 48..57
IsHex(b) == b \in 48..57 \/ b \in 65..70 \/ b \in 97..102
HexVal(b) == IF b \in 48..57 THEN b - 48 ELSE IF b \in 65..70 THEN b - 55 ELSE b - 87
TcharPunct == {33, 35, 36, 37, 38, 39, 42, 43, 45, 46, 94, 95, 96, 124, 126}
IsTchar(b) == b \in 48..57 \/ b \in 65..90 \/ b \in 97..122 \/ b \in TcharPunct
IsFieldByte(b) == b = HT \/ b \in 32..126 \/ b \in 128..255
IsOWS(b) == b = SP \/ b = HT
Lower(b) == IF b \in 65..90 THEN b + 32 ELSE b
LowerSeq(s) == [i \in 1..Len(s) |-> Lower(s[i])]

SetMin(S) == CHOOSE x \in S : \A y \in S : x <= y
SetMax(S) == CHOOSE x \in S : \A y \in S : x >= y

(* strip optional whitespace on both sides *)
Trim(s) == LET nw == {i \in 1..Len(s) : ~IsOWS(s[i])} IN
           IF nw = {} THEN <<>> ELSE SubSeq(s, SetMin(nw), SetMax(nw))

DecVal(s) == FoldLeft(LAMBDA a, b : a * 10 + (b - 48), 0, s)
HexSeqVal(s) == FoldLeft(LAMBDA a, b : a * 16 + HexVal(b), 0, s)
AllDigits(s) == Len(s) >= 1 /\ Len(s) <= 9 /\ \A i \in 1..Len(s) : IsDigit(s[i])

(* field names (lower case) the reader itself interprets *)
N_content_length == <<99, 111, 110, 116, 101, 110, 116, 45, 108, 101, 110, 103, 116, 104>>
N_transfer_encoding == <<116, 114, 97, 110, 115, 102, 101, 114, 45, 101, 110, 99, 111, 100, 105, 110, 103>>
V_chunked == <<99, 104, 117, 110, 107, 101, 100>>
HTTP1dot == <<72, 84, 84, 80, 47, 49, 46>>      \* "HTTP/1."

NoStatus == [ok |-> FALSE, minor |-> 0, code |-> 0, reason |-> <<>>]

ParseStatus(l) ==
    LET n == Len(l) IN
    IF /\ n >= 13
       /\ SubSeq(l, 1, 7) = HTTP1dot
       /\ IsDigit(l[8]) /\ l[9] = SP
       /\ IsDigit(l[10]) /\ IsDigit(l[11]) /\ IsDigit(l[12]) /\ l[13] = SP
       /\ \A i \in 14..n : IsFieldByte(l[i])
    THEN [ok |-> TRUE, minor |-> l[8] - 48,
          code |-> (l[10] - 48) * 100 + (l[11] - 48) * 10 + (l[12] - 48),
          reason |-> SubSeq(l, 14, n)]
    ELSE NoStatus

NoField == [ok |-> FALSE, name |-> <<>>, value |-> <<>>]

ParseField(l) ==
    LET cs == {i \in 1..Len(l) : l[i] = COLON} IN
    IF cs = {} THEN NoField
    ELSE LET c == SetMin(cs) IN
         IF /\ c > 1
            /\ \A i \in 1..(c - 1) : IsTchar(l[i])
            /\ \A i \in (c + 1)..Len(l) : IsFieldByte(l[i])
         THEN [ok |-> TRUE, name |-> LowerSeq(SubSeq(l, 1, c - 1)), value |-> Trim(SubSeq(l, c + 1, Len(l)))]
         ELSE NoField

ValuesOf(hdrs, name) == LET sel == SelectSeq(hdrs, LAMBDA h : h.name = name) IN
                        [i \in 1..Len(sel) |-> sel[i].value]

R0 == [ph |-> "sl", i |-> 0, cur |-> <<>>, sline |-> NoStatus, hdrs |-> <<>>, need |-> 0,
       spans |-> <<>>, bstart |-> 0, fr |-> "unknown", endAt |-> 0, why |-> "none"]

Bad(t, w) == [t EXCEPT !.ph = "bad", !.why = w]
Done(t) == [t EXCEPT !.ph = "done", !.endAt = t.i]

EndHeaders(t, head) ==
    LET cls == ValuesOf(t.hdrs, N_content_length)
        tes == ValuesOf(t.hdrs, N_transfer_encoding)
        code == t.sline.code
        clOk == \A k \in 1..Len(cls) : AllDigits(cls[k]) /\ cls[k] = cls[1]
    IN
    IF ~clOk THEN Bad(t, "content-length")
    ELSE IF Len(tes) > 0 /\ Len(cls) > 0 THEN Bad(t, "content-length with transfer-encoding")
    ELSE IF Len(tes) > 0 /\ ~(Len(tes) = 1 /\ LowerSeq(tes[1]) = V_chunked) THEN Bad(t, "transfer-coding")
    ELSE IF head \/ code \in 100..199 \/ code = 204 \/ code = 304 THEN Done([t EXCEPT !.fr = "none"])
    ELSE IF Len(tes) > 0 THEN [t EXCEPT !.ph = "cs", !.fr = "chunked", !.cur = <<>>]
    ELSE IF Len(cls) > 0 THEN
         LET n == DecVal(cls[1]) IN
         IF n = 0 THEN Done([t EXCEPT !.fr = "cl"])
         ELSE [t EXCEPT !.ph = "cl", !.fr = "cl", !.need = n, !.bstart = t.i + 1]
    ELSE [t EXCEPT !.ph = "close", !.fr = "close", !.bstart = t.i + 1]

Step(s, b, head) ==
    LET t == [s EXCEPT !.i = s.i + 1] IN
    CASE s.ph = "sl" ->
           IF b = CR THEN [t EXCEPT !.ph = "sl_lf"]
           ELSE IF b = LF THEN Bad(t, "bare LF")
           ELSE IF Len(s.cur) >= 512 THEN Bad(t, "line too long")
           ELSE [t EXCEPT !.cur = Append(s.cur, b)]
      [] s.ph = "sl_lf" ->
           IF b # LF THEN Bad(t, "CR without LF")
           ELSE LET p == ParseStatus(s.cur) IN
                IF p.ok THEN [t EXCEPT !.ph = "hl", !.sline = p, !.cur = <<>>] ELSE Bad(t, "status-line")
      [] s.ph = "hl" ->
           IF b = CR THEN [t EXCEPT !.ph = "hl_lf"]
           ELSE IF b = LF THEN Bad(t, "bare LF")
           ELSE IF Len(s.cur) >= 2048 THEN Bad(t, "line too long")
           ELSE [t EXCEPT !.cur = Append(s.cur, b)]
      [] s.ph = "hl_lf" ->
           IF b # LF THEN Bad(t, "CR without LF")
           ELSE IF s.cur = <<>> THEN EndHeaders(t, head)
           ELSE LET f == ParseField(s.cur) IN
                IF f.ok THEN [t EXCEPT !.ph = "hl", !.cur = <<>>,
                                       !.hdrs = Append(s.hdrs, [name |-> f.name, value |-> f.value])]
                ELSE Bad(t, "field-line")
      [] s.ph = "cl" ->
           IF s.need = 1 THEN Done([t EXCEPT !.need = 0, !.spans = Append(s.spans, <<s.bstart, t.i>>)])
           ELSE [t EXCEPT !.need = s.need - 1]
      [] s.ph = "cs" ->
           IF IsHex(b) /\ Len(s.cur) < 7 THEN [t EXCEPT !.cur = Append(s.cur, b)]
           ELSE IF b = CR /\ Len(s.cur) >= 1 THEN [t EXCEPT !.ph = "cs_lf"]
           ELSE Bad(t, "chunk-size")
      [] s.ph = "cs_lf" ->
           IF b # LF THEN Bad(t, "chunk-size line")
           ELSE LET n == HexSeqVal(s.cur) IN
                IF n = 0 THEN [t EXCEPT !.ph = "lc", !.cur = <<>>]
                ELSE [t EXCEPT !.ph = "cd", !.need = n, !.bstart = t.i + 1, !.cur = <<>>]
      [] s.ph = "cd" ->
           IF s.need = 1 THEN [t EXCEPT !.ph = "cd_cr", !.need = 0, !.spans = Append(s.spans, <<s.bstart, t.i>>)]
           ELSE [t EXCEPT !.need = s.need - 1]
      [] s.ph = "cd_cr" -> IF b = CR THEN [t EXCEPT !.ph = "cd_lf"] ELSE Bad(t, "chunk terminator")
      [] s.ph = "cd_lf" -> IF b = LF THEN [t EXCEPT !.ph = "cs"] ELSE Bad(t, "chunk terminator")
      [] s.ph = "lc" -> IF b = CR THEN [t EXCEPT !.ph = "lc_lf"] ELSE Bad(t, "trailer section")
      [] s.ph = "lc_lf" -> IF b = LF THEN Done(t) ELSE Bad(t, "last chunk")
      [] OTHER -> t          \* "close" (body until EOF), "done" (rest), "bad"

Concat(out, spans) == FoldLeft(LAMBDA acc, sp : acc \o SubSeq(out, sp[1], sp[2]), <<>>, spans)

(***************************************************************************)
(* ParseResp(out, eof, head): read the first response in `out`.            *)
(*   ok       - no syntax error met                                        *)
(*   complete - a whole message was delimited (close-delimited bodies need *)
(*              eof)                                                       *)
(*   body     - payload after removing the framing (partial if incomplete) *)
(*   rest     - bytes after the message ("done" only)                      *)
(***************************************************************************)
ParseResp(out, eof, head) ==
    LET f == FoldLeft(LAMBDA s, b : Step(s, b, head), R0, out)
        n == Len(out)
        body == CASE f.ph = "close" -> SubSeq(out, f.bstart, n)
                  [] f.ph \in {"cl", "cd"} -> Concat(out, f.spans) \o SubSeq(out, f.bstart, n)
                  [] OTHER -> Concat(out, f.spans)
    IN [ok |-> f.ph # "bad",
        complete |-> f.ph = "done" \/ (f.ph = "close" /\ eof),
        ph |-> f.ph, why |-> f.why,
        code |-> f.sline.code, minor |-> f.sline.minor, reason |-> f.sline.reason,
        hdrs |-> f.hdrs, framing |-> f.fr, body |-> body,
        rest |-> IF f.ph = "done" THEN SubSeq(out, f.endAt + 1, n) ELSE <<>>]

HasHeader(p, name) == \E k \in 1..Len(p.hdrs) : p.hdrs[k].name = name
=============================================================================
