---------------------------- MODULE Trace_KeepAlive ----------------------------
(* Validates two-request exchanges recorded from the real in-memory HTTPServer.
   {"id":n, "cfg":{row}, "ev":[{"a":"respond1"},{"a":"observe1","obs":{"out":[..],"eof":b}},
                               {"a":"respond2"},{"a":"observe2","obs":{"out":[..],"eof":b}}]}
   (observe1 is absent when both requests were sent in one piece).  The bytes are delimited by the
   strict reader inside TLC; the first response must carry the Connection obligations, and the
   second request must be answered iff the specification keeps the connection open. *)
EXTENDS KeepAlive, Json, IOUtils, TLCExt
Traces == ndJsonDeserialize(IOEnv.TRACE_FILE)
Verbose == IOEnv.TRACE_VERBOSE = "1"
VARIABLES tid, l
Ev == Traces[tid].ev
C == Traces[tid].cfg
TraceInit ==
    /\ tid \in 1..Len(Traces)
    /\ l = 1
    /\ InitWith([version |-> C.version, conn |-> C.conn, method |-> C.method, reqbody |-> C.reqbody,
                 nka |-> C.nka, early |-> C.early, style |-> C.style, rstatus |-> C.rstatus])
IsEvent(a) == l <= Len(Ev) /\ Ev[l].a = a /\ l' = l + 1 /\ UNCHANGED tid
TrRespond1 == IsEvent("respond1") /\ Respond1
TrObserve1 == IsEvent("observe1") /\ phase = "one" /\ AfterFirst(Ev[l].obs.out, Ev[l].obs.eof) /\ UNCHANGED <<vars, step>>
TrRespond2 == IsEvent("respond2") /\ Respond2
TrObserve2 == IsEvent("observe2") /\ phase = "two" /\ AfterSecond(Ev[l].obs.out, Ev[l].obs.eof) /\ UNCHANGED <<vars, step>>
TraceNext == TrRespond1 \/ TrObserve1 \/ TrRespond2 \/ TrObserve2
TraceSpec == TraceInit /\ [][TraceNext]_<<vars, step, tid, l>>
Report == IF Verbose THEN PrintT(<<"AT", Traces[tid].id, l>>)
          ELSE (l = Len(Ev) + 1 => PrintT(<<"ACCEPT", Traces[tid].id>>))
=============================================================================
