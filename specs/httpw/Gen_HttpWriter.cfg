SPECIFICATION GenSpec
CONSTANTS
  Methods = {"GET", "HEAD", "POST"}
  Versions = {"1.0", "1.0ka", "1.1"}
  Inms = {"absent", "match"}
  Statuses = {204, 404}
  HdrVals = {1}
  ClVals = {1}
  ChunkIds = {1, 2}
  MaxBody = 100
  InmVersions = {"1.1"}
  Prune = FALSE
  MaxHdr = 100
  L = 3
CONSTRAINT GenBound
CHECK_DEADLOCK FALSE
