---------------------------- MODULE HttpWriter ----------------------------
(***************************************************************************)
(* C02 - what a response must be, as a function of the handler's output    *)
(* operations.  One action = one RequestHandler call made by the handler   *)
(* program (set_status, set_header, add_header, clear_header, write, flush,*)
(* finish) or the end of the handler method (implicit finish).  A call the *)
(* contract rejects raises: the program stops there (run = "raised") and   *)
(* the framework reacts.  The specification does not produce bytes; it     *)
(* produces an OBLIGATION (outcome, committed status and headers, body) and*)
(* `Conforms` decides whether raw bytes delimited by the strict reader of  *)
(* RespReader.tla meet it.                                                 *)
(*                                                                         *)
(* cfg = [method, version, inm]: request method, HTTP version ("1.0",      *)
(* "1.0ka" = 1.0 with Connection: keep-alive, "1.1"), and how the request's*)
(* If-None-Match relates to the entity tag of the complete body ("absent", *)
(* "differ", "match", "star").  ETag equality is abstract here; the harness*)
(* computes the real tag.                                                  *)
(*                                                                         *)
(* Status line and header block are committed by the first flush (or by    *)
(* finish); later set_status / set_header calls cannot change the wire and *)
(* do not change the obligation.                                           *)
(* Rejected operations (property: "or its error response if an operation   *)
(* was rejected"; "Content-Length always equals the length of the body";   *)
(* "204 / 304 carry no body"):                                             *)
(*   - body bytes for a 204 / 304 response (not HEAD: there they are       *)
(*     silently dropped),                                                  *)
(*   - more bytes than an explicit Content-Length, or fewer at finish,     *)
(*   - write() or finish() after finish() (no effect on the wire).         *)
(* Outcome of a rejection: before anything was committed the client gets   *)
(* the framework's error response (500) or an aborted connection; after the*)
(* commit the connection is aborted (closed without completing a           *)
(* mis-delimited message).                                                 *)
(***************************************************************************)
EXTENDS RespReader

CONSTANTS Methods, Versions, Inms,      \* configurations explored
          Statuses,                     \* arguments of set_status
          HdrVals, ClVals,              \* digit values for X-A / explicit Content-Length
          ChunkIds,                     \* chunks offered to write / finish
          MaxBody, MaxHdr,              \* state constraint only
          InmVersions,                  \* versions for which the If-None-Match variants are explored
          Prune                         \* TRUE: Next omits calls that cannot change the obligation any more
                                        \* (status / header calls after the commit); FALSE for generation

NoCL == 999999
N_x_a == <<120, 45, 97>>
N_etag == <<101, 116, 97, 103>>
Digit(v) == <<48 + v>>
Chunk(k) == CASE k = 0 -> <<>> [] k = 1 -> <<97>> [] k = 2 -> <<98, 99>> [] OTHER -> <<100, 101, 102, 103>>

VARIABLES cfg, status, hdr, buf, bufw, sent, hw, fin, run, com, outcome, step

vars == <<cfg, status, hdr, buf, bufw, sent, hw, fin, run, com, outcome>>

Proj == [raised |-> run = "raised"]
Obs(a, args) == [act |-> a, args |-> args, exp |-> Proj']

Com0 == [status |-> 0, hdr |-> <<>>, ecl |-> NoCL, subst |-> FALSE]

InitWith(c) ==
    /\ cfg = c
    /\ status = 200
    /\ hdr = <<>>          \* handler-set headers: sequence of [name (lower case), value (trimmed)]
    /\ buf = <<>>          \* written, not yet flushed
    /\ bufw = 0            \* number of write() calls whose chunk is still buffered (a call may write zero bytes)
    /\ sent = <<>>         \* body bytes accepted for the wire (what a GET carries; kept for HEAD too)
    /\ hw = FALSE          \* status line and headers committed
    /\ fin = FALSE
    /\ run = "running"     \* "running" | "raised" (a call was rejected) | "ended"
    /\ com = Com0          \* what was committed
    /\ outcome = "open"    \* "open" | "complete" | "error" | "aborted"
    /\ step = [act |-> "init", args |-> <<>>, exp |-> [raised |-> FALSE]]

Cfgs == {c \in [method : Methods, version : Versions, inm : Inms] :
            /\ c.method = "POST" => c.inm = "absent"
            /\ c.inm # "absent" => c.version \in InmVersions}
InitState == \E c \in Cfgs : InitWith(c)

Running == run = "running"
IsHead == cfg.method = "HEAD"
NoBodyStatus(s) == s \in {204, 304}
DropName(h, n) == SelectSeq(h, LAMBDA e : e.name # n)

ExplicitCL(h) == LET v == ValuesOf(h, N_content_length) IN
                 IF Len(v) = 0 \/ ~AllDigits(v[Len(v)]) THEN NoCL ELSE DecVal(v[Len(v)])

EtagHit == cfg.inm \in {"match", "star"}

(* the header decisions taken by the first flush / by finish *)
CommitRec(finishing) ==
    LET st == IF finishing /\ status = 200 /\ cfg.method \in {"GET", "HEAD"} /\ EtagHit
                 /\ ValuesOf(hdr, N_etag) = <<>>
              THEN 304 ELSE status
    IN [status |-> st, hdr |-> hdr, ecl |-> ExplicitCL(hdr), subst |-> st # status]

SetStatus(s) ==
    /\ Running
    /\ status' = s
    /\ UNCHANGED <<cfg, hdr, buf, bufw, sent, hw, fin, run, com, outcome>>
    /\ step' = Obs("set_status", <<s>>)

SetHeaderB(n, v) ==
    /\ Running
    /\ hdr' = Append(DropName(hdr, LowerSeq(n)), [name |-> LowerSeq(n), value |-> Trim(v)])
    /\ UNCHANGED <<cfg, status, buf, bufw, sent, hw, fin, run, com, outcome>>
    /\ step' = Obs("set_header", <<n, v>>)

AddHeaderB(n, v) ==
    /\ Running
    /\ hdr' = Append(hdr, [name |-> LowerSeq(n), value |-> Trim(v)])
    /\ UNCHANGED <<cfg, status, buf, bufw, sent, hw, fin, run, com, outcome>>
    /\ step' = Obs("add_header", <<n, v>>)

ClearHeaderB(n) ==
    /\ Running
    /\ hdr' = DropName(hdr, LowerSeq(n))
    /\ UNCHANGED <<cfg, status, buf, bufw, sent, hw, fin, run, com, outcome>>
    /\ step' = Obs("clear_header", <<n>>)

WriteB(bs) ==
    /\ Running
    /\ IF fin THEN run' = "raised" /\ UNCHANGED <<buf, bufw>>
              ELSE buf' = buf \o bs /\ bufw' = bufw + 1 /\ UNCHANGED run
    /\ UNCHANGED <<cfg, status, hdr, sent, hw, fin, com, outcome>>
    /\ step' = Obs("write", <<bs>>)

(* Whether a flush / finish that would put `data` on the wire under the committed decisions c is
   rejected.  MustReject: the contract demands it.  MayReject: contract-neutral (HEAD responses
   carry no body whatever was written, so refusing a body for a 204/304 answer to HEAD is as good as
   dropping it) - the specification allows both. *)
LenBad(c, n, finishing) == c.ecl # NoCL /\ (IF finishing THEN n # c.ecl ELSE n > c.ecl)
MustReject(c, data, n, finishing) ==
    ~IsHead /\ \/ NoBodyStatus(c.status) /\ data # <<>>
               \/ ~NoBodyStatus(c.status) /\ LenBad(c, n, finishing)
MayReject(c, data, emptyWrites) ==
    \/ IsHead /\ NoBodyStatus(c.status) /\ data # <<>>
    \/ NoBodyStatus(c.status) /\ data = <<>> /\ emptyWrites      \* write(b"") calls before a 204/304 finish: zero bytes, still "a body"?
(* An explicit Content-Length on a 204/304 response (also on the 304 substituted for an ETag match) is
   only a header: the message is complete without a body, the call is not rejected and must not raise
   (an exception there aborts a kept-alive connection for a well-formed response). *)
RejChoices(c, data, n, finishing, emptyWrites) ==
    IF MustReject(c, data, n, finishing) THEN {TRUE}
    ELSE IF MayReject(c, data, emptyWrites) THEN {TRUE, FALSE} ELSE {FALSE}

Flush ==
    /\ Running
    /\ IF fin THEN UNCHANGED <<buf, bufw, sent, hw, run, com, outcome>>
       ELSE LET c == IF hw THEN com ELSE CommitRec(FALSE)
                s2 == sent \o buf
            IN \E rej \in RejChoices(c, buf, Len(s2), FALSE, FALSE) :
               IF rej
               THEN /\ run' = "raised"
                    /\ outcome' = IF hw THEN "aborted" ELSE "error"
                    /\ UNCHANGED <<buf, bufw, sent, hw, com>>
               ELSE /\ hw' = TRUE /\ com' = c /\ sent' = s2 /\ buf' = <<>> /\ bufw' = 0
                    /\ UNCHANGED <<run, outcome>>
    /\ UNCHANGED <<cfg, status, hdr, fin>>
    /\ step' = Obs("flush", <<>>)

(* finish(chunk) and the implicit finish at the end of the handler method *)
DoFinish(bs, okRun) ==
    IF fin THEN UNCHANGED <<buf, bufw, sent, hw, fin, com, outcome>> /\ run' = (IF okRun = "ended" THEN "ended" ELSE "raised")
    ELSE LET c == IF hw THEN com ELSE CommitRec(TRUE)
             data == IF c.subst THEN <<>> ELSE buf \o bs
             s2 == sent \o data
         IN \E rej \in RejChoices(c, data, Len(s2), TRUE, ~hw /\ ~c.subst /\ (bufw > 0)) :
            IF rej
            THEN /\ run' = "raised"
                 /\ outcome' = IF hw THEN "aborted" ELSE "error"
                 /\ UNCHANGED <<buf, bufw, sent, hw, fin, com>>
            ELSE /\ fin' = TRUE /\ hw' = TRUE /\ com' = c /\ sent' = s2 /\ buf' = <<>> /\ bufw' = 0
                 /\ outcome' = "complete"
                 /\ run' = okRun

FinishB(bs) ==
    /\ Running
    /\ DoFinish(bs, "running")
    /\ UNCHANGED <<cfg, status, hdr>>
    /\ step' = Obs("finish", <<bs>>)

End ==
    /\ Running
    /\ DoFinish(<<>>, "ended")
    /\ UNCHANGED <<cfg, status, hdr>>
    /\ step' = Obs("end", <<>>)

Live == Prune => ~hw
LSetStatus(s) == Live /\ SetStatus(s)
LSetHeader(n, v) == Live /\ SetHeaderB(n, v)
LAddHeader(n, v) == Live /\ AddHeaderB(n, v)
LClearHeader(n) == Live /\ ClearHeaderB(n)
ASetStatus == \E s \in Statuses : LSetStatus(s)
ASetHeader == \E v \in HdrVals : LSetHeader(N_x_a, Digit(v))
ASetLength == \E v \in ClVals : LSetHeader(N_content_length, Digit(v))
AAddHeader == \E v \in HdrVals : LAddHeader(N_x_a, Digit(v))
AClearHeader == HdrVals # {} /\ LClearHeader(N_x_a)
AWrite == \E k \in ChunkIds : WriteB(Chunk(k))
AFinish == \E k \in ChunkIds \cup {0} : FinishB(Chunk(k))
Next == ASetStatus \/ ASetHeader \/ ASetLength \/ AAddHeader \/ AClearHeader \/ AWrite \/ Flush \/ AFinish \/ End

Spec == InitState /\ [][Next]_<<vars, step>>

----------------------------------------------------------------------------
(* The obligation and its comparison with what the strict reader delimits *)

NoBody == IsHead \/ NoBodyStatus(com.status)
ExpBody == IF NoBody THEN <<>> ELSE sent
HdrNames == {com.hdr[k].name : k \in 1..Len(com.hdr)} \cup {N_x_a}

CompleteOK(P) ==
    /\ P.ok /\ P.complete /\ P.rest = <<>>
    /\ P.code = com.status
    /\ \A n \in HdrNames : ValuesOf(P.hdrs, n) = ValuesOf(com.hdr, n)
    /\ P.body = ExpBody
    /\ NoBody => ~HasHeader(P, N_transfer_encoding)
    /\ LET cl == ValuesOf(P.hdrs, N_content_length) IN
       (com.ecl = NoCL /\ Len(cl) > 0 /\ ~com.subst) => DecVal(cl[1]) = Len(sent)

ErrorOK(P) == P.ok /\ P.complete /\ P.rest = <<>> /\ P.code = 500

(* aborted: closed, nothing after a message, and if what arrived happens to be a whole message
   it is the committed one with exactly the bytes accepted before the rejected call *)
AbortOK(P, eof) ==
    /\ eof /\ P.ok /\ P.rest = <<>>
    /\ P.complete => (hw /\ P.code = com.status /\ P.body = ExpBody)

Conforms(P, eof) ==
    CASE outcome = "complete" -> CompleteOK(P)
      [] outcome = "error" -> ErrorOK(P) \/ AbortOK(P, eof)
      [] outcome = "aborted" -> AbortOK(P, eof)
      [] OTHER -> FALSE

----------------------------------------------------------------------------
(* Reference serializations of the obligation, used only inside TLC to check that the
   obligation and the reader agree (and that the reader refuses the classic mis-framings). *)
CRLF == <<13, 10>>
Dec3(n) == <<48 + (n \div 100), 48 + ((n \div 10) % 10), 48 + (n % 10)>>
DecStr(n) == IF n < 10 THEN <<48 + n>> ELSE IF n < 100 THEN <<48 + (n \div 10), 48 + (n % 10)>> ELSE Dec3(n)
HexD(d) == IF d < 10 THEN 48 + d ELSE 87 + d
HexStr(n) == IF n < 16 THEN <<HexD(n)>> ELSE <<HexD(n \div 16), HexD(n % 16)>>
StatusLine == <<72, 84, 84, 80, 47, 49, 46, 49, 32>> \o Dec3(com.status) \o <<32, 88>> \o CRLF
FieldLine(n, v) == n \o <<58, 32>> \o v \o CRLF
HdrLines(h) == FoldLeft(LAMBDA acc, e : acc \o FieldLine(e.name, e.value), <<>>, h)
RefWire(f, body) ==
    StatusLine \o HdrLines(DropName(com.hdr, N_content_length))
    \o (CASE f = "cl" -> FieldLine(N_content_length, DecStr(IF com.ecl # NoCL THEN com.ecl ELSE Len(sent))) \o CRLF \o body
          [] f = "chunked" -> FieldLine(N_transfer_encoding, V_chunked) \o CRLF
                              \o (IF body = <<>> THEN <<>> ELSE HexStr(Len(body)) \o CRLF \o body \o CRLF)
                              \o <<48>> \o CRLF \o CRLF
          [] OTHER -> CRLF \o body)

Completed == outcome = "complete"
(* every legitimate serialization of a complete obligation is accepted *)
RefAccepted ==
    Completed /\ run = "ended" =>
        /\ (com.ecl = NoCL \/ NoBody \/ com.ecl = Len(sent)) => Conforms(ParseResp(RefWire("cl", ExpBody), FALSE, IsHead), FALSE)
        /\ ~NoBody /\ com.ecl = NoCL => Conforms(ParseResp(RefWire("chunked", ExpBody), FALSE, IsHead), FALSE)
        /\ com.ecl = NoCL => Conforms(ParseResp(RefWire("close", ExpBody), TRUE, IsHead), TRUE)
(* ... and the classic mis-framings are refused *)
MisframingRefused ==
    Completed /\ run = "ended" =>
        /\ ~NoBody /\ com.ecl = NoCL => ~Conforms(ParseResp(RefWire("close", ExpBody), FALSE, IsHead), FALSE)      \* undelimited and left open
        /\ ~Conforms(ParseResp(RefWire("cl", ExpBody \o <<120>>), FALSE, IsHead), FALSE)     \* a byte beyond the message
        /\ ~NoBody => ~Conforms(ParseResp(RefWire("chunked", ExpBody \o <<120>>), FALSE, IsHead), FALSE)
        /\ (NoBody /\ ~IsHead) => ~Conforms(ParseResp(RefWire("close", <<120>>), TRUE, IsHead), TRUE)                    \* body with 204 / 304
        /\ ~NoBody /\ Len(sent) > 0 /\ com.ecl = NoCL => ~Conforms(ParseResp(RefWire("cl", SubSeq(sent, 1, Len(sent) - 1)), TRUE, IsHead), TRUE)

(* Properties of the obligation itself *)
TypeOK ==
    /\ run \in {"running", "raised", "ended"}
    /\ outcome \in {"open", "complete", "error", "aborted"}
    /\ hw \in BOOLEAN /\ fin \in BOOLEAN
TerminalHasOutcome == run # "running" => outcome # "open"
FinishedIsComplete == fin <=> outcome = "complete"
CommittedOnce == [][hw => com' = com]_vars
OutcomeSticky == [][outcome # "open" => outcome' = outcome]_vars
NoBodyObligation == Completed /\ (IsHead \/ com.status \in {204, 304}) => ExpBody = <<>>
ExplicitLengthHonoured == Completed /\ com.ecl # NoCL /\ ~IsHead /\ ~NoBodyStatus(com.status) => Len(sent) = com.ecl
NothingAfterFinish == [][fin => sent' = sent /\ com' = com]_vars
SubstitutionOnlyOnMatch == com.subst => (com.status = 304 /\ EtagHit /\ cfg.method \in {"GET", "HEAD"})

StateBound == Len(sent) + Len(buf) <= MaxBody /\ Len(hdr) <= MaxHdr /\ bufw <= 2
View == vars
=============================================================================
