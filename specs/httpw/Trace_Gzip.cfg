SPECIFICATION TraceSpec
CONSTANTS
  Methods = {"GET"}
  Versions = {"1.1"}
  CTypes = {"default"}
  AEs = {"absent"}
  Pres = {"none"}
  Resps = {"200"}
  Lens = {0}
  Fill = 97
  MaxOps = 100000
CONSTRAINT Report
INVARIANT EndedIsFinished
PROPERTY NothingAfterFinish
CHECK_DEADLOCK FALSE
