---------------------------- MODULE HeaderInject ----------------------------
(***************************************************************************)
(* C07 - application data cannot inject header lines or split a response.  *)
(*                                                                         *)
(* cfg = [api, x]: one header-producing API path and the application string*)
(* x (sequence of code points; bytes for the bytes-typed path).  The single*)
(* action Call is the handler making that call and then finishing a fixed  *)
(* small response.  The contract leaves two outcomes:                      *)
(*   rejected - the call (or the finish that serializes it) raised; the    *)
(*              client then gets the error response or an aborted          *)
(*              connection, in any case no header line that a benign       *)
(*              response would not have;                                   *)
(*   emitted  - the strict reader finds exactly one complete message whose *)
(*              header block is the block of the benign baseline response  *)
(*              with exactly the intended line in place of the benign one  *)
(*              (Intended below), same status and same body.               *)
(* MustRaise(api, x) holds when no emission can be correct: a byte that is *)
(* not a legal field byte (CR, LF, NUL, other controls, DEL) or a code     *)
(* point that has no byte, a non-token header name, a cookie attribute that*)
(* would open a new attribute.  Benign inputs (letters only) must be       *)
(* accepted - this keeps the check from being satisfied by a harness that  *)
(* makes every call fail.                                                  *)
(* The reader refuses any control byte in the header block, so "no CR, LF  *)
(* or NUL reaches the wire inside the header block" is part of `emitted`.  *)
(***************************************************************************)
EXTENDS RespReader

CONSTANTS Apis, Alphabet, MaxLen, EmbedChars

VARIABLES cfg, called, step
vars == <<cfg, called>>

Strings(n) == UNION {[1..k -> Alphabet] : k \in 0..n}
Embedded == {<<97>> \o <<c>> \o <<98>> : c \in EmbedChars} \cup {<<c, 97, 98>> : c \in EmbedChars}
            \cup {<<97, 98, c>> : c \in EmbedChars}

IsCtl(c) == c < 32 \/ c = 127
IsFieldCp(c) == c < 256 /\ IsFieldByte(c)
IsTokenCp(c) == c < 128 /\ IsTchar(c)
AllCp(x, T(_)) == \A i \in 1..Len(x) : T(x[i])
AnyCp(x, T(_)) == \E i \in 1..Len(x) : T(x[i])

ValueApis == {"set_header_str", "set_header_bytes", "add_header_value"}
NameApis == {"set_header_name", "add_header_name"}
AttrApis == {"cookie_domain", "cookie_path", "cookie_samesite"}
(* reason phrase: through RequestHandler.set_status, through a direct HTTPConnection.write_headers call of a
   request-callback application, and through the status string of a WSGI application (WSGIContainer) *)
ReasonApis == {"status_reason", "conn_reason", "wsgi_reason"}

MustRaise(api, x) ==
    CASE api \in ValueApis -> ~AllCp(x, IsFieldCp)
      [] api \in NameApis -> x = <<>> \/ ~AllCp(x, IsTokenCp)
      [] api = "status_reason" -> FALSE                       \* may be replaced by a safe phrase instead
      [] api \in {"conn_reason", "wsgi_reason"} -> AnyCp(x, LAMBDA c : IsCtl(c) /\ c # 9)
      [] api = "cookie_name" -> x = <<>> \/ AnyCp(x, LAMBDA c : IsCtl(c) \/ c > 126 \/ c \in {32, 59, 44, 61, 34, 92})
      [] api = "cookie_value" -> AnyCp(x, LAMBDA c : c \in {0, 10, 13} \/ c > 255)
      [] api \in AttrApis -> AnyCp(x, LAMBDA c : IsCtl(c) \/ c = 59 \/ c > 255)
      [] api = "redirect" -> AnyCp(x, LAMBDA c : IsCtl(c) /\ c # 9)
      [] OTHER -> FALSE

Benign(x) == x # <<>> /\ AllCp(x, LAMBDA c : c \in 97..122)
MustAccept(api, x) == Benign(x)

Proj == [called |-> called]
InitWith(c) ==
    /\ cfg = c
    /\ called = FALSE
    /\ step = [act |-> "init", args |-> <<>>, exp |-> [called |-> FALSE]]
InitState == \E a \in Apis, x \in Strings(MaxLen) \cup Embedded : InitWith([api |-> a, x |-> x])

Call ==
    /\ ~called
    /\ called' = TRUE
    /\ UNCHANGED cfg
    /\ step' = [act |-> "call", args |-> <<>>,
                exp |-> [called |-> TRUE, must_raise |-> MustRaise(cfg.api, cfg.x), must_accept |-> MustAccept(cfg.api, cfg.x)]]
Next == Call
Spec == InitState /\ [][Next]_<<vars, step>>

----------------------------------------------------------------------------
(* what the wire must look like *)
N_x_t == <<120, 45, 116>>
N_x_ok == <<120, 45, 111, 107>>
N_set_cookie == <<115, 101, 116, 45, 99, 111, 111, 107, 105, 101>>
N_location == <<108, 111, 99, 97, 116, 105, 111, 110>>
N_date == <<100, 97, 116, 101>>
B_unknown == <<85, 110, 107, 110, 111, 119, 110>>
B_n_eq == <<110, 61>>
B_path_root == <<59, 32, 80, 97, 116, 104, 61, 47>>
B_nv == <<110, 61, 118>>
B_nv_domain == <<110, 61, 118, 59, 32, 68, 111, 109, 97, 105, 110, 61>>
B_nv_path == <<110, 61, 118, 59, 32, 80, 97, 116, 104, 61>>
B_nv_samesite == <<110, 61, 118, 59, 32, 80, 97, 116, 104, 61, 47, 59, 32, 83, 97, 109, 101, 83, 105, 116, 101, 61>>
B_eq_v_path == <<61, 118, 59, 32, 80, 97, 116, 104, 61, 47>>
B_v == <<118>>

Utf8(x) == FoldLeft(LAMBDA acc, c : acc \o (IF c < 128 THEN <<c>>
                                            ELSE IF c < 2048 THEN <<192 + (c \div 64), 128 + (c % 64)>>
                                            ELSE <<224 + (c \div 4096), 128 + ((c \div 64) % 64), 128 + (c % 64)>>),
                <<>>, x)

(* the header name that carries the application string, in the recorded run and in the baseline *)
Carrier(api, x) == CASE api \in ValueApis -> N_x_t
                     [] api \in NameApis -> LowerSeq(x)
                     [] api \in ReasonApis -> <<>>
                     [] api = "redirect" -> N_location
                     [] OTHER -> N_set_cookie
Carrier0(api) == IF api \in NameApis THEN N_x_ok ELSE Carrier(api, <<>>)

Mask(h) == [k \in 1..Len(h) |-> IF h[k].name = N_date THEN [name |-> N_date, value |-> <<>>] ELSE h[k]]
DropNm(h, n) == SelectSeq(h, LAMBDA e : e.name # n)
HasSuffix(s, t) == Len(s) >= Len(t) /\ SubSeq(s, Len(s) - Len(t) + 1, Len(s)) = t
HasPrefix(s, t) == Len(s) >= Len(t) /\ SubSeq(s, 1, Len(t)) = t

IntendedOK(api, x, P) ==
    LET vs == ValuesOf(P.hdrs, Carrier(api, x)) IN
    CASE api \in ValueApis -> vs = <<Trim(x)>>
      [] api \in NameApis -> vs = <<B_v>>
      [] api = "status_reason" -> P.reason = x \/ P.reason = Utf8(x) \/ P.reason = B_unknown
      [] api \in {"conn_reason", "wsgi_reason"} -> P.reason = x \/ P.reason = Utf8(x)
      [] api = "redirect" -> vs = <<Trim(Utf8(x))>>
      [] api = "cookie_name" -> vs = <<x \o B_eq_v_path>>
      [] api = "cookie_value" ->
            /\ Len(vs) = 1 /\ HasPrefix(vs[1], B_n_eq) /\ HasSuffix(vs[1], B_path_root)
            /\ Len(vs[1]) >= Len(B_n_eq) + Len(B_path_root)
            /\ \A i \in (Len(B_n_eq) + 1)..(Len(vs[1]) - Len(B_path_root)) : vs[1][i] # 59
      [] api = "cookie_domain" -> vs = <<IF x = <<>> THEN B_nv \o B_path_root ELSE B_nv_domain \o x \o B_path_root>>
      [] api = "cookie_path" -> vs = <<IF x = <<>> THEN B_nv ELSE Trim(B_nv_path \o x)>>
      [] api = "cookie_samesite" -> vs = <<IF x = <<>> THEN B_nv \o B_path_root ELSE Trim(B_nv_samesite \o x)>>
      [] OTHER -> FALSE

(* emitted: one complete message = the baseline with the intended line *)
Emitted(api, x, P, P0) ==
    /\ P.ok /\ P.complete /\ P.rest = <<>>
    /\ P0.ok /\ P0.complete
    /\ P.code = P0.code /\ P.body = P0.body
    /\ api \notin ReasonApis => P.reason = P0.reason
    /\ Mask(DropNm(P.hdrs, Carrier(api, x))) = Mask(DropNm(P0.hdrs, Carrier0(api)))
    /\ IntendedOK(api, x, P)

(* rejected: whatever reaches the client has no header line the baseline does not have, and is one
   message (or an aborted connection) *)
Rejected(P, P0, eof) ==
    /\ P.ok /\ P.rest = <<>> /\ (P.complete \/ eof)
    /\ \A k \in 1..Len(P.hdrs) : \/ P.hdrs[k].name = N_content_length       \* the error page is length-framed
                                  \/ \E j \in 1..Len(P0.hdrs) : P0.hdrs[j].name = P.hdrs[k].name

Judge(raised, out, eof, out0) ==
    LET P == ParseResp(out, eof, FALSE)
        P0 == ParseResp(out0, FALSE, FALSE)
    IN
    /\ MustRaise(cfg.api, cfg.x) => raised
    /\ MustAccept(cfg.api, cfg.x) => ~raised
    \* a rejected call that put nothing at all on the wire damaged nothing (C07 does not say what the
    \* connection does afterwards: the WSGI container logs the error and leaves the connection open)
    /\ IF raised THEN (out = <<>> \/ Rejected(P, P0, eof)) ELSE Emitted(cfg.api, cfg.x, P, P0)

----------------------------------------------------------------------------
(* The specification's own writer: serializing the intended line of any input that need not be
   rejected never puts CR, LF or NUL into the header block, and the strict reader gets back exactly
   the intended line (TLC checks this for every enumerated (api, x)). *)
Line(api, x) ==
    CASE api \in ValueApis -> N_x_t \o <<58, 32>> \o x
      [] api \in NameApis -> x \o <<58, 32>> \o B_v
      [] api = "redirect" -> N_location \o <<58, 32>> \o Utf8(x)
      [] api = "cookie_name" -> N_set_cookie \o <<58, 32>> \o x \o B_eq_v_path
      [] api = "cookie_domain" -> N_set_cookie \o <<58, 32>> \o B_nv_domain \o x \o B_path_root
      [] api = "cookie_path" -> N_set_cookie \o <<58, 32>> \o B_nv_path \o x
      [] api = "cookie_samesite" -> N_set_cookie \o <<58, 32>> \o B_nv_samesite \o x
      [] OTHER -> N_x_t \o <<58, 32>> \o B_v
RefMsg(api, x) == <<72, 84, 84, 80, 47, 49, 46, 49, 32, 50, 48, 48, 32>>
                  \o (IF api \in ReasonApis /\ x # <<>> THEN x ELSE <<79, 75>>) \o <<13, 10>>
                  \o Line(api, x) \o <<13, 10>> \o N_content_length \o <<58, 32, 48, 13, 10, 13, 10>>
Serializable(api, x) == ~MustRaise(api, x) /\ AllCp(x, LAMBDA c : c < 256) /\ api # "cookie_value"
                        /\ (api \in ReasonApis => AllCp(x, IsFieldCp))
                        /\ (api \in AttrApis \cup {"cookie_name"} => x # <<>>)
WriterSafe ==
    Serializable(cfg.api, cfg.x) =>
        LET m == RefMsg(cfg.api, cfg.x)
            P == ParseResp(m, FALSE, FALSE)
        IN /\ \A i \in 1..Len(m) : m[i] \in {13, 10} => (i > 1 /\ ((m[i] = 10 /\ m[i - 1] = 13) \/ (m[i] = 13 /\ i < Len(m) /\ m[i + 1] = 10)))
           /\ \A i \in 1..Len(m) : m[i] # 0
           /\ P.ok /\ P.complete /\ P.rest = <<>> /\ Len(P.hdrs) = 2
           /\ IF cfg.api \in ReasonApis THEN cfg.x = <<>> \/ P.reason = cfg.x
              ELSE IntendedOK(cfg.api, cfg.x, P)
(* anything that must be rejected would indeed damage the header block if written naively *)
RejectionJustified ==
    (MustRaise(cfg.api, cfg.x) /\ AllCp(cfg.x, LAMBDA c : c < 256)
       /\ cfg.api \in ValueApis \cup NameApis \cup {"redirect", "conn_reason", "wsgi_reason"}) =>
        LET P == ParseResp(RefMsg(cfg.api, cfg.x), FALSE, FALSE)
        IN ~(P.ok /\ P.complete /\ Len(P.hdrs) = 2 /\ IntendedOK(cfg.api, cfg.x, P))
TypeOK == called \in BOOLEAN
View == vars
=============================================================================
