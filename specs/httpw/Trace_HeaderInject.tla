---------------------------- MODULE Trace_HeaderInject ----------------------------
(* {"id":n, "cfg":{"api":..,"x":[code points]},
    "ev":[{"a":"call","args":[],"obs":{"raised":b,"err":..}},
          {"a":"response","args":[],"obs":{"raised":b,"out":[..],"eof":b,"out0":[..]}}]}
   out = raw bytes of the response to the request whose handler made the call with x; out0 = raw
   bytes of the baseline (same call with a benign string).  Both are delimited by the strict
   reader inside TLC and compared (Judge). *)
EXTENDS HeaderInject, Json, IOUtils, TLCExt
Traces == ndJsonDeserialize(IOEnv.TRACE_FILE)
Verbose == IOEnv.TRACE_VERBOSE = "1"
VARIABLES tid, l
Ev == Traces[tid].ev
TraceInit ==
    /\ tid \in 1..Len(Traces)
    /\ l = 1
    /\ InitWith([api |-> Traces[tid].cfg.api, x |-> Traces[tid].cfg.x])
IsEvent(a) == l <= Len(Ev) /\ Ev[l].a = a /\ l' = l + 1 /\ UNCHANGED tid
TrCall == IsEvent("call") /\ Call
TrResponse ==
    /\ IsEvent("response")
    /\ called
    /\ Judge(Ev[l].obs.raised, Ev[l].obs.out, Ev[l].obs.eof, Ev[l].obs.out0)
    /\ UNCHANGED <<vars, step>>
TraceNext == TrCall \/ TrResponse
TraceSpec == TraceInit /\ [][TraceNext]_<<vars, step, tid, l>>
Report == IF Verbose THEN PrintT(<<"AT", Traces[tid].id, l>>)
          ELSE (l = Len(Ev) + 1 => PrintT(<<"ACCEPT", Traces[tid].id>>))
=============================================================================
