SPECIFICATION TraceSpec
CONSTANTS
  Apis = {"set_header_str", "set_header_bytes", "add_header_value", "set_header_name", "add_header_name", "status_reason", "cookie_name", "cookie_value", "cookie_domain", "cookie_path", "cookie_samesite", "redirect", "conn_reason", "wsgi_reason"}
  Alphabet = {0, 1, 9, 10, 13, 32, 34, 44, 58, 59, 60, 61, 92, 97, 127, 133, 233}
  MaxLen = 2
  EmbedChars = {0, 1, 9, 10, 13, 32, 34, 44, 58, 59, 60, 61, 92, 97, 127, 133, 233, 266, 269, 8232}
CONSTRAINT Report
INVARIANT TypeOK
CHECK_DEADLOCK FALSE
