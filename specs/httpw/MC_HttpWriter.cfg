SPECIFICATION Spec
CONSTANTS
  Methods = {"GET", "HEAD", "POST"}
  Versions = {"1.1"}
  Inms = {"absent", "match"}
  Statuses = {200, 204, 304, 404}
  HdrVals = {1}
  ClVals = {1, 3}
  ChunkIds = {0, 1, 2}
  MaxBody = 2
  InmVersions = {"1.1"}
  Prune = TRUE
  MaxHdr = 2
CONSTRAINT StateBound
VIEW View
INVARIANT TypeOK
INVARIANT TerminalHasOutcome
INVARIANT FinishedIsComplete
INVARIANT NoBodyObligation
INVARIANT ExplicitLengthHonoured
INVARIANT SubstitutionOnlyOnMatch
INVARIANT RefAccepted
INVARIANT MisframingRefused
PROPERTY CommittedOnce
PROPERTY OutcomeSticky
PROPERTY NothingAfterFinish
CHECK_DEADLOCK FALSE
