---------------------------- MODULE WsChannel ----------------------------
(***************************************************************************)
(* C14 - end-to-end statement: a WebSocket connection is a pair of FIFO    *)
(* message channels.  Whatever the negotiated permessage-deflate           *)
(* parameters, the masking direction, the way an intermediary re-fragments *)
(* the frames (control frames in the gaps) and the TCP segmentation, the   *)
(* receiving application gets exactly the messages the sending application *)
(* wrote, in order, with the same kind (text / binary).                    *)
(*                                                                         *)
(* Directions: "c2s" (client application -> server application, frames     *)
(* masked) and "s2c".  q[d] holds the messages written and not yet         *)
(* delivered, each with a flag telling whether its frame has been seen on  *)
(* the wire.  Actions:                                                     *)
(*   Send(d, m)        the application on the sending side writes m        *)
(*   Wire(d, h, n)     a frame with header bytes h and n payload bytes     *)
(*                     leaves the sender: it must be the single, final,    *)
(*                     canonically encoded frame of the oldest unframed    *)
(*                     message (what Tornado's writer produces)            *)
(*   Transfer(d, k, c, s)  the transport (harness: re-fragmentation into k *)
(*                     pieces, control frame kind c in every gap, TCP      *)
(*                     segmentation s) hands everything in flight to the   *)
(*                     receiver, which delivers it                         *)
(*   Deliver(d)        one message is delivered (trace validation grain)   *)
(* Msgs is the catalogue [id, kind, dlen]; message bytes live in the       *)
(* harness and are identified by content.                                  *)
(***************************************************************************)
EXTENDS WsFrameCodec, TLC

CONSTANTS Msgs, Deflates, MaxSend, PieceCounts, Ctls, Segs

VARIABLES cfg, sent, q, delivered, step
vars == <<cfg, sent, q, delivered>>
Dirs == {"c2s", "s2c"}
Ids(s) == [i \in 1..Len(s) |-> s[i].m]
Proj == [c2s |-> delivered["c2s"], s2c |-> delivered["s2c"]]
Obs(a, args) == [act |-> a, args |-> args, exp |-> Proj']

InitWith(c) ==
    /\ cfg = c
    /\ sent = [d \in Dirs |-> <<>>]
    /\ q = [d \in Dirs |-> <<>>]
    /\ delivered = [d \in Dirs |-> <<>>]
    /\ step = [act |-> "init", args |-> <<>>, exp |-> [c2s |-> <<>>, s2c |-> <<>>]]
InitState == \E c \in [deflate : Deflates] : InitWith(c)

Send(d, msg) ==
    /\ Len(sent[d]) < MaxSend
    /\ sent' = [sent EXCEPT ![d] = Append(@, msg.id)]
    /\ q' = [q EXCEPT ![d] = Append(@, [m |-> msg.id, kind |-> msg.kind, dlen |-> msg.dlen, framed |-> FALSE])]
    /\ UNCHANGED <<cfg, delivered>>
    /\ step' = Obs("send", <<d, msg.id>>)

Unframed(d) == {i \in 1..Len(q[d]) : ~q[d][i].framed}
(* what the writer must put on the wire for message m: one final frame, opcode by kind, RSV1
   exactly when deflate was negotiated, masked exactly in the client-to-server direction,
   minimal length encoding, payload length = message length unless compressed *)
FrameFor(d, m, h, n) ==
    LET f == DecodeHeader(h) IN
    /\ Len(h) = HeaderLen(h[2])
    /\ Canonical(h)
    /\ f.fin = 1
    /\ f.op = (IF m.kind = "text" THEN 1 ELSE 2)
    /\ f.rsv = (IF cfg.deflate THEN 4 ELSE 0)
    /\ f.masked = (IF d = "c2s" THEN 1 ELSE 0)
    /\ f.len = n
    /\ (~cfg.deflate => n = m.dlen)
Wire(d, h, n) ==
    /\ Unframed(d) # {}
    /\ LET i == CHOOSE i \in Unframed(d) : \A j \in Unframed(d) : i <= j IN
       /\ FrameFor(d, q[d][i], h, n)
       /\ q' = [q EXCEPT ![d][i].framed = TRUE]
    /\ UNCHANGED <<cfg, sent, delivered>>
    /\ step' = Obs("wire", <<d, h, n>>)

(* model-checking stand-in for the writer: the canonical frame for the oldest unframed message *)
WireCanon(d, n) ==
    /\ Unframed(d) # {}
    /\ LET i == CHOOSE i \in Unframed(d) : \A j \in Unframed(d) : i <= j
           m == q[d][i]
       IN /\ (~cfg.deflate => n = m.dlen)
          /\ Wire(d, EncodeHeader(Hdr(1, IF cfg.deflate THEN 4 ELSE 0, IF m.kind = "text" THEN 1 ELSE 2,
                                       IF d = "c2s" THEN 1 ELSE 0, n)), n)

Transfer(d, k, c, s) ==
    /\ q[d] # <<>>
    /\ delivered' = [delivered EXCEPT ![d] = @ \o Ids(q[d])]
    /\ q' = [q EXCEPT ![d] = <<>>]
    /\ UNCHANGED <<cfg, sent>>
    /\ step' = Obs("transfer", <<d, k, c, s>>)

Deliver(d) ==
    /\ q[d] # <<>>
    /\ q[d][1].framed
    /\ delivered' = [delivered EXCEPT ![d] = Append(@, q[d][1].m)]
    /\ q' = [q EXCEPT ![d] = Tail(@)]
    /\ UNCHANGED <<cfg, sent>>
    /\ step' = Obs("deliver", <<d>>)

Next == \/ \E d \in Dirs, m \in Msgs : Send(d, m)
        \/ \E d \in Dirs, k \in PieceCounts, c \in Ctls, s \in Segs : Transfer(d, k, c, s)
        \/ \E d \in Dirs : Deliver(d)
        \/ \E d \in Dirs, n \in {m.dlen : m \in Msgs} \cup {7} : WireCanon(d, n)
Spec == InitState /\ [][Next]_<<vars, step>>

(* C14 *)
InOrderPrefix == \A d \in Dirs : delivered[d] \o Ids(q[d]) = sent[d]
NothingInvented == \A d \in Dirs : Len(delivered[d]) <= Len(sent[d])
DeliveredGrowsOnly == [][\A d \in Dirs : Len(delivered'[d]) >= Len(delivered[d])
                          /\ SubSeq(delivered'[d], 1, Len(delivered[d])) = delivered[d]]_vars
View == vars
=============================================================================
