SPECIFICATION GenSpec
CONSTANTS
  Lens = {0, 1, 125, 126, 127, 255, 256, 65535, 65536, 65537, 70000, 16777216}
  Ops = {0, 1, 2, 8, 9, 10}
  Rsvs = {0, 4}
INVARIANT RoundTrip
INVARIANT HeaderLenOk
INVARIANT IsCanonical
INVARIANT NonMinimalRejected
CHECK_DEADLOCK FALSE
