SPECIFICATION TraceSpec
CONSTANTS
  Msgs = {}
  Deflates = {FALSE}
  MaxSend = 1000000
  PieceCounts = {1}
  Ctls = {"none"}
  Segs = {0}
CONSTRAINT Report
INVARIANT InOrderPrefix
INVARIANT NothingInvented
PROPERTY DeliveredGrowsOnly
CHECK_DEADLOCK FALSE
