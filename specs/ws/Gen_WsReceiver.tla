---------------------------- MODULE Gen_WsReceiver ----------------------------
(* Path enumeration for WsReceiver: every frame sequence up to length L (history in the state). *)
EXTENDS WsReceiver, Json, IOUtils
CONSTANT L
VARIABLE hist
CatalogSeq == ndJsonDeserialize(IOEnv.WS_CATALOG)
CatalogMsgs == {CatalogSeq[i] : i \in 1..Len(CatalogSeq)}
GenInit == InitState /\ hist = <<>>
GenNext == Next /\ hist' = Append(hist, step')
GenSpec == GenInit /\ [][GenNext]_<<vars, step, hist>>
GenBound == Len(hist) <= L
=============================================================================
