SPECIFICATION GenSpec
CONSTANTS
  MaskBytes = {0, 90, 255}
  BadLens = {0, 1, 3, 5, 8}
  MaxLen = 24
  NPat = 2
CHECK_DEADLOCK FALSE
