---------------------------- MODULE Trace_WsChannel ----------------------------
(* Validates sessions recorded on a real client <-> real server pair: one ndjson line per trace
   {"id", "cfg": {"deflate"}, "ev": [...]} with events
     {"a": "send", "args": [d, {"id", "kind", "dlen"}], "obs": P}    application wrote a message
     {"a": "wire", "args": [d, header bytes, payload length], "obs": P}  frame seen leaving the writer
     {"a": "deliver", "args": [d], "obs": P}                     receiving application got a message
   P = {"c2s": [ids delivered to the server], "s2c": [ids delivered to the client]}.
   Header bytes are interpreted by the TLA+ codec (Wire / FrameFor). *)
EXTENDS WsChannel, Json, IOUtils, TLCExt
Traces == ndJsonDeserialize(IOEnv.TRACE_FILE)
Verbose == IOEnv.TRACE_VERBOSE = "1"
VARIABLES tid, l
Ev == Traces[tid].ev
TraceInit ==
    /\ tid \in 1..Len(Traces)
    /\ l = 1
    /\ InitWith([deflate |-> Traces[tid].cfg.deflate])
IsEvent(a) == l <= Len(Ev) /\ Ev[l].a = a /\ l' = l + 1 /\ UNCHANGED tid
Bind == Proj' = Ev[l].obs
TrSend == IsEvent("send") /\ Send(Ev[l].args[1], [id |-> Ev[l].args[2].id, kind |-> Ev[l].args[2].kind, dlen |-> Ev[l].args[2].dlen]) /\ Bind
TrWire == IsEvent("wire") /\ Wire(Ev[l].args[1], Ev[l].args[2], Ev[l].args[3]) /\ Bind
TrDeliver == IsEvent("deliver") /\ Deliver(Ev[l].args[1]) /\ Bind
TraceNext == TrSend \/ TrWire \/ TrDeliver
TraceSpec == TraceInit /\ [][TraceNext]_<<vars, step, tid, l>>
Report == IF Verbose THEN PrintT(<<"AT", Traces[tid].id, l>>)
          ELSE (l = Len(Ev) + 1 => PrintT(<<"ACCEPT", Traces[tid].id>>))
=============================================================================
