SPECIFICATION GenSpec
CONSTANTS
  Msgs <- CatalogMsgs
  Deflates = {FALSE, TRUE}
  MaxSend = 3
  PieceCounts = {1, 3}
  Ctls = {"none", "ping"}
  Segs = {0}
  L = 4
CONSTRAINT GenBound
CHECK_DEADLOCK FALSE
