---------------------------- MODULE Gen_WsFrameCodec ----------------------------
(* Header table: every header over the field alphabets with its encoding and the decoding of
   that encoding.  TLC checks the round trip and the minimal-length rule on every row
   (invariants); the dump is the reference table for Tornado's frame writer and for the
   harness' own header plumbing. *)
EXTENDS WsFrameCodec, TLC
CONSTANTS Lens, Ops, Rsvs
VARIABLES h, bytes, dec
GenInit == /\ h \in {Hdr(f, r, o, m, n) : f \in {0, 1}, r \in Rsvs, o \in Ops, m \in {0, 1}, n \in Lens}
           /\ bytes = EncodeHeader(h)
           /\ dec = DecodeHeader(bytes)
GenNext == UNCHANGED <<h, bytes, dec>>
GenSpec == GenInit /\ [][GenNext]_<<h, bytes, dec>>
RoundTrip == dec = h
HeaderLenOk == Len(bytes) = HeaderLen(bytes[2])
IsCanonical == Canonical(bytes)
(* a non-minimal encoding of the same length is not canonical *)
NonMinimalRejected ==
    /\ (h.len < 126 => ~Canonical(<<bytes[1], h.masked * 128 + 126, 0, h.len>> \o h.key))
    /\ (h.len <= 65535 => ~Canonical(<<bytes[1], h.masked * 128 + 127, 0, 0, 0, 0, 0, 0, h.len \div 256, h.len % 256>> \o h.key))
=============================================================================
