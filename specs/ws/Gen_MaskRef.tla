---------------------------- MODULE Gen_MaskRef ----------------------------
(* Function-like generation (ctx.gen_states): Init enumerates (mask, payload) inputs - 4-byte
   masks over MaskBytes, masks of the wrong lengths in BadLens, payloads of every length
   0..MaxLen in NPat patterns - and the state holds the reference result MaskCall(mask, data).
   Every dumped state is one test case for both the compiled and the pure-python function. *)
EXTENDS MaskRef
CONSTANTS MaskBytes, BadLens, MaxLen, NPat
VARIABLES mask, data, res
Special == <<0, 1, 90, 128, 255>>
Pat(n, r) == [i \in 1..n |-> IF r = 0 THEN Special[((i - 1) % 5) + 1]
                             ELSE (i * (2 * r + 1) * 29 + r * 53) % 256]
GoodMasks == [1..4 -> MaskBytes]
BadMasks == {[i \in 1..n |-> Special[((i - 1) % 5) + 1]] : n \in BadLens}
GenInit == /\ mask \in GoodMasks \cup BadMasks
           /\ data \in {Pat(n, r) : n \in 0..MaxLen, r \in 0..(NPat - 1)}
           /\ res = MaskCall(mask, data)
GenNext == UNCHANGED <<mask, data, res>>
GenSpec == GenInit /\ [][GenNext]_<<mask, data, res>>
=============================================================================
