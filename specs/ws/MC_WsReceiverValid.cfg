SPECIFICATION Spec
CONSTANTS
  Msgs <- CatalogMsgs
  Deflates = {FALSE, TRUE}
  MaxMsgs = {10485760}
  CtlLens = {0, 125}
  PieceKinds = {"half"}
  Viols = {}
  BadOps = {}
  MaxAfter = 1
  MaxDelivered = 2
VIEW View
INVARIANT TypeOK
INVARIANT ViolationAborts
INVARIANT OnlyViolationAborts
INVARIANT DeliveredAreCompleted
INVARIANT SizeAnnounced
PROPERTY NothingAfterEnd
PROPERTY OverIsFinal
CONSTRAINT StateBound
CHECK_DEADLOCK FALSE
