SPECIFICATION GenSpec
CONSTANTS
  Roles = {"server", "client"}
  Pings = {FALSE, TRUE}
  Asyncs = {FALSE, TRUE}
  PeerCloses <- McPeerCloses
  LocalCloses <- McLocalCloses
  MaxMsgs = 2
  L = 4
CONSTRAINT GenBound
CHECK_DEADLOCK FALSE
