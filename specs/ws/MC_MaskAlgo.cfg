SPECIFICATION Spec
CONSTANTS
  MaskBytes = {0, 90, 255}
  MaxLen = 24
  NPat = 1
INVARIANT Partial
INVARIANT Correct
PROPERTY Termination
CHECK_DEADLOCK FALSE
