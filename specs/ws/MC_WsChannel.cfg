SPECIFICATION Spec
CONSTANTS
  Msgs <- McMsgs
  Deflates = {FALSE, TRUE}
  MaxSend = 3
  PieceCounts = {1, 3}
  Ctls = {"none", "ping"}
  Segs = {0}
VIEW View
INVARIANT InOrderPrefix
INVARIANT NothingInvented
PROPERTY DeliveredGrowsOnly
CHECK_DEADLOCK FALSE
