------------------------------ MODULE WsClose ------------------------------
(***************************************************************************)
(* C16 - the WebSocket closing handshake of one endpoint (the real         *)
(* Tornado side, server or client role) against an arbitrary peer, with    *)
(* virtual-time timers.                                                    *)
(*                                                                         *)
(* One action = one application call, one transport event or one timer     *)
(* expiry, followed by running the endpoint to quiescence.  The endpoint   *)
(* has a receive loop that processes incoming items in order; while an     *)
(* asynchronous on_message is running (inflight) the loop is suspended and *)
(* incoming items queue up in `inbox` (a disconnect too: it is only seen   *)
(* when the loop reads again).                                             *)
(*                                                                         *)
(* Timers: closing timeout CloseWait after the endpoint's own close frame; *)
(* optional keep-alive: a ping every PingInterval, the pong must have been *)
(* processed PingTimeout later or the endpoint starts closing.  Time only  *)
(* advances to the next deadline (Advance).                                *)
(***************************************************************************)
EXTENDS Integers, Sequences, FiniteSets, TLC

CONSTANTS Roles,          \* subset of {"server", "client"}
          Pings,          \* subset of BOOLEAN: keep-alive pings configured?
          Asyncs,         \* subset of BOOLEAN: on_message asynchronous (suspends the loop)?
          PeerCloses,     \* close frames the peer may send: <<code, reasonKind>>, code 0 = none
          LocalCloses,    \* close(code, reason) calls of the application: <<code, hasReason>>
          MaxMsgs         \* bound on data messages in either direction (state constraint)

CloseWait == 5
PingInterval == 7
PingTimeout == 3
NoTimer == 999

VARIABLES cfg,
          st,          \* endpoint state (record, see InitWith)
          inbox,       \* items received by the transport, not yet processed by the loop
          peerClosed,  \* the peer has sent its close frame
          peerGone,    \* the peer has disconnected
          step

vars == <<cfg, st, inbox, peerClosed, peerGone>>

ReasonClass(rk) == IF rk = "valid" THEN "valid" ELSE IF rk = "invalid" THEN "any" ELSE "none"

(* After a close frame with a malformed (non UTF-8) reason has been processed the endpoint must be
   gone and must have told the application once; whether it echoed a close frame first and which
   code / reason it reports is left open (an endpoint may fail the connection instead). *)
Open == 0 - 1
ProjOf(s) == LET m == s.recvReason = "any" IN
             [closeFrames |-> IF m THEN Open ELSE s.closeFrames, sentCode |-> IF m THEN Open ELSE s.sentCode,
              dataAfterClose |-> s.dataAfterClose,
              pings |-> s.pings, tcpOpen |-> s.tcpOpen, notified |-> s.notified, nCode |-> IF m THEN Open ELSE s.nCode,
              nReason |-> s.nReason, delivered |-> s.delivered, err |-> s.err]
Proj == ProjOf(st)

Init0 == [sentClose |-> FALSE,      \* a close frame was written
          sentCode |-> 0,           \* its status code (0: none)
          closing |-> FALSE,        \* the endpoint has started closing (own close, echo, or abort)
          appClosed |-> FALSE,      \* the application has called close()
          recvClose |-> FALSE, recvCode |-> 0, recvReason |-> "none",
          tcpOpen |-> TRUE,
          loopAlive |-> TRUE,
          inflight |-> FALSE,
          notified |-> 0, nCode |-> 0, nReason |-> "none",
          closeTimer |-> NoTimer,
          pingTimer |-> NoTimer, pingPhase |-> "off", gotPong |-> FALSE,
          closeFrames |-> 0, dataAfterClose |-> FALSE, pings |-> 0, delivered |-> 0, written |-> 0,
          err |-> "none"]

----------------------------------------------------------------------------
(* endpoint internals as functions on the state record *)

StopPing(s) == [s EXCEPT !.pingTimer = NoTimer, !.pingPhase = IF s.pingPhase = "off" THEN "off" ELSE "stopped"]

(* tear the transport down (abort, or both sides have closed) *)
CloseTcp(s) == StopPing([s EXCEPT !.tcpOpen = FALSE, !.closeTimer = NoTimer, !.closing = TRUE])

(* write the endpoint's close frame if it has not been written and the transport is open *)
WriteClose(s, code) ==
    IF s.sentClose \/ s.closing \/ ~s.tcpOpen THEN [s EXCEPT !.closing = TRUE]
    ELSE [s EXCEPT !.sentClose = TRUE, !.sentCode = code, !.closeFrames = s.closeFrames + 1, !.closing = TRUE]

(* protocol-level close(code): own close frame, then either tear down (peer already closed) or
   wait CloseWait for the peer *)
ProtoClose(s, code) ==
    LET a == StopPing(WriteClose(s, code)) IN
    IF a.recvClose \/ ~a.tcpOpen THEN CloseTcp(a)
    ELSE IF a.closeTimer = NoTimer THEN [a EXCEPT !.closeTimer = CloseWait] ELSE a

Notify(s) == [s EXCEPT !.loopAlive = FALSE, !.notified = s.notified + 1, !.nCode = s.recvCode, !.nReason = s.recvReason]

(* one incoming item processed by the running loop *)
Process(s, it) ==
    IF it.t = "eof" THEN CloseTcp(s)
    ELSE IF it.t = "msg" THEN [s EXCEPT !.delivered = s.delivered + 1, !.inflight = cfg.async]
    ELSE IF it.t = "pong" THEN [s EXCEPT !.gotPong = TRUE]
    ELSE \* close frame: remember code / reason, echo the code unless the own close frame is out, tear down, notify
        LET a == [s EXCEPT !.recvClose = TRUE, !.recvCode = it.code, !.recvReason = ReasonClass(it.rk)]
        IN Notify(CloseTcp(WriteClose(a, it.code)))

(* run the receive loop to quiescence *)
RECURSIVE Run(_, _)
Run(s, box) ==
    IF ~s.loopAlive \/ s.inflight THEN <<s, box>>
    ELSE IF ~s.tcpOpen THEN <<Notify(s), <<>>>>
    ELSE IF box = <<>> THEN <<s, box>>
    ELSE Run(Process(s, Head(box)), Tail(box))

Settle(s, box) ==
    LET r == Run(s, box) IN
    /\ st' = r[1]
    /\ inbox' = r[2]

----------------------------------------------------------------------------
(* actions *)

InitWith(c) ==
    /\ cfg = c
    /\ st = IF c.ping THEN [Init0 EXCEPT !.pingTimer = PingInterval, !.pingPhase = "sleep"] ELSE Init0
    /\ inbox = <<>>
    /\ peerClosed = FALSE
    /\ peerGone = FALSE
    /\ step = [act |-> "init", args |-> <<>>, exp |-> ProjOf(Init0)]
(* the client API has no asynchronous on_message (its callback's result is ignored): async only for the server *)
InitState == \E c \in [role : Roles, ping : Pings, async : Asyncs] : (c.role = "client" => ~c.async) /\ InitWith(c)

Obs(a, args) == [act |-> a, args |-> args, exp |-> ProjOf(st')]
Clr(s) == [s EXCEPT !.err = "none"]

(* the application closes: close(code, reason); a second call does nothing *)
LocalClose(code, hasReason) ==
    /\ LET s == Clr(st) IN
       IF s.appClosed THEN Settle(s, inbox)
       ELSE Settle(ProtoClose([s EXCEPT !.appClosed = TRUE], IF code = 0 /\ hasReason THEN 1000 ELSE code), inbox)
    /\ UNCHANGED <<cfg, peerClosed, peerGone>>
    /\ step' = Obs("close", <<code, hasReason>>)

(* the application writes a message *)
AppWrite ==
    /\ st.written < MaxMsgs
    /\ LET s == Clr(st) IN
       IF s.closing \/ s.appClosed \/ ~s.tcpOpen \/ s.recvClose
         THEN Settle([s EXCEPT !.err = "WebSocketClosedError"], inbox)
         ELSE Settle([s EXCEPT !.written = s.written + 1], inbox)
    /\ UNCHANGED <<cfg, peerClosed, peerGone>>
    /\ step' = Obs("write", <<>>)

PeerCanSend == ~peerGone /\ ~peerClosed /\ st.tcpOpen
PeerSends(it) == Settle(Clr(st), Append(inbox, it))

MessageArrives ==
    /\ PeerCanSend /\ st.delivered + Len(SelectSeq(inbox, LAMBDA x : x.t = "msg")) < MaxMsgs
    /\ PeerSends([t |-> "msg"])
    /\ UNCHANGED <<cfg, peerClosed, peerGone>>
    /\ step' = Obs("msg", <<>>)

PongArrives ==
    /\ PeerCanSend /\ cfg.ping /\ ~st.gotPong        \* (unsolicited pongs are legal; only generated when keep-alive is on)
    /\ \A i \in 1..Len(inbox) : inbox[i].t # "pong"
    /\ PeerSends([t |-> "pong"])
    /\ UNCHANGED <<cfg, peerClosed, peerGone>>
    /\ step' = Obs("pong", <<>>)

PeerCloseFrame(code, rk) ==
    /\ PeerCanSend
    /\ PeerSends([t |-> "close", code |-> code, rk |-> rk])
    /\ peerClosed' = TRUE
    /\ UNCHANGED <<cfg, peerGone>>
    /\ step' = Obs("peerclose", <<code, rk>>)

(* The peer disconnects.  Not generated while the loop is suspended with nothing queued: whether an
   idle stream notices a disconnect before the application reads again is not contractually
   defined (it depends on how the last read was satisfied); with items queued it is not noticed
   until the loop has consumed them. *)
PeerDisconnect ==
    /\ ~peerGone /\ st.tcpOpen
    /\ ~(st.inflight /\ inbox = <<>>)
    /\ PeerSends([t |-> "eof"])
    /\ peerGone' = TRUE
    /\ UNCHANGED <<cfg, peerClosed>>
    /\ step' = Obs("eof", <<>>)

(* the asynchronous on_message returns: the loop resumes *)
AsyncOnMessageReturns ==
    /\ st.inflight
    /\ Settle([Clr(st) EXCEPT !.inflight = FALSE], inbox)
    /\ UNCHANGED <<cfg, peerClosed, peerGone>>
    /\ step' = Obs("resume", <<>>)

(* time advances to the next deadline; what is due fires *)
Due(s) == IF s.closeTimer < s.pingTimer THEN s.closeTimer ELSE s.pingTimer
Fire(s) ==
    LET a == IF s.closeTimer = 0 THEN CloseTcp(s) ELSE s          \* closing timeout: abort
    IN IF a.pingTimer # 0 THEN a
       ELSE IF ~a.tcpOpen THEN StopPing(a)                        \* the keep-alive task dies on a closed transport
       ELSE IF a.pingPhase = "sleep" THEN                          \* PingDue
            [a EXCEPT !.pings = a.pings + 1, !.gotPong = FALSE, !.pingPhase = "wait", !.pingTimer = PingTimeout]
       ELSE IF a.pingPhase = "wait" THEN
            IF a.gotPong THEN [a EXCEPT !.pingPhase = "sleep", !.pingTimer = PingInterval - PingTimeout]
            ELSE ProtoClose(a, 1000)                               \* PingTimeout: close(reason = "ping timed out")
       ELSE a
Advance ==
    /\ Due(st) # NoTimer
    /\ LET d == Due(st)
           s == [Clr(st) EXCEPT !.closeTimer = IF st.closeTimer = NoTimer THEN NoTimer ELSE st.closeTimer - d,
                                !.pingTimer = IF st.pingTimer = NoTimer THEN NoTimer ELSE st.pingTimer - d]
       IN /\ Settle(Fire(s), inbox)
          /\ step' = [act |-> "advance", args |-> <<d>>, exp |-> ProjOf(st')]
    /\ UNCHANGED <<cfg, peerClosed, peerGone>>

Next ==
    \/ \E c \in LocalCloses : LocalClose(c[1], c[2])
    \/ AppWrite
    \/ MessageArrives
    \/ PongArrives
    \/ \E c \in PeerCloses : PeerCloseFrame(c[1], c[2])
    \/ PeerDisconnect
    \/ AsyncOnMessageReturns
    \/ Advance

Fairness == WF_vars(Advance) /\ WF_vars(AsyncOnMessageReturns)
Spec == InitState /\ [][Next]_<<vars, step>> /\ Fairness

----------------------------------------------------------------------------
(* Properties (C16) *)

AtMostOneCloseFrame == st.closeFrames <= 1
NoDataAfterClose == ~st.dataAfterClose
(* the close frame written in answer to the peer's carries the peer's code *)
EchoesPeerCode == [][(~st.sentClose /\ st'.sentClose /\ st'.recvClose) => st'.sentCode = st'.recvCode]_vars
NotifiedAtMostOnce == st.notified <= 1
NotifiedOnceFinal == [][st.notified = 1 => st'.notified = 1 /\ st'.nCode = st.nCode]_vars
NotifiedWithPeerCode == (st.notified = 1 /\ st.recvClose) => (st.nCode = st.recvCode /\ st.nReason = st.recvReason)
(* both sides closed => transport torn down *)
BothClosedTearsDown == (st.sentClose /\ st.recvClose) => ~st.tcpOpen
(* torn down and loop free => the application has been told *)
ClosedIsNotified == (~st.tcpOpen /\ ~st.inflight) => st.notified = 1
(* writes after closing fail *)
WriteAfterCloseFails == [][(step'.act = "write" /\ (st.closing \/ st.appClosed \/ ~st.tcpOpen)) => st'.err = "WebSocketClosedError"]_<<vars, step>>
(* liveness: once the endpoint's close frame is out the transport is eventually torn down *)
CloseTerminates == [](st.sentClose => <>(~st.tcpOpen))
EventuallyNotified == [](~st.tcpOpen => <>(st.notified = 1))

StateBound == st.written <= MaxMsgs /\ st.delivered <= MaxMsgs /\ Len(inbox) <= 4 /\ st.pings <= 3
View == vars
=============================================================================
