---------------------------- MODULE Gen_WsChannel ----------------------------
(* Path enumeration for the end-to-end channel: Send / Transfer sequences up to length L. *)
EXTENDS WsChannel, Json, IOUtils
CONSTANT L
VARIABLE hist
CatalogSeq == ndJsonDeserialize(IOEnv.WS_CATALOG)
CatalogMsgs == {[id |-> CatalogSeq[i].id, kind |-> CatalogSeq[i].kind, dlen |-> CatalogSeq[i].dlen] : i \in 1..Len(CatalogSeq)}
GenInit == InitState /\ hist = <<>>
GenStep == \/ \E d \in Dirs, m \in Msgs : Send(d, m)
           \/ \E d \in Dirs, k \in PieceCounts, c \in Ctls, s \in Segs : Transfer(d, k, c, s)
GenNext == GenStep /\ hist' = Append(hist, step')
GenSpec == GenInit /\ [][GenNext]_<<vars, step, hist>>
GenBound == Len(hist) <= L
=============================================================================
