---------------------------- MODULE WsHandshake ----------------------------
(***************************************************************************)
(* C17 - the opening handshake as a decision over header classes.          *)
(*                                                                         *)
(* A header alternative is a record [v |-> literal text sent on the wire   *)
(* ("-" = header absent), ...class tags...]; the class tags (is this       *)
(* Upgrade value "websocket" ignoring case?  does this Connection value    *)
(* list the token "upgrade"?  how does this Origin relate to this Host?)   *)
(* are assigned here by hand from RFC 6455 section 4 and are part of the   *)
(* specification.                                                          *)
(*                                                                         *)
(* Server: the handshake is completed (101) exactly when the required      *)
(* headers are there and the origin check passes; the default origin check *)
(* may only pass when Origin's host and port equal Host.  rel = "same":    *)
(* literally equal host[:port] -> must pass; "equiv": equal only after     *)
(* normalisation the property does not demand (explicit default port)      *)
(* -> either answer; "other": must be refused.  On 101 the response        *)
(* carries the RFC accept value (recomputed by the harness with hashlib),  *)
(* the subprotocol the application selected and a permessage-deflate       *)
(* response exactly if offered and enabled.                                *)
(*                                                                         *)
(* Client: connect succeeds exactly when the response is a 101 with the    *)
(* right Upgrade / Connection / accept value that negotiates only what     *)
(* was offered (extension, subprotocol).                                   *)
(*                                                                         *)
(* Rows with at most MaxDev non-default fields are enumerated (gen_states);*)
(* every state is one request / response with its expected verdict.        *)
(***************************************************************************)
EXTENDS Integers, Sequences, FiniteSets, TLC

CONSTANTS MaxDev, Sides

Absent == "-"

\* ---- server side alternatives (first element of each tuple is the default) ----
Upgrades == <<[v |-> "websocket", ok |-> TRUE], [v |-> "WebSocket", ok |-> TRUE], [v |-> "h2c", ok |-> FALSE],
              [v |-> "websocket2", ok |-> FALSE], [v |-> Absent, ok |-> FALSE]>>
Connections == <<[v |-> "Upgrade", ok |-> TRUE], [v |-> "keep-alive, Upgrade", ok |-> TRUE], [v |-> "upgrade", ok |-> TRUE],
                 [v |-> "keep-alive", ok |-> FALSE], [v |-> "upgraded", ok |-> FALSE], [v |-> Absent, ok |-> FALSE]>>
Keys == <<[v |-> "present", ok |-> TRUE], [v |-> "empty", ok |-> FALSE], [v |-> Absent, ok |-> FALSE]>>
Versions == <<[v |-> "13", ok |-> TRUE], [v |-> "8", ok |-> TRUE], [v |-> "12", ok |-> FALSE], [v |-> "14", ok |-> FALSE],
              [v |-> Absent, ok |-> FALSE]>>
\* (Host, Origin, relation)
Origins == <<[host |-> "example.com", v |-> Absent, legacy |-> Absent, rel |-> "absent"],
             [host |-> "example.com", v |-> "http://example.com", legacy |-> Absent, rel |-> "same"],
             [host |-> "example.com", v |-> "https://example.com", legacy |-> Absent, rel |-> "same"],
             [host |-> "example.com:8080", v |-> "http://example.com:8080", legacy |-> Absent, rel |-> "same"],
             [host |-> "example.com:8080", v |-> Absent, legacy |-> Absent, rel |-> "absent"],
             [host |-> "example.com", v |-> "http://EXAMPLE.com", legacy |-> Absent, rel |-> "same"],
             [host |-> "example.com", v |-> "http://example.com:80", legacy |-> Absent, rel |-> "equiv"],
             [host |-> "example.com:80", v |-> "http://example.com", legacy |-> Absent, rel |-> "equiv"],
             [host |-> "example.com", v |-> "http://example.com:8080", legacy |-> Absent, rel |-> "other"],
             [host |-> "example.com:8080", v |-> "http://example.com", legacy |-> Absent, rel |-> "other"],
             [host |-> "example.com:8080", v |-> "http://example.com:8081", legacy |-> Absent, rel |-> "other"],
             [host |-> "example.com", v |-> "http://evil.com", legacy |-> Absent, rel |-> "other"],
             [host |-> "example.com", v |-> "http://example.com.evil.com", legacy |-> Absent, rel |-> "other"],
             [host |-> "example.com", v |-> "http://evilexample.com", legacy |-> Absent, rel |-> "other"],
             [host |-> "example.com", v |-> "http://user@example.com", legacy |-> Absent, rel |-> "equiv"],
             [host |-> "example.com", v |-> "http://example.com@evil.com", legacy |-> Absent, rel |-> "other"],
             [host |-> "example.com", v |-> "http://", legacy |-> Absent, rel |-> "other"],
             [host |-> "example.com", v |-> "null", legacy |-> Absent, rel |-> "other"],
             [host |-> "example.com", v |-> "example.com", legacy |-> Absent, rel |-> "other"],
             \* an Origin header that is present decides, even with an empty value; the hybi-08 header
             \* Sec-WebSocket-Origin ("host" = the scheme + Host value) only counts when Origin is absent
             [host |-> "example.com", v |-> "", legacy |-> Absent, rel |-> "other"],
             [host |-> "example.com", v |-> "", legacy |-> "host", rel |-> "other"],
             [host |-> "example.com", v |-> Absent, legacy |-> "host", rel |-> "same"],
             [host |-> "example.com:8080", v |-> Absent, legacy |-> "host", rel |-> "same"],
             [host |-> "example.com", v |-> Absent, legacy |-> "http://evil.com", rel |-> "other"],
             [host |-> "example.com", v |-> Absent, legacy |-> "", rel |-> "other"],
             [host |-> "example.com", v |-> "http://example.com", legacy |-> "http://evil.com", rel |-> "same"],
             [host |-> "example.com", v |-> "http://evil.com", legacy |-> "host", rel |-> "other"]>>
\* subprotocol offers and what the application's policy selects from them
Subs == <<[offer |-> Absent, policy |-> "none", sel |-> Absent],
          [offer |-> "chat", policy |-> "none", sel |-> Absent],
          [offer |-> "chat", policy |-> "first", sel |-> "chat"],
          [offer |-> "chat, superchat", policy |-> "first", sel |-> "chat"],
          [offer |-> "chat, superchat", policy |-> "last", sel |-> "superchat"],
          [offer |-> "chat,superchat", policy |-> "last", sel |-> "superchat"],
          [offer |-> Absent, policy |-> "first", sel |-> Absent]>>
\* extension offers: does the offer contain an acceptable permessage-deflate offer?
Exts == <<[v |-> Absent, deflate |-> FALSE, clean |-> TRUE],
          [v |-> "permessage-deflate", deflate |-> TRUE, clean |-> TRUE],
          [v |-> "permessage-deflate; client_max_window_bits", deflate |-> TRUE, clean |-> TRUE],
          [v |-> "permessage-deflate; server_no_context_takeover; client_max_window_bits=10", deflate |-> TRUE, clean |-> TRUE],
          [v |-> "x-webkit-deflate-frame", deflate |-> FALSE, clean |-> TRUE],
          [v |-> "x-unknown, permessage-deflate", deflate |-> TRUE, clean |-> TRUE],
          [v |-> "permessage-deflate; bogus_parameter=1", deflate |-> FALSE, clean |-> FALSE],
          [v |-> "permessage-deflate; client_max_window_bits=7", deflate |-> FALSE, clean |-> FALSE],
          [v |-> "permessage-deflate; server_max_window_bits=16", deflate |-> FALSE, clean |-> FALSE],
          [v |-> "permessage-deflate; client_max_window_bits=x", deflate |-> FALSE, clean |-> FALSE],
          [v |-> "permessage-deflate; server_max_window_bits=7; client_max_window_bits=12, permessage-deflate", deflate |-> TRUE, clean |-> FALSE]>>
Enabled == <<FALSE, TRUE>>

(* index tuples with at most MaxDev non-default (index # 1) positions, built dimension by dimension *)
DevCount(t) == Cardinality({d \in DOMAIN t : t[d] # 1})
RECURSIVE Build(_, _, _)
Build(rows, d, lens) ==
    IF d > Len(lens) THEN rows
    ELSE Build(rows \cup {[r EXCEPT ![d] = v] : r \in {x \in rows : DevCount(x) < MaxDev}, v \in 2..lens[d]}, d + 1, lens)
Tuples(lens) == Build({[i \in 1..Len(lens) |-> 1]}, 1, lens)

ServerRows ==
    {[side |-> "server", upgrade |-> Upgrades[t[1]], connection |-> Connections[t[2]], key |-> Keys[t[3]], version |-> Versions[t[4]],
      origin |-> Origins[t[5]], sub |-> Subs[t[6]], ext |-> Exts[t[7]], enabled |-> Enabled[t[8]]] :
        t \in Tuples(<<Len(Upgrades), Len(Connections), Len(Keys), Len(Versions), Len(Origins), Len(Subs), Len(Exts), 2>>)}

Required(r) == r.upgrade.ok /\ r.connection.ok /\ r.key.ok /\ r.version.ok
ServerVerdict(r) ==
    [must101 |-> Required(r) /\ r.origin.rel \in {"absent", "same"} /\ r.ext.clean,
     may101 |-> Required(r) /\ r.origin.rel \in {"absent", "same", "equiv"},
     subprotocol |-> r.sub.sel,
     deflate |-> r.ext.deflate /\ r.enabled]

\* ---- client side alternatives: the server's answer to the real client ----
Statuses == <<101, 200, 400, 403>>
RespUpgrades == <<[v |-> "websocket", ok |-> TRUE], [v |-> "WebSocket", ok |-> TRUE], [v |-> "h2c", ok |-> FALSE], [v |-> Absent, ok |-> FALSE]>>
RespConnections == <<[v |-> "Upgrade", ok |-> TRUE], [v |-> "upgrade", ok |-> TRUE], [v |-> "close", ok |-> FALSE], [v |-> Absent, ok |-> FALSE]>>
Accepts == <<[v |-> "correct", ok |-> TRUE], [v |-> "wrong", ok |-> FALSE], [v |-> "otherkey", ok |-> FALSE], [v |-> Absent, ok |-> FALSE]>>
\* (client offers compression?, server's extension answer, acceptable?, must succeed?)
CExts == <<[offered |-> FALSE, v |-> Absent, ok |-> TRUE, clean |-> TRUE],
           [offered |-> TRUE, v |-> Absent, ok |-> TRUE, clean |-> TRUE],
           [offered |-> TRUE, v |-> "permessage-deflate", ok |-> TRUE, clean |-> TRUE],
           [offered |-> TRUE, v |-> "permessage-deflate; client_max_window_bits=10", ok |-> TRUE, clean |-> TRUE],
           [offered |-> FALSE, v |-> "permessage-deflate", ok |-> FALSE, clean |-> TRUE],
           [offered |-> TRUE, v |-> "x-unknown", ok |-> FALSE, clean |-> TRUE],
           [offered |-> FALSE, v |-> "x-unknown", ok |-> FALSE, clean |-> TRUE],
           [offered |-> TRUE, v |-> "permessage-deflate; bogus_parameter=1", ok |-> FALSE, clean |-> FALSE]>>
\* (client's subprotocol offers, server's selection, acceptable?)
CSubs == <<[offer |-> Absent, v |-> Absent, ok |-> TRUE],
           [offer |-> "chat", v |-> Absent, ok |-> TRUE],
           [offer |-> "chat", v |-> "chat", ok |-> TRUE],
           [offer |-> "chat,superchat", v |-> "superchat", ok |-> TRUE],
           [offer |-> "chat", v |-> "superchat", ok |-> FALSE],
           [offer |-> Absent, v |-> "chat", ok |-> FALSE],
           [offer |-> "chat,superchat", v |-> "chatx", ok |-> FALSE]>>

ClientRows ==
    {[side |-> "client", status |-> Statuses[t[1]], upgrade |-> RespUpgrades[t[2]], connection |-> RespConnections[t[3]],
      accept |-> Accepts[t[4]], ext |-> CExts[t[5]], sub |-> CSubs[t[6]]] :
        t \in Tuples(<<Len(Statuses), Len(RespUpgrades), Len(RespConnections), Len(Accepts), Len(CExts), Len(CSubs)>>)}

ClientValid(r) == r.status = 101 /\ r.upgrade.ok /\ r.connection.ok /\ r.accept.ok /\ r.ext.ok /\ r.sub.ok
ClientVerdict(r) ==
    [mustConnect |-> ClientValid(r) /\ r.ext.clean,
     mayConnect |-> ClientValid(r),
     subprotocol |-> r.sub.v]

VARIABLES row, exp
Init == /\ row \in (IF "server" \in Sides THEN ServerRows ELSE {}) \cup (IF "client" \in Sides THEN ClientRows ELSE {})
        /\ exp = IF row.side = "server" THEN ServerVerdict(row) ELSE ClientVerdict(row)
Next == UNCHANGED <<row, exp>>
Spec == Init /\ [][Next]_<<row, exp>>

\* ---- the property as invariants over the table ----
ServerExactly ==
    row.side = "server" =>
        /\ (exp.must101 => exp.may101)
        /\ (exp.may101 => Required(row))                             \* 101 only with the required headers
        /\ (exp.may101 => row.origin.rel # "other")                  \* ... and never across origins
        /\ (Required(row) /\ row.origin.rel \in {"absent", "same"} /\ row.ext.clean => exp.must101)
        /\ (exp.deflate => row.ext.deflate /\ row.enabled)           \* deflate only if offered and enabled
ClientExactly ==
    row.side = "client" =>
        /\ (exp.mustConnect => exp.mayConnect)
        /\ (exp.mayConnect => row.status = 101 /\ row.accept.ok /\ row.ext.ok /\ row.sub.ok)
        /\ (~row.ext.offered /\ row.ext.v # Absent => ~exp.mayConnect)    \* nothing that was not offered
        /\ (row.sub.v # Absent /\ row.sub.offer = Absent => ~exp.mayConnect)
=============================================================================
