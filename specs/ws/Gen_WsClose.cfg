SPECIFICATION GenSpec
CONSTANTS
  Roles = {"server", "client"}
  Pings = {FALSE, TRUE}
  Asyncs = {FALSE, TRUE}
  PeerCloses <- QuickPeerCloses
  LocalCloses <- QuickLocalCloses
  MaxMsgs = 2
  L = 4
CONSTRAINT GenBound
CHECK_DEADLOCK FALSE
