---------------------------- MODULE WsFrameCodec ----------------------------
(***************************************************************************)
(* RFC 6455 section 5.2 base framing: header bytes <-> header fields.      *)
(*                                                                         *)
(* A header is [fin, rsv, op, masked, len, key]: fin, masked in {0,1};     *)
(* rsv in 0..7 (RSV1 = 4, RSV2 = 2, RSV3 = 1); op in 0..15; len the        *)
(* payload length; key the 4 masking-key bytes (<<>> when not masked).     *)
(* Lengths 0..125 are carried in the 7-bit field, 126..65535 in 16 bits    *)
(* after the marker 126, larger ones in 64 bits after the marker 127; the  *)
(* minimal form MUST be used.  TLC integers are 32 bit, so only lengths    *)
(* below 2^31 are represented; the upper four bytes of the 64-bit form     *)
(* are zero for them and a header with a non-zero upper half decodes to    *)
(* TooLong.                                                                *)
(***************************************************************************)
EXTENDS Integers, Sequences

TooLong == 2147483647
DefaultKey == <<55, 250, 33, 61>>

IsControl(op) == op >= 8
BE2(n) == <<n \div 256, n % 256>>
BE4(n) == <<n \div 16777216, (n \div 65536) % 256, (n \div 256) % 256, n % 256>>

LenField(m, n) == IF n < 126 THEN <<m * 128 + n>>
                  ELSE IF n <= 65535 THEN <<m * 128 + 126>> \o BE2(n)
                  ELSE <<m * 128 + 127, 0, 0, 0, 0>> \o BE4(n)

EncodeHeader(h) == <<h.fin * 128 + h.rsv * 16 + h.op>> \o LenField(h.masked, h.len)
                   \o (IF h.masked = 1 THEN h.key ELSE <<>>)

(* number of header bytes announced by the first two bytes *)
ExtLen(b2) == LET l7 == b2 % 128 IN IF l7 = 126 THEN 2 ELSE IF l7 = 127 THEN 8 ELSE 0
HeaderLen(b2) == 2 + ExtLen(b2) + (IF b2 >= 128 THEN 4 ELSE 0)

(* decode a complete header (Len(b) = HeaderLen(b[2])) *)
DecodeHeader(b) ==
    LET l7 == b[2] % 128
        m == b[2] \div 128
        ext == ExtLen(b[2])
        n == IF l7 < 126 THEN l7
             ELSE IF l7 = 126 THEN b[3] * 256 + b[4]
             ELSE IF b[3] # 0 \/ b[4] # 0 \/ b[5] # 0 \/ b[6] # 0 \/ b[7] >= 128 THEN TooLong
             ELSE b[7] * 16777216 + b[8] * 65536 + b[9] * 256 + b[10]
    IN [fin |-> b[1] \div 128, rsv |-> (b[1] \div 16) % 8, op |-> b[1] % 16, masked |-> m, len |-> n,
        key |-> IF m = 1 THEN SubSeq(b, 3 + ext, 6 + ext) ELSE <<>>]

(* the minimal-length rule: the header re-encodes to itself *)
Canonical(b) == LET h == DecodeHeader(b) IN h.len # TooLong /\ EncodeHeader(h) = b

Hdr(fin, rsv, op, masked, len) ==
    [fin |-> fin, rsv |-> rsv, op |-> op, masked |-> masked, len |-> len,
     key |-> IF masked = 1 THEN DefaultKey ELSE <<>>]
=============================================================================
