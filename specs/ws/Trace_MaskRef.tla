---------------------------- MODULE Trace_MaskRef ----------------------------
(* Validates vectors recorded from the real masking functions against MaskRef.
   One ndjson line per batch: {"id":n, "cfg":{}, "ev":[{"a":"mask", "args":[mask, data],
   "obs":{"c":{"err":..,"res":[..]}, "py":{"err":..,"res":[..]}}}, ...]}: `c` is what the
   compiled speedups.websocket_mask returned for (mask, data), `py` what
   tornado.util._websocket_mask_python returned; both must equal MaskCall(mask, data). *)
EXTENDS MaskRef, Json, IOUtils, TLCExt
Traces == ndJsonDeserialize(IOEnv.TRACE_FILE)
Verbose == IOEnv.TRACE_VERBOSE = "1"
VARIABLES tid, l
Ev == Traces[tid].ev
TraceInit == tid \in 1..Len(Traces) /\ l = 1
IsEvent(a) == l <= Len(Ev) /\ Ev[l].a = a /\ l' = l + 1 /\ UNCHANGED tid
Same(o, r) == o.err = r.err /\ Len(o.res) = Len(r.res) /\ \A i \in 1..Len(r.res) : o.res[i] = r.res[i]
TrMask == /\ IsEvent("mask")
          /\ LET r == MaskCall(Ev[l].args[1], Ev[l].args[2]) IN
               Same(Ev[l].obs.c, r) /\ Same(Ev[l].obs.py, r)
TraceNext == TrMask
TraceSpec == TraceInit /\ [][TraceNext]_<<tid, l>>
Report == IF Verbose THEN PrintT(<<"AT", Traces[tid].id, l>>)
          ELSE (l = Len(Ev) + 1 => PrintT(<<"ACCEPT", Traces[tid].id>>))
=============================================================================
