SPECIFICATION Spec
CONSTANTS
  Msgs <- CatalogMsgs
  Deflates = {FALSE, TRUE}
  MaxMsgs = {130}
  CtlLens = {0, 125}
  PieceKinds = {"zero", "half"}
  Viols = {"rsv1", "rsv2", "rsv3", "badop", "badopfrag", "fragctl", "bigctl", "contnostart", "datainfrag"}
  BadOps = {3, 4, 5, 6, 7, 11, 12, 13, 14, 15}
  MaxAfter = 1
  MaxDelivered = 2
VIEW View
INVARIANT TypeOK
INVARIANT ViolationAborts
INVARIANT OnlyViolationAborts
INVARIANT DeliveredAreCompleted
INVARIANT SizeAnnounced
PROPERTY NothingAfterEnd
PROPERTY OverIsFinal
CONSTRAINT StateBound
CHECK_DEADLOCK FALSE
