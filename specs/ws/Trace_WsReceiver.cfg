SPECIFICATION TraceSpec
CONSTANTS
  Msgs <- CatalogMsgs
  Deflates = {FALSE}
  MaxMsgs = {1}
  CtlLens = {0}
  PieceKinds = {}
  Viols = {}
  BadOps = {}
  MaxAfter = 0
  MaxDelivered = 0
CONSTRAINT Report
INVARIANT TypeOK
INVARIANT ViolationAborts
INVARIANT OnlyViolationAborts
INVARIANT DeliveredAreCompleted
INVARIANT SizeAnnounced
PROPERTY NothingAfterEnd
PROPERTY OverIsFinal
CHECK_DEADLOCK FALSE
