---------------------------- MODULE Gen_WsClose ----------------------------
(* Path enumeration for WsClose: every action sequence up to length L. *)
EXTENDS WsClose
CONSTANT L
VARIABLE hist
McPeerCloses == {<<0, "none">>, <<0, "onebyte">>, <<1000, "none">>, <<3000, "valid">>, <<1001, "invalid">>}
McLocalCloses == {<<0, FALSE>>, <<1001, FALSE>>, <<0, TRUE>>, <<3001, TRUE>>}
QuickPeerCloses == {<<0, "none">>, <<3000, "valid">>, <<1001, "invalid">>}
QuickLocalCloses == {<<0, FALSE>>, <<3001, TRUE>>}
GenInit == InitState /\ hist = <<>>
GenNext == Next /\ hist' = Append(hist, step')
GenSpec == GenInit /\ [][GenNext]_<<vars, step, hist>>
GenBound == Len(hist) <= L
=============================================================================
