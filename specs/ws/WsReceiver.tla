---------------------------- MODULE WsReceiver ----------------------------
(***************************************************************************)
(* Reference receiver of RFC 6455 frames with permessage-deflate (RFC 7692)*)
(* and a maximum message size (properties C14 and C15).                    *)
(*                                                                         *)
(* One action = the peer sends one frame and the receiver processes it.    *)
(* The peer side is described independently of the receiver: it keeps the  *)
(* list `completed` of messages it has finished sending while it had not   *)
(* yet committed a violation, and it tags each frame it sends with the     *)
(* violation it knowingly commits ("none" for a permitted frame).  The     *)
(* receiver side is the RFC state machine over header fields.  The         *)
(* properties relate the two views:                                        *)
(*   - a violation is answered by an abort and nothing else is (C15);      *)
(*   - what was delivered is exactly what the peer completed before its    *)
(*     first violation, same kinds, same order (C14, C15);                 *)
(*   - size violations are announced with close code 1009 (C15).           *)
(*                                                                         *)
(* Payloads are symbolic.  Msgs is a catalogue of messages [id, kind,      *)
(* dlen, wlen, comp, utf8ok]: decoded length, length on the wire (equal to *)
(* dlen unless comp, in which case the harness obtained it from zlib - an  *)
(* opaque codec), whether the decoded bytes are valid UTF-8.  A data frame *)
(* carries bytes lo .. lo+len-1 of the wire form of message `mid`.         *)
(* Control frames carry filler bytes (mid = 0).                            *)
(***************************************************************************)
EXTENDS WsFrameCodec, FiniteSets, TLC

CONSTANTS Msgs,        \* message catalogue
          MaxDelivered,\* state constraint for exhaustive checking
          Deflates,    \* subset of BOOLEAN: permessage-deflate negotiated?
          MaxMsgs,     \* max_message_size values
          CtlLens,     \* payload lengths of pings
          PieceKinds,  \* subset of {"zero", "one", "half", "rest1"}: how the peer may cut the rest of a message
          Viols,       \* violation kinds the peer may commit
          BadOps,      \* reserved opcodes the peer may use
          MaxAfter     \* frames the peer may still send after the connection is over

VARIABLES cfg,        \* [deflate, maxMsg]
          frag,       \* receiver: message being reassembled [op, comp, cum, id]; op = 0: none
          delivered,  \* receiver: messages handed to the application, <<[kind, id]>>
          aborted,    \* receiver: connection was failed
          sent1009,   \* receiver: a close frame with code 1009 was written before the abort
          pongs,      \* receiver: payload lengths of the pongs it wrote
          gotClose,   \* receiver: a close frame arrived (reading stops)
          completed,  \* peer: messages completely sent before any violation
          violated,   \* peer: kind of the first violation committed ("none")
          after,      \* peer: frames sent after the end of the connection
          step

vars == <<cfg, frag, delivered, aborted, sent1009, pongs, gotClose, completed, violated, after>>

NoFrag == [op |-> 0, comp |-> FALSE, cum |-> 0, id |-> 0]
MsgById(i) == CHOOSE m \in Msgs : m.id = i
OpOf(kind) == IF kind = "text" THEN 1 ELSE 2
KindOf(op) == IF op = 1 THEN "text" ELSE "binary"
Over == aborted \/ gotClose

Proj == [delivered |-> delivered, closed |-> Over, sent1009 |-> sent1009, pongs |-> pongs]

(* a frame as the harness needs it: header fields, payload slice, header bytes of the codec in
   both masking directions *)
Frame(fin, rsv, op, len, mid, lo) ==
    [fin |-> fin, rsv |-> rsv, op |-> op, len |-> len, mid |-> mid, lo |-> lo,
     hm |-> EncodeHeader(Hdr(fin, rsv, op, 1, len)),
     hu |-> EncodeHeader(Hdr(fin, rsv, op, 0, len))]

----------------------------------------------------------------------------
(* The receiver: effect of one frame on a live connection *)

Reserved(op) == op \in (3..7) \cup (11..15)

Malformed(f) ==
    \/ f.rsv % 4 # 0                                           \* RSV2 / RSV3: no extension defines them
    \/ (f.rsv >= 4 /\ ~(cfg.deflate /\ f.op \in {1, 2}))       \* RSV1 only on the first frame of a data message, only with deflate
    \/ Reserved(f.op)
    \/ (IsControl(f.op) /\ (f.fin = 0 \/ f.len > 125))
    \/ (f.op = 0 /\ frag.op = 0)                               \* continuation of nothing
    \/ (f.op \in {1, 2} /\ frag.op # 0)                        \* new message inside a fragmented one

Abort(with1009) ==
    /\ aborted' = TRUE
    /\ sent1009' = with1009
    /\ frag' = NoFrag
    /\ UNCHANGED <<delivered, pongs, gotClose>>

Receive(f) ==
    IF Malformed(f) THEN Abort(FALSE)
    ELSE IF f.op = 8 THEN
        /\ gotClose' = TRUE
        /\ UNCHANGED <<frag, delivered, aborted, sent1009, pongs>>
    ELSE IF f.op = 9 THEN
        /\ pongs' = Append(pongs, f.len)
        /\ UNCHANGED <<frag, delivered, aborted, sent1009, gotClose>>
    ELSE IF f.op = 10 THEN
        UNCHANGED <<frag, delivered, aborted, sent1009, pongs, gotClose>>
    ELSE
        LET nf == IF f.op = 0 THEN [frag EXCEPT !.cum = frag.cum + f.len]
                  ELSE [op |-> f.op, comp |-> f.rsv >= 4, cum |-> f.len, id |-> f.mid]
            m == MsgById(nf.id)
        IN IF nf.cum > cfg.maxMsg THEN Abort(TRUE)                             \* too big on the wire
           ELSE IF f.fin = 0 THEN
                /\ frag' = nf
                /\ UNCHANGED <<delivered, aborted, sent1009, pongs, gotClose>>
           ELSE IF nf.comp /\ m.dlen > cfg.maxMsg THEN Abort(TRUE)             \* too big after decompression
           ELSE IF nf.op = 1 /\ ~m.utf8ok THEN Abort(FALSE)                    \* text must be UTF-8
           ELSE /\ delivered' = Append(delivered, [kind |-> KindOf(nf.op), id |-> nf.id])
                /\ frag' = NoFrag
                /\ UNCHANGED <<aborted, sent1009, pongs, gotClose>>

----------------------------------------------------------------------------
(* The peer *)

Usable == {m \in Msgs : m.comp => cfg.deflate}
Pieces(rem) ==
    {rem} \cup (IF "zero" \in PieceKinds /\ rem >= 1 THEN {0} ELSE {})
          \cup (IF "one" \in PieceKinds /\ rem >= 2 THEN {1} ELSE {})
          \cup (IF "half" \in PieceKinds /\ rem >= 4 THEN {rem \div 2} ELSE {})
          \cup (IF "rest1" \in PieceKinds /\ rem >= 3 THEN {rem - 1} ELSE {})

StartFrames == IF frag.op # 0 THEN {}
               ELSE UNION {{Frame(IF n = m.wlen THEN 1 ELSE 0, IF m.comp THEN 4 ELSE 0, OpOf(m.kind), n, m.id, 0) :
                               n \in Pieces(m.wlen)} : m \in Usable}
ContFrames == IF frag.op = 0 THEN {}
              ELSE LET rem == MsgById(frag.id).wlen - frag.cum IN
                   {Frame(IF n = rem THEN 1 ELSE 0, 0, 0, n, frag.id, frag.cum) : n \in Pieces(rem)}
PingFrames == {Frame(1, 0, 9, n, 0, 0) : n \in CtlLens}
PongFrame == Frame(1, 0, 10, 0, 0, 0)
CloseFrame == Frame(1, 0, 8, 2, 0, 0)          \* payload: status code 1000

(* what the peer knows about the frame it is about to send: does it make the message in
   progress unacceptable (size limits, UTF-8)?  "none" if not. *)
MsgViolation(f) ==
    IF f.op \notin {0, 1, 2} THEN "none"
    ELSE LET m == MsgById(f.mid)
             cum == f.lo + f.len
         IN IF cum > cfg.maxMsg THEN "wiresize"
            ELSE IF f.fin = 1 /\ m.comp /\ m.dlen > cfg.maxMsg THEN "decodedsize"
            ELSE IF f.fin = 1 /\ m.kind = "text" /\ ~m.utf8ok THEN "utf8"
            ELSE "none"

(* the smallest acceptable uncompressed message: base of header-level violations *)
Plain == {m \in Msgs : ~m.comp /\ m.wlen <= cfg.maxMsg /\ m.wlen >= 1 /\ (m.kind = "text" => m.utf8ok)}
Small == CHOOSE m \in Plain : \A o \in Plain : m.wlen < o.wlen \/ (m.wlen = o.wlen /\ m.id <= o.id)
SmallFrame == Frame(1, 0, OpOf(Small.kind), Small.wlen, Small.id, 0)
RestFrame == LET rem == MsgById(frag.id).wlen - frag.cum IN Frame(1, 0, 0, rem, frag.id, frag.cum)
Bases == {Frame(1, 0, 9, 0, 0, 0)} \cup (IF frag.op = 0 THEN {SmallFrame} ELSE {RestFrame})
WithRsv(f, r) == Frame(f.fin, r, f.op, f.len, f.mid, f.lo)

ViolFrames(k) ==
    IF k = "rsv2" THEN {WithRsv(b, 2) : b \in Bases}
    ELSE IF k = "rsv3" THEN {WithRsv(b, 1) : b \in Bases}
    ELSE IF k = "rsv1" THEN {WithRsv(b, 4) : b \in {b \in Bases : ~(cfg.deflate /\ b.op \in {1, 2})}}
    ELSE IF k = "badop" THEN {Frame(1, 0, o, 0, 0, 0) : o \in BadOps \cap (11..15)}
                             \cup (IF frag.op = 0 THEN {Frame(1, 0, o, Small.wlen, Small.id, 0) : o \in BadOps \cap (3..7)} ELSE {})
    ELSE IF k = "badopfrag" THEN (IF frag.op = 0 THEN {Frame(0, 0, o, Small.wlen, Small.id, 0) : o \in BadOps \cap (3..7)} ELSE {})
    ELSE IF k = "fragctl" THEN {Frame(0, 0, 9, 0, 0, 0)}
    ELSE IF k = "bigctl" THEN {Frame(1, 0, 9, 126, 0, 0)}
    ELSE IF k = "contnostart" THEN (IF frag.op = 0 THEN {Frame(1, 0, 0, Small.wlen, Small.id, 0), Frame(0, 0, 0, Small.wlen, Small.id, 0)} ELSE {})
    ELSE IF k = "datainfrag" THEN (IF frag.op # 0 THEN {SmallFrame} ELSE {})
    ELSE {}

(* peer bookkeeping for a permitted frame *)
PeerOk(f) ==
    /\ completed' = IF f.op \in {0, 1, 2} /\ f.fin = 1
                      THEN Append(completed, [kind |-> MsgById(f.mid).kind, id |-> f.mid]) ELSE completed
    /\ UNCHANGED violated

Send(f, viol) ==
    /\ ~Over
    /\ Receive(f)
    /\ IF viol = "none" THEN PeerOk(f) ELSE violated' = viol /\ UNCHANGED completed
    /\ UNCHANGED <<cfg, after>>
    /\ step' = [act |-> "recv", args |-> <<f>>, exp |-> Proj']

SendData == \E f \in StartFrames \cup ContFrames : /\ f.op \in {0, 1, 2} /\ Send(f, MsgViolation(f))
SendPing == \E f \in PingFrames : /\ f.op = 9 /\ Send(f, "none")
SendPong == /\ PongFrame.op = 10 /\ Send(PongFrame, "none")
SendClose == /\ CloseFrame.op = 8 /\ Send(CloseFrame, "none")
SendViolation == \E k \in Viols : \E f \in ViolFrames(k) : /\ k # "none" /\ Send(f, k)

(* frames after the end of the connection are ignored *)
SendAfter ==
    /\ Over /\ after < MaxAfter
    /\ after' = after + 1
    /\ UNCHANGED <<cfg, frag, delivered, aborted, sent1009, pongs, gotClose, completed, violated>>
    /\ step' = [act |-> "recv", args |-> <<SmallFrame>>, exp |-> Proj']

InitWith(c) ==
    /\ cfg = c
    /\ frag = NoFrag
    /\ delivered = <<>>
    /\ aborted = FALSE
    /\ sent1009 = FALSE
    /\ pongs = <<>>
    /\ gotClose = FALSE
    /\ completed = <<>>
    /\ violated = "none"
    /\ after = 0
    /\ step = [act |-> "init", args |-> <<>>, exp |-> [delivered |-> <<>>, closed |-> FALSE, sent1009 |-> FALSE, pongs |-> <<>>]]
Cfgs == [deflate : Deflates, maxMsg : MaxMsgs]
InitState == \E c \in Cfgs : InitWith(c)

Next == SendData \/ SendPing \/ SendPong \/ SendClose \/ SendViolation \/ SendAfter
Spec == InitState /\ [][Next]_<<vars, step>>

----------------------------------------------------------------------------
(* Properties *)

TypeOK ==
    /\ aborted \in BOOLEAN /\ sent1009 \in BOOLEAN /\ gotClose \in BOOLEAN
    /\ frag.op \in {0, 1, 2}
    /\ \A i \in 1..Len(delivered) : delivered[i].id \in {m.id : m \in Msgs}

(* C15: a violating frame aborts the connection; C14: nothing else does *)
ViolationAborts == (violated # "none") => aborted
OnlyViolationAborts == aborted => (violated # "none")
(* C14 / C15: exactly the messages completed before the first violation, in order, same kinds *)
DeliveredAreCompleted == delivered = completed
(* C15: size violations are announced with 1009 *)
SizeAnnounced == (violated \in {"wiresize", "decodedsize"}) <=> sent1009
(* C15: after the abort (or the peer's close frame) nothing more is delivered or answered *)
NothingAfterEnd == [][Over => (delivered' = delivered /\ pongs' = pongs)]_vars
OverIsFinal == [][Over => Over']_vars

View == vars
StateBound == Len(completed) <= MaxDelivered /\ Len(pongs) <= MaxDelivered
=============================================================================
