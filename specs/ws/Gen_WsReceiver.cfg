SPECIFICATION GenSpec
CONSTANTS
  Msgs <- CatalogMsgs
  Deflates = {FALSE, TRUE}
  MaxMsgs = {130}
  CtlLens = {0, 125}
  PieceKinds = {"half"}
  Viols = {"rsv1", "rsv2", "rsv3", "badop", "badopfrag", "fragctl", "bigctl", "contnostart", "datainfrag"}
  BadOps = {3, 7, 11, 15}
  MaxAfter = 1
  MaxDelivered = 99
  L = 3
CONSTRAINT GenBound
CHECK_DEADLOCK FALSE
