---------------------------- MODULE MC_WsClose ----------------------------
EXTENDS WsClose
McPeerCloses == {<<0, "none">>, <<0, "onebyte">>, <<1000, "none">>, <<3000, "valid">>, <<1001, "invalid">>}
McLocalCloses == {<<0, FALSE>>, <<1001, FALSE>>, <<0, TRUE>>, <<3001, TRUE>>}
=============================================================================
