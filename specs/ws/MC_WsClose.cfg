SPECIFICATION Spec
CONSTANTS
  Roles = {"server", "client"}
  Pings = {FALSE, TRUE}
  Asyncs = {FALSE, TRUE}
  PeerCloses <- McPeerCloses
  LocalCloses <- McLocalCloses
  MaxMsgs = 2
VIEW View
CONSTRAINT StateBound
INVARIANT AtMostOneCloseFrame
INVARIANT NoDataAfterClose
INVARIANT NotifiedAtMostOnce
INVARIANT NotifiedWithPeerCode
INVARIANT BothClosedTearsDown
INVARIANT ClosedIsNotified
PROPERTY EchoesPeerCode
PROPERTY NotifiedOnceFinal
PROPERTY WriteAfterCloseFails
PROPERTY CloseTerminates
PROPERTY EventuallyNotified
CHECK_DEADLOCK FALSE
