---------------------------- MODULE MC_WsReceiver ----------------------------
(* Model-checking wrapper: the message catalogue (whose compressed sizes come from zlib, an
   opaque codec) is read from the ndjson file named by the environment variable WS_CATALOG. *)
EXTENDS WsReceiver, Json, IOUtils
CatalogSeq == ndJsonDeserialize(IOEnv.WS_CATALOG)
CatalogMsgs == {CatalogSeq[i] : i \in 1..Len(CatalogSeq)}
=============================================================================
