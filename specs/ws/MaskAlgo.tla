------------------------------ MODULE MaskAlgo ------------------------------
(***************************************************************************)
(* C18 - WebSocket masking (RFC 6455 section 5.3).                         *)
(*                                                                         *)
(* MaskRef (module MaskRef) is the reference definition.                   *)
(*                                                                         *)
(* The PlusCal algorithm WebsocketMask transcribes the loop structure of   *)
(* tornado/speedups.c websocket_mask(): 64-bit words while >= 8 bytes      *)
(* remain (only when sizeof(size_t) >= 8), 32-bit words while >= 4 remain, *)
(* then single bytes indexed from the *start* of the mask.  A machine word *)
(* is a tuple of byte lanes in significance order (lane k has weight       *)
(* 256^(k-1)); loads and stores convert between memory order and lane      *)
(* order according to `endian`, XOR / OR act lane-wise (no carries), the    *)
(* shift by 32 moves lanes by 4.  TLC checks that the terminal buffer      *)
(* equals MaskRef and that "processed prefix correct /\ offset = 0 mod 4"  *)
(* holds at every step.                                                    *)
(***************************************************************************)
EXTENDS MaskRef

CONSTANTS MaskBytes,   \* byte values used for masks in the exhaustive run
          MaxLen,      \* payload lengths 0..MaxLen
          NPat         \* payload patterns 0..NPat-1

(* ---- machine words as byte lanes ---- *)
Load(mem, p, n, e) == [k \in 1..n |-> IF e = "little" THEN mem[p + k] ELSE mem[p + n + 1 - k]]
Store(mem, p, n, w, e) == [j \in 1..Len(mem) |->
                            IF j > p /\ j <= p + n
                              THEN (IF e = "little" THEN w[j - p] ELSE w[n + 1 - (j - p)])
                              ELSE mem[j]]
Zext64(w) == w \o <<0, 0, 0, 0>>                                    \* uint64 = uint32
Shl32(w) == <<0, 0, 0, 0, w[1], w[2], w[3], w[4]>>                  \* w << 32 on 8 lanes
OrW(a, b) == [k \in 1..Len(a) |-> Or8Def(a[k], b[k])]
XorW(a, b) == [k \in 1..Len(a) |-> Xor8(a[k], b[k])]

(* ---- input domain of the exhaustive run ---- *)
Masks == [1..4 -> MaskBytes]
Special == <<0, 1, 90, 128, 255>>
Pat(n, r) == [i \in 1..n |-> IF r = 0 THEN Special[((i - 1) % 5) + 1]
                             ELSE (i * (2 * r + 1) * 29 + r * 53) % 256]
Datas == {Pat(n, r) : n \in 0..MaxLen, r \in 0..(NPat - 1)}
Unset == 999   \* content of the freshly allocated result buffer

(*--fair algorithm WebsocketMask {
  variables mask \in Masks, data \in Datas,
            has64 \in BOOLEAN,                 \* sizeof(size_t) >= 8
            endian \in {"little", "big"},
            p = 0,                             \* how far `data` and `buf` have been advanced
            remaining = Len(data),             \* data_len
            buf = [j \in 1..Len(data) |-> Unset],
            m32 = Load(mask, 0, 4, endian),    \* uint32_mask: the 4 mask bytes loaded as one 32-bit word
            m64 = <<>>,
            i = 0;
  {
   pre:  if (has64) {
            m64 := OrW(Shl32(Zext64(m32)), Zext64(m32));
   w64:     while (remaining >= 8) {
                buf := Store(buf, p, 8, XorW(Load(data, p, 8, endian), m64), endian);
                p := p + 8;
                remaining := remaining - 8;
            }
         };
   w32:  while (remaining >= 4) {
            buf := Store(buf, p, 4, XorW(Load(data, p, 4, endian), m32), endian);
            p := p + 4;
            remaining := remaining - 4;
         };
   tail: while (i < remaining) {
            buf[p + i + 1] := Xor8(data[p + i + 1], mask[i + 1]);
            i := i + 1;
         }
  }
}*)
\* BEGIN TRANSLATION
VARIABLES pc, mask, data, has64, endian, p, remaining, buf, m32, m64, i

vars == << pc, mask, data, has64, endian, p, remaining, buf, m32, m64, i >>

Init == (* Global variables *)
        /\ mask \in Masks
        /\ data \in Datas
        /\ has64 \in BOOLEAN
        /\ endian \in {"little", "big"}
        /\ p = 0
        /\ remaining = Len(data)
        /\ buf = [j \in 1..Len(data) |-> Unset]
        /\ m32 = Load(mask, 0, 4, endian)
        /\ m64 = <<>>
        /\ i = 0
        /\ pc = "pre"

pre == /\ pc = "pre"
       /\ IF has64
             THEN /\ m64' = OrW(Shl32(Zext64(m32)), Zext64(m32))
                  /\ pc' = "w64"
             ELSE /\ pc' = "w32"
                  /\ m64' = m64
       /\ UNCHANGED << mask, data, has64, endian, p, remaining, buf, m32, i >>

w64 == /\ pc = "w64"
       /\ IF remaining >= 8
             THEN /\ buf' = Store(buf, p, 8, XorW(Load(data, p, 8, endian), m64), endian)
                  /\ p' = p + 8
                  /\ remaining' = remaining - 8
                  /\ pc' = "w64"
             ELSE /\ pc' = "w32"
                  /\ UNCHANGED << p, remaining, buf >>
       /\ UNCHANGED << mask, data, has64, endian, m32, m64, i >>

w32 == /\ pc = "w32"
       /\ IF remaining >= 4
             THEN /\ buf' = Store(buf, p, 4, XorW(Load(data, p, 4, endian), m32), endian)
                  /\ p' = p + 4
                  /\ remaining' = remaining - 4
                  /\ pc' = "w32"
             ELSE /\ pc' = "tail"
                  /\ UNCHANGED << p, remaining, buf >>
       /\ UNCHANGED << mask, data, has64, endian, m32, m64, i >>

tail == /\ pc = "tail"
        /\ IF i < remaining
              THEN /\ buf' = [buf EXCEPT ![p + i + 1] = Xor8(data[p + i + 1], mask[i + 1])]
                   /\ i' = i + 1
                   /\ pc' = "tail"
              ELSE /\ pc' = "Done"
                   /\ UNCHANGED << buf, i >>
        /\ UNCHANGED << mask, data, has64, endian, p, remaining, m32, m64 >>

(* Allow infinite stuttering to prevent deadlock on termination. *)
Terminating == pc = "Done" /\ UNCHANGED vars

Next == pre \/ w64 \/ w32 \/ tail
           \/ Terminating

Spec == /\ Init /\ [][Next]_vars
        /\ WF_vars(Next)

Termination == <>(pc = "Done")

\* END TRANSLATION

(* ---- what TLC checks ---- *)
Ref == MaskRef(mask, data)
Partial == /\ p % 4 = 0
           /\ p + remaining = Len(data)
           /\ \A j \in 1..(p + i) : buf[j] = Ref[j]
           /\ \A j \in (p + i + 1)..Len(data) : buf[j] = Unset
Correct == pc = "Done" => buf = Ref
=============================================================================
