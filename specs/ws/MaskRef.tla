------------------------------ MODULE MaskRef ------------------------------
(***************************************************************************)
(* C18 - reference definition of WebSocket masking (RFC 6455 section 5.3): *)
(* byte i of the result is byte i of the payload XOR byte (i mod 4) of the *)
(* 4-byte mask; a mask that is not exactly 4 bytes long is rejected.       *)
(* Bytes are integers 0..255, byte strings are sequences.                  *)
(***************************************************************************)
EXTENDS Integers, Sequences, TLC

(* XOR / OR of two bytes, defined bit by bit on 4-bit halves (x \div 2^k % 2 is bit k) and
   tabulated: TLC evaluates the constant tables once, afterwards Xor8 is two O(1) lookups. *)
Bit(a, k) == (a \div (2 ^ k)) % 2
Xor4Def(a, b) == ((Bit(a, 0) + Bit(b, 0)) % 2) + ((Bit(a, 1) + Bit(b, 1)) % 2) * 2
                 + ((Bit(a, 2) + Bit(b, 2)) % 2) * 4 + ((Bit(a, 3) + Bit(b, 3)) % 2) * 8
OrBit(x, y) == IF x + y > 0 THEN 1 ELSE 0
Or4Def(a, b) == OrBit(Bit(a, 0), Bit(b, 0)) + OrBit(Bit(a, 1), Bit(b, 1)) * 2
                + OrBit(Bit(a, 2), Bit(b, 2)) * 4 + OrBit(Bit(a, 3), Bit(b, 3)) * 8
Xor4Tab == [a \in 0..15 |-> [b \in 0..15 |-> Xor4Def(a, b)]]
Or4Tab == [a \in 0..15 |-> [b \in 0..15 |-> Or4Def(a, b)]]
Xor8(a, b) == Xor4Tab[a \div 16][b \div 16] * 16 + Xor4Tab[a % 16][b % 16]
Or8Def(a, b) == Or4Tab[a \div 16][b \div 16] * 16 + Or4Tab[a % 16][b % 16]

(* ---- reference definition ---- *)
MaskRef(m, d) == [i \in 1..Len(d) |-> Xor8(d[i], m[((i - 1) % 4) + 1])]
(* the call contract: result bytes, or ValueError for a mask that is not exactly 4 bytes *)
MaskCall(m, d) == IF Len(m) = 4 THEN [err |-> "none", res |-> MaskRef(m, d)]
                  ELSE [err |-> "ValueError", res |-> <<>>]
=============================================================================
