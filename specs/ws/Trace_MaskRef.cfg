SPECIFICATION TraceSpec
CONSTRAINT Report
CHECK_DEADLOCK FALSE
