SPECIFICATION Spec
CONSTANTS
  MaxDev = 2
  Sides = {"server", "client"}
INVARIANT ServerExactly
INVARIANT ClientExactly
CHECK_DEADLOCK FALSE
