SPECIFICATION TraceSpec
CONSTANTS
  Roles = {"server"}
  Pings = {FALSE}
  Asyncs = {FALSE}
  PeerCloses = {}
  LocalCloses = {}
  MaxMsgs = 1000000
CONSTRAINT Report
INVARIANT AtMostOneCloseFrame
INVARIANT NoDataAfterClose
INVARIANT NotifiedAtMostOnce
INVARIANT NotifiedWithPeerCode
INVARIANT BothClosedTearsDown
INVARIANT ClosedIsNotified
PROPERTY EchoesPeerCode
PROPERTY NotifiedOnceFinal
PROPERTY WriteAfterCloseFails
CHECK_DEADLOCK FALSE
