---------------------------- MODULE Trace_WsClose ----------------------------
(* Validates closing-handshake runs recorded from a real endpoint: one ndjson line per trace
   {"id", "cfg": {"role", "ping", "async"}, "ev": [{"a", "args", "obs"}]} with the action names of
   WsClose (close, write, msg, pong, peerclose, eof, resume, advance) and obs = the projection.
   For "advance" the logged amount is the real loop's distance to its next timer and must be the
   specification's next deadline. *)
EXTENDS WsClose, Json, IOUtils, TLCExt
Traces == ndJsonDeserialize(IOEnv.TRACE_FILE)
Verbose == IOEnv.TRACE_VERBOSE = "1"
VARIABLES tid, l
Ev == Traces[tid].ev
TraceInit ==
    /\ tid \in 1..Len(Traces)
    /\ l = 1
    /\ InitWith([role |-> Traces[tid].cfg.role, ping |-> Traces[tid].cfg.ping, async |-> Traces[tid].cfg.async])
IsEvent(a) == l <= Len(Ev) /\ Ev[l].a = a /\ l' = l + 1 /\ UNCHANGED tid
(* fields the specification leaves open (Open, "any") match any observed value *)
Bind == LET e == ProjOf(st')
            o == Ev[l].obs
        IN /\ (e.closeFrames = Open \/ e.closeFrames = o.closeFrames)
           /\ (e.sentCode = Open \/ e.sentCode = o.sentCode)
           /\ (e.nCode = Open \/ e.nCode = o.nCode)
           /\ (e.nReason = "any" \/ e.nReason = o.nReason)
           /\ e.dataAfterClose = o.dataAfterClose /\ e.pings = o.pings /\ e.tcpOpen = o.tcpOpen
           /\ e.notified = o.notified /\ e.delivered = o.delivered /\ e.err = o.err
TrClose == IsEvent("close") /\ LocalClose(Ev[l].args[1], Ev[l].args[2]) /\ Bind
TrWrite == IsEvent("write") /\ AppWrite /\ Bind
TrMsg == IsEvent("msg") /\ MessageArrives /\ Bind
TrPong == IsEvent("pong") /\ PongArrives /\ Bind
TrPeerClose == IsEvent("peerclose") /\ PeerCloseFrame(Ev[l].args[1], Ev[l].args[2]) /\ Bind
TrEof == IsEvent("eof") /\ PeerDisconnect /\ Bind
TrResume == IsEvent("resume") /\ AsyncOnMessageReturns /\ Bind
TrAdvance == IsEvent("advance") /\ Ev[l].args[1] = Due(st) /\ Advance /\ Bind
TraceNext == TrClose \/ TrWrite \/ TrMsg \/ TrPong \/ TrPeerClose \/ TrEof \/ TrResume \/ TrAdvance
TraceSpec == TraceInit /\ [][TraceNext]_<<vars, step, tid, l>>
Report == IF Verbose THEN PrintT(<<"AT", Traces[tid].id, l>>)
          ELSE (l = Len(Ev) + 1 => PrintT(<<"ACCEPT", Traces[tid].id>>))
=============================================================================
