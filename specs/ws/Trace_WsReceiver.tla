---------------------------- MODULE Trace_WsReceiver ----------------------------
(* Validates frame sequences recorded against the real receiver: one ndjson line per trace
   {"id", "cfg": {"deflate", "maxMsg"}, "ev": [{"a": "recv", "args": [frame], "hdr": [...], "masked": 0|1,
   "obs": {delivered, closed, sent1009, pongs}}]}.  frame = [fin, rsv, op, len, mid, lo].  The header
   bytes the harness actually sent must be the codec's encoding of the frame's fields; the
   specification's projection after the frame must equal the logged observation.  The peer's
   violation tag is derived from the frame (header-level violations: "malformed"). *)
EXTENDS WsReceiver, Json, IOUtils, TLCExt
CatalogSeq == ndJsonDeserialize(IOEnv.WS_CATALOG)
CatalogMsgs == {CatalogSeq[i] : i \in 1..Len(CatalogSeq)}
Traces == ndJsonDeserialize(IOEnv.TRACE_FILE)
Verbose == IOEnv.TRACE_VERBOSE = "1"
VARIABLES tid, l
Ev == Traces[tid].ev
TraceInit ==
    /\ tid \in 1..Len(Traces)
    /\ l = 1
    /\ InitWith([deflate |-> Traces[tid].cfg.deflate, maxMsg |-> Traces[tid].cfg.maxMsg])
IsEvent(a) == l <= Len(Ev) /\ Ev[l].a = a /\ l' = l + 1 /\ UNCHANGED tid
(* close code 1009 is required for size violations; whether a close frame accompanies any other
   abort is left open *)
Bind == LET o == Ev[l].obs IN
        /\ o.delivered = delivered' /\ o.closed = Over' /\ o.pongs = pongs'
        /\ (sent1009' => o.sent1009) /\ (o.sent1009 => aborted')
FrameOf(e) == LET a == e.args[1] IN Frame(a.fin, a.rsv, a.op, a.len, a.mid, a.lo)
HeaderMatches(e) == LET f == FrameOf(e) IN (IF e.masked = 1 THEN f.hm ELSE f.hu) = e.hdr
TagOf(f) == IF Malformed(f) THEN "malformed" ELSE MsgViolation(f)
TrRecv == /\ IsEvent("recv")
          /\ HeaderMatches(Ev[l])
          /\ LET f == FrameOf(Ev[l]) IN
               IF Over THEN /\ UNCHANGED <<cfg, frag, delivered, aborted, sent1009, pongs, gotClose, completed, violated>>
                            /\ after' = after + 1
                            /\ step' = [act |-> "recv", args |-> <<f>>, exp |-> Proj']
               ELSE Send(f, TagOf(f))
          /\ Bind
TraceNext == TrRecv
TraceSpec == TraceInit /\ [][TraceNext]_<<vars, step, tid, l>>
Report == IF Verbose THEN PrintT(<<"AT", Traces[tid].id, l>>)
          ELSE (l = Len(Ev) + 1 => PrintT(<<"ACCEPT", Traces[tid].id>>))
=============================================================================
