SPECIFICATION GenSpec
CONSTANTS
  Msgs <- CatalogMsgs
  Deflates = {FALSE, TRUE}
  MaxMsgs = {10485760}
  CtlLens = {0, 125}
  PieceKinds = {"half"}
  Viols = {}
  BadOps = {}
  MaxAfter = 0
  MaxDelivered = 99
  L = 3
CONSTRAINT GenBound
CHECK_DEADLOCK FALSE
