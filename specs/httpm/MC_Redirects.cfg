SPECIFICATION Spec
CONSTANTS
  Methods = {"GET", "HEAD", "POST", "PUT"}
  MaxRs = {0, 1, 2, 3}
  HdrSel = {0, 100, 200, 10, 20, 220, 1, 2, 121, 222, 12}
  Codes = {200, 404, 300, 301, 302, 303, 307, 308}
  Locs = {0, 1, 2, 3, 4, 5, 6, 7, 8}
  Follows = {TRUE, FALSE}
VIEW View
INVARIANT BoundedRedirects
INVARIANT NoFollowWhenDisabled
INVARIANT CrossOriginClean
INVARIANT BodylessGetHead
PROPERTY StrippedStaysStripped
PROPERTY RewriteToGet
PROPERTY MethodKeptOtherwise
PROPERTY DoneSticky
CHECK_DEADLOCK FALSE
