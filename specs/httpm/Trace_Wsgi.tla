---------------------------- MODULE Trace_Wsgi ----------------------------
(* Validates recorded WSGIContainer exchanges against Wsgi.tla: the environ captured by the
   application must equal Environ(request); the response received by the client must satisfy the
   response relation (application groups unchanged, only permitted default headers added). *)
EXTENDS Wsgi, Json, IOUtils, TLCExt
Traces == ndJsonDeserialize(IOEnv.TRACE_FILE)
Verbose == IOEnv.TRACE_VERBOSE = "1"
VARIABLES tid, l
Ev == Traces[tid].ev
TraceInit ==
    /\ tid \in 1..Len(Traces)
    /\ l = 1
    /\ InitWith(Traces[tid].cfg)
IsEvent(a) == l <= Len(Ev) /\ Ev[l].a = a /\ l' = l + 1 /\ UNCHANGED tid

RECURSIVE Dec(_)
Dec(k) == IF k < 10 THEN <<48 + k>> ELSE Dec(k \div 10) \o <<48 + (k % 10)>>

EnvOK(o) == /\ "method" \in DOMAIN o
            /\ o.method = env'.method /\ o.script = env'.script /\ o.path = env'.path /\ o.query = env'.query
            /\ o.name = env'.name /\ o.port = env'.port /\ o.protocol = env'.protocol /\ o.scheme = env'.scheme
            /\ o.ctype = env'.ctype /\ o.clen = env'.clen /\ o.input = env'.input
            /\ SeqToSet(o.http) = env'.http /\ Len(o.http) = Cardinality(env'.http)
RespOK(o) == /\ "reason" \in DOMAIN o
             /\ o.code = resp'.code /\ o.reason = resp'.reason /\ o.body = resp'.body
             /\ \A g \in resp'.groups : InSeq(o.groups, g)
             /\ \A i \in 1..Len(o.groups) :
                    \/ o.groups[i] \in resp'.groups
                    \/ /\ o.groups[i].n \in resp'.mayAdd
                       /\ (o.groups[i].n = LCL => o.groups[i].vs = <<Dec(Len(resp'.body))>>)
Bind == EnvOK(Ev[l].obs.env) /\ RespOK(Ev[l].obs.resp) /\ Ev[l].obs.n = n'
TrServe == IsEvent("serve") /\ Serve(Ev[l].args[1], Ev[l].args[2]) /\ Bind
TraceNext == TrServe
TraceSpec == TraceInit /\ [][TraceNext]_<<vars, step, tid, l>>
Report == IF Verbose THEN PrintT(<<"AT", Traces[tid].id, l>>)
          ELSE (l = Len(Ev) + 1 => PrintT(<<"ACCEPT", Traces[tid].id>>))
=============================================================================
