SPECIFICATION GenSpec
CONSTANTS
  Methods = {"GET", "HEAD", "POST", "PUT"}
  MaxRs = {1, 2}
  HdrSel = {220, 1}
  Codes = {200, 301, 302, 303, 307, 308}
  Locs = {0, 1, 2, 3, 4, 5, 6, 7, 8}
  Follows = {TRUE}
  L = 2
CONSTRAINT GenBound
CHECK_DEADLOCK FALSE
