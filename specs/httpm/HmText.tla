---------------------------- MODULE HmText ----------------------------
(* Pure text operators over sequences of code points, shared by the httpm specifications. *)
EXTENDS Integers, Sequences, FiniteSets, SequencesExt

WS == {32, 9}
Strip(s) == LET a == SelectInSeq(s, LAMBDA x : x \notin WS)
                b == SelectLastInSeq(s, LAMBDA x : x \notin WS)
            IN IF a = 0 THEN <<>> ELSE SubSeq(s, a, b)
(* sep.join(parts) *)
JoinWith(parts, sep) == IF parts = <<>> THEN <<>>
                        ELSE FoldLeft(LAMBDA acc, v : acc \o sep \o v, Head(parts), Tail(parts))
(* text.split(chr(c)): always at least one (possibly empty) part *)
SplitOn(text, c) == LET r == FoldLeft(LAMBDA a, x : IF x = c THEN [done |-> Append(a.done, a.cur), cur |-> <<>>]
                                                    ELSE [a EXCEPT !.cur = Append(@, x)],
                                      [done |-> <<>>, cur |-> <<>>], text)
                    IN Append(r.done, r.cur)
InSeq(s, x) == \E i \in 1..Len(s) : s[i] = x
Upper(x) == IF x >= 97 /\ x <= 122 THEN x - 32 ELSE x
Lower(x) == IF x >= 65 /\ x <= 90 THEN x + 32 ELSE x
LowerAll(s) == [i \in 1..Len(s) |-> Lower(s[i])]
UpperAll(s) == [i \in 1..Len(s) |-> Upper(s[i])]
IsDigit(x) == x >= 48 /\ x <= 57
AllDigits(s) == \A i \in 1..Len(s) : IsDigit(s[i])
StartsWith(s, p) == Len(s) >= Len(p) /\ SubSeq(s, 1, Len(p)) = p
SeqToSet(s) == {s[i] : i \in 1..Len(s)}
=============================================================================
