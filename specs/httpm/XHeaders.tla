---------------------------- MODULE XHeaders ----------------------------
(***************************************************************************)
(* Reference model of HTTPServer(xheaders=True) (property C32): which      *)
(* remote_ip / protocol a request may see, as a function of ITS OWN proxy  *)
(* headers and the connection's socket values only.                        *)
(*                                                                         *)
(* Texts are sequences of code points.  A request carries, per proxy       *)
(* header, the sequence of its field-line values (0, 1 or 2 lines; several *)
(* lines combine with ","), already stripped of optional whitespace as the *)
(* HTTP reader delivers them.  Whether a text is a numeric IP address is    *)
(* a tag (cfg.numeric) assigned by the harness with the standard library's  *)
(* ipaddress module - TLA+ does not re-implement address syntax.            *)
(*                                                                         *)
(* Permissive points (the property does not settle them): an X-Real-Ip     *)
(* that is not numeric may either hide a numeric X-Forwarded-For candidate *)
(* or fall back to it; if every X-Forwarded-For entry is trusted the        *)
(* leftmost entry or the socket address may be reported; the protocol may  *)
(* be any valid entry of the request's own scheme headers or the            *)
(* connection's protocol (the property fixes no precedence for it).         *)
(* Not generated: legacy inet_aton spellings ("127.1", "1", "0x7f.0.0.1"), *)
(* scoped IPv6 literals.                                                   *)
(***************************************************************************)
EXTENDS HmText, TLC

CONSTANTS ComboSel,    \* 1: full per-request header table, 2: reduced table (for request sequences)
          MaxReq,      \* requests per connection
          CfgSel       \* 1: all connection configurations, 2: the plain one

VARIABLES cfg,     \* [sock, proto, trusted, numeric]: connection constants
          n,       \* requests served so far on this connection
          seen,    \* [ips, protos]: what the last request may have seen
          step

vars == <<cfg, n, seen>>

T4 == <<49, 46, 50, 46, 51, 46, 52>>                          \* 1.2.3.4
T4b == <<53, 46, 54, 46, 55, 46, 56>>                         \* 5.6.7.8
T6 == <<50, 48, 48, 49, 58, 100, 98, 56, 58, 58, 50>>         \* 2001:db8::2
TR1 == <<49, 48, 46, 48, 46, 48, 46, 49>>                     \* 10.0.0.1 (trusted)
TR2 == <<49, 48, 46, 48, 46, 48, 46, 50>>                     \* 10.0.0.2 (trusted)
THost == <<104, 111, 115, 116, 46, 101, 120, 97, 109, 112, 108, 101>>   \* host.example
TObs == <<49, 46, 50, 46, 51, 46, 178>>                       \* 1.2.3.<0xB2>: obs-text byte, not an address
T5 == <<49, 46, 50, 46, 51, 46, 52, 46, 53>>                  \* 1.2.3.4.5
TSock == <<49, 50, 55, 46, 48, 46, 48, 46, 49>>               \* 127.0.0.1
TUnix == <<48, 46, 48, 46, 48, 46, 48>>                       \* 0.0.0.0 (non-IP socket)
HTTP == <<104, 116, 116, 112>>
HTTPS == <<104, 116, 116, 112, 115>>
FTP == <<102, 116, 112>>
UHTTPS == <<72, 84, 84, 80, 83>>

NumericTexts == <<T4, T4b, T6, TR1, TR2, TSock, TUnix>>

Ln(toks) == <<JoinWith(toks, <<44, 32>>)>>       \* one field line "a, b, c"

XffFull == {<<>>, Ln(<<T4>>), Ln(<<T6>>), Ln(<<THost>>), Ln(<<TObs>>), Ln(<<T5>>), Ln(<<<<>>>>), Ln(<<TR1>>),
            Ln(<<T4, T4b>>), Ln(<<T4, THost>>), Ln(<<THost, T4>>), Ln(<<T4, <<>>>>), Ln(<<T4, TObs>>),
            Ln(<<T4, TR1>>), Ln(<<T4, T6, TR1, TR2>>), Ln(<<THost, TR1>>), Ln(<<TR1, TR2>>), Ln(<<TR2, TR1, TR1>>),
            Ln(<<T4, TR1, T4b>>), <<T4, T4b>>, <<T4b \o <<44>> \o T4, TR1>>, <<T4, <<>>>>}
XriFull == {<<>>, <<T4b>>, <<T6>>, <<THost>>, <<TObs>>, <<<<>>>>, <<T4b, T6>>, <<TR1>>}
ProtoFull == {<<>>, <<HTTP>>, <<HTTPS>>, <<FTP>>, <<UHTTPS>>, <<<<>>>>, Ln(<<HTTPS, HTTP>>), Ln(<<HTTP, HTTPS>>),
              Ln(<<HTTPS, FTP>>), <<HTTP, HTTPS>>}

NoHdr == [xff |-> <<>>, xri |-> <<>>, xs |-> <<>>, xfp |-> <<>>]
FullCombos == {[NoHdr EXCEPT !.xff = a, !.xri = b] : a \in XffFull, b \in XriFull}
              \cup {[NoHdr EXCEPT !.xs = a, !.xfp = b] : a \in ProtoFull, b \in ProtoFull}
              \cup {[xff |-> Ln(<<T4>>), xri |-> <<T4b>>, xs |-> <<HTTPS>>, xfp |-> <<HTTP>>]}
SmallCombos == {NoHdr,
                [NoHdr EXCEPT !.xff = Ln(<<T4>>)], [NoHdr EXCEPT !.xri = <<T4b>>],
                [NoHdr EXCEPT !.xff = Ln(<<T4, TR1>>), !.xfp = <<HTTPS>>],
                [NoHdr EXCEPT !.xff = Ln(<<THost>>), !.xs = <<FTP>>],
                [NoHdr EXCEPT !.xri = <<TObs>>, !.xs = <<HTTPS>>],
                [NoHdr EXCEPT !.xff = Ln(<<TR1, TR2>>)],
                [xff |-> Ln(<<T6>>), xri |-> <<T4b>>, xs |-> <<HTTP>>, xfp |-> <<HTTPS>>]}
Combos == IF ComboSel = 1 THEN FullCombos ELSE SmallCombos

Cfgs == IF CfgSel = 2 THEN {[sock |-> TSock, proto |-> HTTP, trusted |-> <<TR1, TR2>>, numeric |-> NumericTexts]}
        ELSE {[sock |-> s, proto |-> p, trusted |-> t, numeric |-> NumericTexts] :
                 s \in {TSock, TUnix}, p \in {HTTP, HTTPS}, t \in {<<>>, <<TR1, TR2>>}}

----------------------------------------------------------------------------
(* the reference function *)
Num(x) == InSeq(cfg.numeric, x)
Combined(lines) == JoinWith(lines, <<44>>)
Entries(text) == LET parts == SplitOn(text, 44) IN [i \in 1..Len(parts) |-> Strip(parts[i])]

FromXff(h) ==
    IF h.xff = <<>> THEN {cfg.sock}
    ELSE LET es == Entries(Combined(h.xff))
             u == {i \in 1..Len(es) : ~InSeq(cfg.trusted, es[i])}
         IN IF u # {} THEN (IF Num(es[Max(u)]) THEN {es[Max(u)]} ELSE {cfg.sock})
            ELSE {cfg.sock} \cup (IF Num(es[1]) THEN {es[1]} ELSE {})
IpAllowed(h) ==
    IF h.xri = <<>> THEN FromXff(h)
    ELSE IF Num(Combined(h.xri)) THEN {Combined(h.xri)} ELSE {cfg.sock} \cup FromXff(h)

(* the property only requires the protocol to be http or https (and not to leak): any valid entry of
   this request's X-Scheme / X-Forwarded-Proto lists, or the connection's own protocol, is allowed *)
ProtoEntries(h) == SeqToSet(Entries(Combined(h.xs))) \cup SeqToSet(Entries(Combined(h.xfp)))
ProtoAllowed(h) == {cfg.proto} \cup ((IF h.xs = <<>> /\ h.xfp = <<>> THEN {} ELSE ProtoEntries(h)) \cap {HTTP, HTTPS})

----------------------------------------------------------------------------
Proj == [ips |-> seen.ips, protos |-> seen.protos, n |-> n]
Obs(a, args) == [act |-> a, args |-> args, exp |-> Proj']

InitWith(c) ==
    /\ cfg = c /\ n = 0
    /\ seen = [ips |-> {c.sock}, protos |-> {c.proto}]
    /\ step = [act |-> "init", args |-> <<>>, exp |-> [ips |-> {c.sock}, protos |-> {c.proto}, n |-> 0]]
InitState == \E c \in Cfgs : InitWith(c)

(* one keep-alive request with proxy headers h; the handler reports request.remote_ip / protocol *)
Request(h) ==
    /\ n < MaxReq
    /\ n' = n + 1
    /\ seen' = [ips |-> IpAllowed(h), protos |-> ProtoAllowed(h)]
    /\ UNCHANGED cfg
    /\ step' = Obs("request", <<h>>)

Next == \E h \in Combos : Request(h)
Spec == InitState /\ [][Next]_<<vars, step>>

----------------------------------------------------------------------------
(* Properties (C32) *)
HdrOf == IF step.act = "request" THEN step.args[1] ELSE NoHdr
AllEntries(h) == SeqToSet(Entries(Combined(h.xff))) \cup {Combined(h.xri)}

(* remote_ip is the socket address or a numeric address *)
IpNumericOrSocket == \A x \in seen.ips : x = cfg.sock \/ Num(x)
(* ... taken from this request's own proxy headers *)
IpFromOwnHeaders == \A x \in seen.ips : x = cfg.sock \/ x \in AllEntries(HdrOf)
(* a numeric X-Real-Ip wins *)
RealIpPrecedence == (HdrOf.xri # <<>> /\ Num(Combined(HdrOf.xri))) => seen.ips = {Combined(HdrOf.xri)}
(* never a trusted entry when an untrusted numeric one stands to its right ... i.e. rightmost untrusted *)
RightmostUntrusted ==
    (HdrOf.xri = <<>> /\ HdrOf.xff # <<>>) =>
        LET es == Entries(Combined(HdrOf.xff)) IN
        \A i \in 1..Len(es) : (~InSeq(cfg.trusted, es[i]) /\ \A j \in (i + 1)..Len(es) : InSeq(cfg.trusted, es[j]))
                                  => seen.ips = (IF Num(es[i]) THEN {es[i]} ELSE {cfg.sock})
(* protocol is http or https *)
ProtoValid == seen.protos \subseteq {HTTP, HTTPS}
(* a request without proxy headers sees the socket values, whatever came before *)
NoHeadersSocketValues == HdrOf = NoHdr => (seen.ips = {cfg.sock} /\ seen.protos = {cfg.proto})
(* what a request sees never depends on earlier requests: it is a function of (cfg, own headers) *)
NoLeak == [][seen' = [ips |-> IpAllowed(step'.args[1]), protos |-> ProtoAllowed(step'.args[1])]]_<<vars, step>>
View == <<vars, step>>
=============================================================================
