SPECIFICATION TraceSpec
CONSTANTS
  ComboSel = 2
  MaxReq = 1000
  CfgSel = 2
CONSTRAINT Report
INVARIANT IpNumericOrSocket
INVARIANT IpFromOwnHeaders
INVARIANT RealIpPrecedence
INVARIANT RightmostUntrusted
INVARIANT ProtoValid
INVARIANT NoHeadersSocketValues
PROPERTY NoLeak
CHECK_DEADLOCK FALSE
