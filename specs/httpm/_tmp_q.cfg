SPECIFICATION Spec
CONSTANTS
  NameSel = 2
  ValueSel = 4
  Serial = FALSE
  LineFormats = {1, 3}
  ContFormats = {1, 3}
  BadSel = 1
  Acts = {"add", "set", "del", "get", "getlist", "in", "iter", "items", "pop", "copy", "cadd", "cset", "cdel", "cget", "parseline", "roundtrip"}
  MaxVals = 3
  MaxCVals = 1
  MaxValLen = 3
CONSTRAINT StateBound
VIEW View
INVARIANT TypeOK
INVARIANT CaseInsensitive
INVARIANT ValuesStayValid
INVARIANT RoundTripEqual
PROPERTY GetIsJoin
PROPERTY GetListIsValues
PROPERTY InIsPresence
PROPERTY PresentDeletable
PROPERTY DelExact
PROPERTY CopyIndependent
PROPERTY ReadsPure
PROPERTY OrderStable
CHECK_DEADLOCK FALSE
