SPECIFICATION TraceSpec
CONSTANTS
  ReqSel = 2
  AppSel = 2
  MaxReq = 1000
  Protos = {"http"}
CONSTRAINT Report
INVARIANT PortIsNumber
INVARIANT NameHasNoPort
INVARIANT NameAndPortFromHost
INVARIANT ContentHeadersNotHttpVars
INVARIANT EveryHeaderPresent
INVARIANT PathDecoded
INVARIANT ResponseFaithful
PROPERTY PerRequest
CHECK_DEADLOCK FALSE
