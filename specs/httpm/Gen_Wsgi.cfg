SPECIFICATION GenSpec
CONSTANTS
  ReqSel = 1
  AppSel = 2
  MaxReq = 1
  Protos = {"http", "https"}
  L = 1
CONSTRAINT GenBound
CHECK_DEADLOCK FALSE
