SPECIFICATION GenSpec
CONSTANTS
  ComboSel = 2
  MaxReq = 3
  CfgSel = 2
  L = 3
CONSTRAINT GenBound
CHECK_DEADLOCK FALSE
