SPECIFICATION GenSpec
CONSTANTS
  NameSel = 1
  ValueSel = 1
  Serial = TRUE
  LineFormats = {1}
  ContFormats = {1, 3}
  BadSel = 0
  Acts = {"add", "set", "del", "get", "getlist", "in", "iter", "items", "pop", "copy", "cadd", "cset", "cdel", "cget", "parseline", "roundtrip"}
  MaxVals = 99
  MaxCVals = 99
  MaxValLen = 99
  L = 3
CONSTRAINT GenBound
CHECK_DEADLOCK FALSE
