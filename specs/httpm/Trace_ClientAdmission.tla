---------------------------- MODULE Trace_ClientAdmission ----------------------------
(* Validates schedules recorded from a real SimpleAsyncHTTPClient (scripted connection class,
   virtual time) against ClientAdmission.tla. *)
EXTENDS ClientAdmission, Json, IOUtils, TLCExt
Traces == ndJsonDeserialize(IOEnv.TRACE_FILE)
Verbose == IOEnv.TRACE_VERBOSE = "1"
VARIABLES tid, l
Ev == Traces[tid].ev
TraceInit ==
    /\ tid \in 1..Len(Traces)
    /\ l = 1
    /\ InitWith([maxc |-> Traces[tid].cfg.maxc])
IsEvent(a) == l <= Len(Ev) /\ Ev[l].a = a /\ l' = l + 1 /\ UNCHANGED tid
Bind == Proj' = Ev[l].obs
TrFetch == IsEvent("fetch") /\ Fetch(Ev[l].args[1], Ev[l].args[2]) /\ Bind
TrFinish == IsEvent("finish") /\ Finish(Ev[l].args[1], Ev[l].args[2] = 1) /\ Bind
TrAdvance == IsEvent("advance") /\ Advance(Ev[l].args[1]) /\ Bind
TraceNext == TrFetch \/ TrFinish \/ TrAdvance
TraceSpec == TraceInit /\ [][TraceNext]_<<vars, step, tid, l>>
Report == IF Verbose THEN PrintT(<<"AT", Traces[tid].id, l>>)
          ELSE (l = Len(Ev) + 1 => PrintT(<<"ACCEPT", Traces[tid].id>>))
=============================================================================
