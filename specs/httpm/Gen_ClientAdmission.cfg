SPECIFICATION GenSpec
CONSTANTS
  NF = 4
  MaxClients = {1, 2}
  Timeouts = {0, 1, 12}
  MaxAdvance = 2
  L = 5
CONSTRAINT GenBound
CHECK_DEADLOCK FALSE
