SPECIFICATION FairSpec
CONSTANTS
  NF = 4
  MaxClients = {1, 2}
  Timeouts = {0, 1, 12, 20}
  MaxAdvance = 2
VIEW View
INVARIANT TypeOK
INVARIANT AtMostMaxClients
INVARIANT NoIdleSlot
INVARIANT StartsInOrder
INVARIANT QueueInOrder
INVARIANT StartedOnce
INVARIANT CompletesOnce
INVARIANT TimedOutNeverStarted
PROPERTY Sticky
PROPERTY StartIsOldestQueued
PROPERTY AllComplete
CHECK_DEADLOCK FALSE
