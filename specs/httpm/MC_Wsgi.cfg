SPECIFICATION Spec
CONSTANTS
  ReqSel = 1
  AppSel = 1
  MaxReq = 1
  Protos = {"http", "https"}
INVARIANT PortIsNumber
INVARIANT NameHasNoPort
INVARIANT NameAndPortFromHost
INVARIANT ContentHeadersNotHttpVars
INVARIANT EveryHeaderPresent
INVARIANT PathDecoded
INVARIANT ResponseFaithful
PROPERTY PerRequest
CHECK_DEADLOCK FALSE
