---------------------------- MODULE ClientAdmission ----------------------------
(***************************************************************************)
(* Reference model of SimpleAsyncHTTPClient admission (property C09, first *)
(* half): at most max_clients fetches in progress, queued fetches start in *)
(* submission order, every fetch completes exactly once.                   *)
(*                                                                         *)
(* Fetches are numbered 1..NF in submission order.  One action = one       *)
(* public call / one connection outcome / one clock advance, followed by   *)
(* running the loop to quiescence.  Connection outcomes are scripted: the  *)
(* connection of an active fetch completes (response 200) or fails (599)   *)
(* when the environment says so.                                           *)
(***************************************************************************)
EXTENDS Integers, Sequences, FiniteSets, TLC

CONSTANTS NF,          \* number of fetches
          MaxClients,  \* set of max_clients values explored
          Timeouts,    \* set of (connect_timeout, request_timeout) pairs encoded c*10+r, 0 = none
          MaxAdvance

NoTo == 999
F == 1..NF

VARIABLES cfg,      \* [maxc]
          st,       \* st[i] \in {"idle", "queued", "active", "ok", "fail", "qtimeout"}
          q,        \* queued fetches, submission order
          rem,      \* time left before a queued fetch gives up (NoTo = never)
          starts,   \* fetches in the order their connection was started
          ncb,      \* ncb[i] = number of times fetch i's completion was delivered
          step

vars == <<cfg, st, q, rem, starts, ncb>>

Active == {i \in F : st[i] = "active"}
Proj == [st |-> st, starts |-> starts, ncb |-> ncb]
Obs(a, args) == [act |-> a, args |-> args, exp |-> Proj']

(* queue timeout = min(connect_timeout, request_timeout) skipping zeros *)
QTo(t) == LET c == t \div 10  r == t % 10 IN
          IF c = 0 /\ r = 0 THEN NoTo ELSE IF c = 0 THEN r ELSE IF r = 0 THEN c ELSE IF c < r THEN c ELSE r

InitWith(c) ==
    /\ cfg = c
    /\ st = [i \in F |-> "idle"]
    /\ q = <<>>
    /\ rem = [i \in F |-> NoTo]
    /\ starts = <<>>
    /\ ncb = [i \in F |-> 0]
    /\ step = [act |-> "init", args |-> <<>>, exp |-> [st |-> st, starts |-> starts, ncb |-> ncb]]
InitState == \E m \in MaxClients : InitWith([maxc |-> m])

(* client.fetch(): starts at once if a slot is free, else queues (with a give-up timer) *)
Fetch(i, t) ==
    /\ st[i] = "idle" /\ \A j \in F : j < i => st[j] # "idle"
    /\ IF Cardinality(Active) < cfg.maxc
         THEN /\ st' = [st EXCEPT ![i] = "active"]
              /\ starts' = Append(starts, i)
              /\ UNCHANGED <<q, rem>>
         ELSE /\ st' = [st EXCEPT ![i] = "queued"]
              /\ q' = Append(q, i)
              /\ rem' = [rem EXCEPT ![i] = QTo(t)]
              /\ UNCHANGED starts
    /\ UNCHANGED <<cfg, ncb>>
    /\ step' = Obs("fetch", <<i, t>>)

(* the connection of active fetch i ends (ok = response, ~ok = connection failure): the slot
   is released, the oldest queued fetch starts, the fetch completes *)
Finish(i, ok) ==
    /\ st[i] = "active"
    /\ IF q # <<>>
         THEN /\ st' = [st EXCEPT ![i] = IF ok THEN "ok" ELSE "fail", ![Head(q)] = "active"]
              /\ starts' = Append(starts, Head(q))
              /\ rem' = [rem EXCEPT ![Head(q)] = NoTo]
              /\ q' = Tail(q)
         ELSE /\ st' = [st EXCEPT ![i] = IF ok THEN "ok" ELSE "fail"]
              /\ UNCHANGED <<q, rem, starts>>
    /\ ncb' = [ncb EXCEPT ![i] = @ + 1]
    /\ UNCHANGED cfg
    /\ step' = Obs("finish", <<i, IF ok THEN 1 ELSE 0>>)

HasDeadline == \E i \in F : st[i] = "queued" /\ rem[i] # NoTo

(* the clock advances by d: queued fetches whose timer expires give up with a timeout error *)
Advance(d) ==
    /\ HasDeadline
    /\ LET expired == {i \in F : st[i] = "queued" /\ rem[i] # NoTo /\ rem[i] <= d} IN
       /\ st' = [i \in F |-> IF i \in expired THEN "qtimeout" ELSE st[i]]
       /\ rem' = [i \in F |-> IF i \in expired THEN NoTo
                              ELSE IF st[i] = "queued" /\ rem[i] # NoTo THEN rem[i] - d ELSE rem[i]]
       /\ q' = SelectSeq(q, LAMBDA x : x \notin expired)
       /\ ncb' = [i \in F |-> IF i \in expired THEN ncb[i] + 1 ELSE ncb[i]]
    /\ UNCHANGED <<cfg, starts>>
    /\ step' = Obs("advance", <<d>>)

Next ==
    \/ \E i \in F, t \in Timeouts : Fetch(i, t)
    \/ \E i \in F, ok \in BOOLEAN : Finish(i, ok)
    \/ \E d \in 1..MaxAdvance : Advance(d)

Spec == InitState /\ [][Next]_<<vars, step>>
FairSpec == Spec /\ WF_vars(\E i \in F, t \in Timeouts : Fetch(i, t)) /\ WF_vars(\E i \in F, ok \in BOOLEAN : Finish(i, ok))

----------------------------------------------------------------------------
(* Properties (C09, admission) *)
Done(i) == st[i] \in {"ok", "fail", "qtimeout"}
TypeOK ==
    /\ st \in [F -> {"idle", "queued", "active", "ok", "fail", "qtimeout"}]
    /\ \A k \in 1..Len(q) : st[q[k]] = "queued"
    /\ \A i \in F : st[i] = "queued" => \E k \in 1..Len(q) : q[k] = i
(* at most max_clients requests are in progress at once *)
AtMostMaxClients == Cardinality(Active) <= cfg.maxc
(* nothing waits while a slot is free *)
NoIdleSlot == q # <<>> => Cardinality(Active) = cfg.maxc
(* queued requests start in submission order *)
StartsInOrder == \A a, b \in 1..Len(starts) : a < b => starts[a] < starts[b]
QueueInOrder == \A a, b \in 1..Len(q) : a < b => q[a] < q[b]
StartedOnce == \A a, b \in 1..Len(starts) : a # b => starts[a] # starts[b]
(* every fetch completes exactly once: never twice, and exactly once when done *)
CompletesOnce == \A i \in F : ncb[i] = (IF Done(i) THEN 1 ELSE 0)
(* a fetch that gave up in the queue is never started *)
TimedOutNeverStarted == \A i \in F : st[i] = "qtimeout" => \A k \in 1..Len(starts) : starts[k] # i
(* terminal states are sticky *)
Sticky == [][\A i \in F : Done(i) => st'[i] = st[i]]_vars
(* the fetch started by a release is the oldest one still waiting *)
StartIsOldestQueued == [][\A i \in F : (st[i] = "queued" /\ st'[i] = "active") => \A j \in F : j < i => st[j] # "queued"]_vars
(* every fetch eventually completes (connections end, the environment keeps submitting) *)
AllComplete == <>(\A i \in F : Done(i))
View == vars
=============================================================================
