SPECIFICATION TraceSpec
CONSTANTS
  NameSel = 1
  ValueSel = 1
  Serial = FALSE
  LineFormats = {1}
  ContFormats = {1}
  BadSel = 0
  Acts = {"add", "set", "del", "get", "getlist", "in", "iter", "items", "pop", "copy", "cadd", "cset", "cdel", "cget", "parseline", "roundtrip"}
  MaxVals = 99
  MaxCVals = 99
  MaxValLen = 99
CONSTRAINT Report
INVARIANT TypeOK
INVARIANT CaseInsensitive
INVARIANT ValuesStayValid
INVARIANT RoundTripEqual
PROPERTY GetIsJoin
PROPERTY GetListIsValues
PROPERTY InIsPresence
PROPERTY PresentDeletable
PROPERTY DelExact
PROPERTY CopyIndependent
PROPERTY ReadsPure
PROPERTY OrderStable
CHECK_DEADLOCK FALSE
