SPECIFICATION TraceSpec
CONSTANTS
  Methods = {"GET"}
  MaxRs = {0}
  HdrSel = {0}
  Codes = {200}
  Locs = {0}
  Follows = {TRUE}
CONSTRAINT Report
INVARIANT BoundedRedirects
INVARIANT NoFollowWhenDisabled
INVARIANT CrossOriginClean
INVARIANT BodylessGetHead
PROPERTY StrippedStaysStripped
PROPERTY RewriteToGet
PROPERTY MethodKeptOtherwise
PROPERTY DoneSticky
CHECK_DEADLOCK FALSE
