---------------------------- MODULE Trace_XHeaders ----------------------------
(* Validates recorded keep-alive connections of a real HTTPServer(xheaders=True) against
   XHeaders.tla: the remote_ip / protocol each request reported must be among the values the
   specification allows for that request's own headers. *)
EXTENDS XHeaders, Json, IOUtils, TLCExt
Traces == ndJsonDeserialize(IOEnv.TRACE_FILE)
Verbose == IOEnv.TRACE_VERBOSE = "1"
VARIABLES tid, l
Ev == Traces[tid].ev
TraceInit ==
    /\ tid \in 1..Len(Traces)
    /\ l = 1
    /\ InitWith(Traces[tid].cfg)
IsEvent(a) == l <= Len(Ev) /\ Ev[l].a = a /\ l' = l + 1 /\ UNCHANGED tid
Bind == /\ Ev[l].obs.ip \in seen'.ips
        /\ Ev[l].obs.proto \in seen'.protos
        /\ Ev[l].obs.n = n'
TrRequest == IsEvent("request") /\ Request(Ev[l].args[1]) /\ Bind
TraceNext == TrRequest
TraceSpec == TraceInit /\ [][TraceNext]_<<vars, step, tid, l>>
Report == IF Verbose THEN PrintT(<<"AT", Traces[tid].id, l>>)
          ELSE (l = Len(Ev) + 1 => PrintT(<<"ACCEPT", Traces[tid].id>>))
=============================================================================
