---------------------------- MODULE Wsgi ----------------------------
(***************************************************************************)
(* Reference model of tornado.wsgi.WSGIContainer (property C47): the CGI / *)
(* WSGI environ of an accepted request, and the relation between what the  *)
(* WSGI application produced and what the client receives.                 *)
(*                                                                         *)
(* Texts are sequences of code points (bytes as latin-1).  A request is     *)
(* [method, path, query, hasHost, host, ver, hdrs, body]; hdrs is the       *)
(* sequence of <<name, value>> field lines other than Host.  An application *)
(* is [code, reason, hdrs, chunks, viaWrite].                               *)
(* Not generated: Host values whose port is not a digit string ("a:b"),     *)
(* 304 / 204 / HEAD responses with a body (framing is C02), duplicate        *)
(* Content-Type / Content-Length request headers.                           *)
(***************************************************************************)
EXTENDS HmText, TLC

CONSTANTS ReqSel,     \* 1: the full request table, 2: the reduced one (request sequences)
          AppSel,     \* 1: all applications, 2: reduced
          MaxReq,     \* requests per keep-alive connection
          Protos      \* subset of {"http", "https"}: HTTPServer(protocol=...)

VARIABLES cfg,     \* [proto]
          n,       \* requests served on the connection
          env,     \* environ the application must have seen (last request)
          resp,    \* what the client must receive (last request)
          step

vars == <<cfg, n, env, resp>>

P_a == <<47, 97>>    \* '/a'
P_root == <<47>>    \* '/'
P_sp == <<47, 97, 37, 50, 48, 98>>    \* '/a%20b'
P_41 == <<47, 37, 52, 49, 37, 50, 102, 122>>    \* '/%41%2fz'
P_bad == <<47, 37, 122, 122, 37, 52>>    \* '/%zz%4'
P_plus == <<47, 97, 43, 98>>    \* '/a+b'
P_e9 == <<47, 37, 101, 57, 37, 67, 51, 37, 65, 57>>    \* '/%e9%C3%A9'
P_raw == <<47, 233>>    \* '/é'
P_pct == <<47, 37, 50, 53, 52, 49>>    \* '/%2541'
Q_1 == <<120, 61, 49, 38, 121, 61, 37, 50, 48, 43, 122>>    \* 'x=1&y=%20+z'
H_name == <<101, 120, 97, 109, 112, 108, 101, 46, 99, 111, 109>>    \* 'example.com'
H_port == <<101, 120, 97, 109, 112, 108, 101, 46, 99, 111, 109, 58, 56, 48, 56, 48>>    \* 'example.com:8080'
H_empty == <<101, 120, 97, 109, 112, 108, 101, 46, 99, 111, 109, 58>>    \* 'example.com:'
H_v4 == <<49, 46, 50, 46, 51, 46, 52, 58, 56, 49>>    \* '1.2.3.4:81'
H_v6 == <<91, 58, 58, 49, 93>>    \* '[::1]'
H_v6p == <<91, 50, 48, 48, 49, 58, 100, 98, 56, 58, 58, 50, 93, 58, 56, 52, 52, 51>>    \* '[2001:db8::2]:8443'
H_v6e == <<91, 58, 58, 49, 93, 58>>    \* '[::1]:'
H_up == <<69, 88, 65, 77, 80, 76, 69, 46, 99, 111, 109, 58, 56, 48>>    \* 'EXAMPLE.com:80'
H_local == <<49, 50, 55, 46, 48, 46, 48, 46, 49>>    \* '127.0.0.1'
N_ct == <<67, 111, 110, 116, 101, 110, 116, 45, 84, 121, 112, 101>>    \* 'Content-Type'
N_cl == <<67, 111, 110, 116, 101, 110, 116, 45, 76, 101, 110, 103, 116, 104>>    \* 'Content-Length'
N_xfoo == <<88, 45, 70, 111, 111>>    \* 'X-Foo'
N_xfb == <<120, 45, 102, 111, 111, 45, 98, 97, 114>>    \* 'x-foo-bar'
N_acc == <<65, 99, 99, 101, 112, 116>>    \* 'Accept'
N_cookie == <<67, 111, 111, 107, 105, 101>>    \* 'Cookie'
N_srv == <<83, 101, 114, 118, 101, 114>>    \* 'Server'
N_xa == <<88, 45, 65>>    \* 'X-A'
N_xalow == <<120, 45, 97>>    \* 'x-a'
N_b == <<66>>    \* 'B'
V_form == <<97, 112, 112, 108, 105, 99, 97, 116, 105, 111, 110, 47, 120, 45, 119, 119, 119, 45, 102, 111, 114, 109, 45, 117, 114, 108, 101, 110, 99, 111, 100, 101, 100>>    \* 'application/x-www-form-urlencoded'
V_bar == <<98, 97, 114>>    \* 'bar'
V_1 == <<49>>    \* '1'
V_2 == <<50>>    \* '2'
V_3 == <<51>>    \* '3'
V_ta == <<116, 101, 120, 116, 47, 97>>    \* 'text/a'
V_tb == <<116, 101, 120, 116, 47, 98, 59, 113, 61, 48, 46, 53>>    \* 'text/b;q=0.5'
V_ck == <<107, 61, 118, 59, 32, 106, 61, 119>>    \* 'k=v; j=w'
V_plain == <<116, 101, 120, 116, 47, 112, 108, 97, 105, 110>>    \* 'text/plain'
V_mine == <<109, 105, 110, 101>>    \* 'mine'
V_e9 == <<99, 97, 102, 233>>    \* 'café'
B_form == <<98, 61, 49>>    \* 'b=1'
B_ab == <<97, 98>>    \* 'ab'
B_cd == <<99, 100>>    \* 'cd'
B_e9 == <<233, 0, 255>>    \* 'é\x00ÿ'
N_ctlow == <<99, 111, 110, 116, 101, 110, 116, 45, 116, 121, 112, 101>>    \* 'content-type'
N_clup == <<67, 79, 78, 84, 69, 78, 84, 45, 76, 69, 78, 71, 84, 72>>    \* 'CONTENT-LENGTH'
N_srvlow == <<115, 101, 114, 118, 101, 114>>    \* 'server'
R_ok == <<79, 75>>    \* 'OK'
R_nf == <<78, 111, 116, 32, 70, 111, 117, 110, 100>>    \* 'Not Found'
R_nm == <<78, 111, 116, 32, 77, 111, 100, 105, 102, 105, 101, 100>>    \* 'Not Modified'
R_custom == <<86, 101, 114, 121, 32, 67, 117, 115, 116, 111, 109, 32, 82, 101, 97, 115, 111, 110>>    \* 'Very Custom Reason'
D_ct == <<116, 101, 120, 116, 47, 104, 116, 109, 108, 59, 32, 99, 104, 97, 114, 115, 101, 116, 61, 85, 84, 70, 45, 56>>    \* 'text/html; charset=UTF-8'

----------------------------------------------------------------------------
(* the request / application tables *)
H(nm, v) == <<nm, v>>
Base == [method |-> "GET", path |-> P_a, query |-> <<>>, hasHost |-> TRUE, host |-> H_name, ver |-> "HTTP/1.1",
         hdrs |-> <<>>, body |-> <<>>]
WithBody(r, ct) == [r EXCEPT !.method = "POST", !.body = B_form,
                             !.hdrs = (IF ct THEN <<H(N_ct, V_form)>> ELSE <<>>) \o <<H(N_cl, V_3)>> \o @]
Paths == {P_a, P_root, P_sp, P_41, P_bad, P_plus, P_e9, P_raw, P_pct}
Hosts == {H_name, H_port, H_empty, H_v4, H_v6, H_v6p, H_v6e, H_up, H_local}
HdrSets == {<<>>, <<H(N_xfoo, V_bar)>>, <<H(N_xfb, V_1), H(N_cookie, V_ck)>>,
            <<H(N_acc, V_ta), H(N_xfoo, V_bar), H(N_acc, V_tb)>>,          \* two Accept lines combine with ","
            <<H(N_ct, V_plain)>>, <<H(N_xa, V_e9), H(N_xalow, V_2)>>}      \* obs-text value; same name, other case
FullReqs ==
    {[Base EXCEPT !.path = p, !.query = q, !.method = m] : p \in Paths, q \in {<<>>, Q_1}, m \in {"GET", "DELETE"}}
    \cup {[Base EXCEPT !.host = h, !.ver = v] : h \in Hosts, v \in {"HTTP/1.1", "HTTP/1.0"}}
    \cup {[Base EXCEPT !.hasHost = FALSE, !.host = <<>>, !.ver = "HTTP/1.0"]}
    \cup {[Base EXCEPT !.hdrs = hs] : hs \in HdrSets}
    \cup {WithBody([Base EXCEPT !.hdrs = hs, !.path = p], ct) : hs \in {<<>>, <<H(N_xfoo, V_bar)>>}, p \in {P_a, P_sp}, ct \in BOOLEAN}
SmallReqs == {Base, [Base EXCEPT !.path = P_sp, !.query = Q_1, !.host = H_port],
              WithBody(Base, TRUE), [Base EXCEPT !.hdrs = <<H(N_acc, V_ta), H(N_xfoo, V_bar), H(N_acc, V_tb)>>, !.host = H_v6p],
              [Base EXCEPT !.hdrs = <<H(N_ct, V_plain)>>]}
Reqs == IF ReqSel = 1 THEN FullReqs ELSE SmallReqs

App0 == [code |-> 200, reason |-> R_ok, hdrs |-> <<>>, chunks |-> <<B_ab>>, viaWrite |-> FALSE]
FullApps ==
    {[App0 EXCEPT !.chunks = c, !.viaWrite = w] : c \in {<<>>, <<B_ab>>, <<B_ab, B_cd>>, <<B_e9, <<>>, B_ab>>}, w \in BOOLEAN}
    \cup {[App0 EXCEPT !.code = 404, !.reason = R_nf], [App0 EXCEPT !.code = 200, !.reason = R_custom],
          [App0 EXCEPT !.code = 304, !.reason = R_nm, !.chunks = <<>>]}
    \cup {[App0 EXCEPT !.hdrs = hs] : hs \in {<<H(N_ct, V_plain)>>, <<H(N_cl, V_2)>>, <<H(N_srv, V_mine)>>,
                                               <<H(N_xa, V_1), H(N_b, V_2), H(N_xa, V_3)>>,
                                               <<H(N_xalow, V_1), H(N_ct, V_plain), H(N_cl, V_2), H(N_srv, V_mine)>>,
                                               (* other spellings of the default headers' names: present is present *)
                                               <<H(N_ctlow, V_plain)>>, <<H(N_clup, V_2)>>, <<H(N_srvlow, V_mine)>>,
                                               <<H(N_srvlow, V_mine), H(N_clup, V_2), H(N_ctlow, V_plain)>>}}
SmallApps == {App0, [App0 EXCEPT !.hdrs = <<H(N_xa, V_1), H(N_b, V_2), H(N_xa, V_3)>>, !.chunks = <<B_ab, B_cd>>],
              [App0 EXCEPT !.code = 404, !.reason = R_nf, !.hdrs = <<H(N_ct, V_plain)>>]}
Apps == IF AppSel = 1 THEN FullApps ELSE SmallApps

----------------------------------------------------------------------------
(* environ *)
Hex(x) == IF x >= 48 /\ x <= 57 THEN x - 48 ELSE IF x >= 65 /\ x <= 70 THEN x - 55 ELSE IF x >= 97 /\ x <= 102 THEN x - 87 ELSE 0 - 1
(* percent-decoding (once); an escape that is not % HEX HEX stays as it is; "+" is not a space in a path *)
Unquote(s) ==
    LET r == FoldLeft(LAMBDA a, i : IF a.skip > 0 THEN [a EXCEPT !.skip = @ - 1]
                                    ELSE IF s[i] = 37 /\ i + 2 <= Len(s) /\ Hex(s[i + 1]) >= 0 /\ Hex(s[i + 2]) >= 0
                                           THEN [out |-> Append(a.out, 16 * Hex(s[i + 1]) + Hex(s[i + 2])), skip |-> 2]
                                           ELSE [out |-> Append(a.out, s[i]), skip |-> 0],
                      [out |-> <<>>, skip |-> 0], [i \in 1..Len(s) |-> i])
    IN r.out

DefaultPort == IF cfg.proto = "https" THEN <<52, 52, 51>> ELSE <<56, 48>>
(* Host = uri-host [ ":" port ]; an IPv6 literal keeps its brackets (RFC 3875 server-name) *)
HostName(h) == LET i == SelectLastInSeq(h, LAMBDA x : x = 58)
                   inside == \E j \in (i + 1)..Len(h) : h[j] = 93        \* the colon belongs to the IPv6 literal
               IN IF i = 0 \/ inside THEN h ELSE SubSeq(h, 1, i - 1)
HostPortText(h) == LET i == SelectLastInSeq(h, LAMBDA x : x = 58)
                       inside == \E j \in (i + 1)..Len(h) : h[j] = 93
                   IN IF i = 0 \/ inside \/ i = Len(h) THEN DefaultPort ELSE SubSeq(h, i + 1, Len(h))
EffHost(r) == IF r.hasHost THEN r.host ELSE H_local

EnvKey(nm) == <<72, 84, 84, 80, 95>> \o [i \in 1..Len(nm) |-> IF nm[i] = 45 THEN 95 ELSE Upper(nm[i])]     \* "HTTP_" + NAME
LowName(nm) == LowerAll(nm)
AllHdrs(r) == (IF r.hasHost THEN <<H(<<72, 111, 115, 116>>, r.host)>> ELSE <<>>) \o r.hdrs
ValuesOfName(hs, ln) == LET sel == SelectSeq(hs, LAMBDA p : LowName(p[1]) = ln) IN [i \in 1..Len(sel) |-> sel[i][2]]
Opt(hs, ln) == IF ValuesOfName(hs, ln) = <<>> THEN <<>> ELSE <<JoinWith(ValuesOfName(hs, ln), <<44>>)>>
LCT == LowName(N_ct)
LCL == LowName(N_cl)
HttpVars(r) == LET hs == AllHdrs(r)
                   lns == {LowName(hs[i][1]) : i \in 1..Len(hs)} \ {LCT, LCL}
               IN {<<EnvKey(ln), JoinWith(ValuesOfName(hs, ln), <<44>>)>> : ln \in lns}

Environ(r) == [method |-> r.method, script |-> <<>>, path |-> Unquote(r.path), query |-> r.query,
               name |-> HostName(EffHost(r)), port |-> HostPortText(EffHost(r)),
               protocol |-> r.ver, scheme |-> cfg.proto,
               ctype |-> Opt(r.hdrs, LCT), clen |-> Opt(r.hdrs, LCL),
               http |-> HttpVars(r), input |-> r.body]

(* response relation *)
Body(a) == FoldLeft(LAMBDA acc, c : acc \o c, <<>>, a.chunks)
Groups(hs) == {[n |-> ln, vs |-> ValuesOfName(hs, ln)] : ln \in {LowName(hs[i][1]) : i \in 1..Len(hs)}}
Present(a, ln) == ValuesOfName(a.hdrs, ln) # <<>>
LSRV == LowName(N_srv)
MayAdd(a) == (IF a.code # 304 /\ ~Present(a, LCL) THEN {LCL} ELSE {})
             \cup (IF a.code # 304 /\ ~Present(a, LCT) THEN {LCT} ELSE {})
             \cup (IF ~Present(a, LSRV) THEN {LSRV} ELSE {})
Response(a) == [code |-> a.code, reason |-> a.reason, groups |-> Groups(a.hdrs), mayAdd |-> MayAdd(a), body |-> Body(a)]

----------------------------------------------------------------------------
NoEnv == [method |-> "", script |-> <<>>, path |-> <<>>, query |-> <<>>, name |-> <<>>, port |-> <<>>, protocol |-> "",
          scheme |-> "", ctype |-> <<>>, clen |-> <<>>, http |-> {}, input |-> <<>>]
NoResp == [code |-> 0, reason |-> <<>>, groups |-> {}, mayAdd |-> {}, body |-> <<>>]
Proj == [env |-> env, resp |-> resp, n |-> n]
Obs(a, args) == [act |-> a, args |-> args, exp |-> Proj']

InitWith(c) ==
    /\ cfg = c /\ n = 0 /\ env = NoEnv /\ resp = NoResp
    /\ step = [act |-> "init", args |-> <<>>, exp |-> [env |-> NoEnv, resp |-> NoResp, n |-> 0]]
InitState == \E p \in Protos : InitWith([proto |-> p])

(* one request on the keep-alive connection, answered by application a *)
Serve(r, a) ==
    /\ n < MaxReq
    /\ n' = n + 1
    /\ env' = Environ(r)
    /\ resp' = Response(a)
    /\ UNCHANGED cfg
    /\ step' = Obs("serve", <<r, a>>)

Next == \E r \in Reqs, a \in Apps : Serve(r, a)
Spec == InitState /\ [][Next]_<<vars, step>>

----------------------------------------------------------------------------
(* Properties (C47) *)
Served == step.act = "serve"
R0 == step.args[1]
A0 == step.args[2]
(* SERVER_PORT is a number, SERVER_NAME carries no port *)
PortIsNumber == Served => (env.port # <<>> /\ AllDigits(env.port))
NameHasNoPort == Served => (env.name # <<>> /\ (\A i \in 1..Len(env.name) : env.name[i] = 58 => env.name[1] = 91))
NameAndPortFromHost == Served => (\/ EffHost(R0) = env.name
                                  \/ EffHost(R0) = env.name \o <<58>>
                                  \/ EffHost(R0) = env.name \o <<58>> \o env.port)
(* the content headers appear only as CONTENT_TYPE / CONTENT_LENGTH *)
ContentHeadersNotHttpVars == Served => \A kv \in env.http : kv[1] \notin {EnvKey(N_ct), EnvKey(N_cl)}
(* every other request header is an HTTP_ variable *)
EveryHeaderPresent == Served => \A i \in 1..Len(AllHdrs(R0)) :
                          LowName(AllHdrs(R0)[i][1]) \in {LCT, LCL} \/ \E kv \in env.http : kv[1] = EnvKey(AllHdrs(R0)[i][1])
(* decoding never lengthens and leaves escape-free paths alone *)
PathDecoded == Served => (Len(env.path) <= Len(R0.path) /\ ((\A i \in 1..Len(R0.path) : R0.path[i] # 37) => env.path = R0.path))
(* status, headers and body of the application are passed on *)
ResponseFaithful == Served => (/\ resp.code = A0.code /\ resp.reason = A0.reason /\ resp.body = Body(A0)
                               /\ \A i \in 1..Len(A0.hdrs) : \E g \in resp.groups : g.n = LowName(A0.hdrs[i][1]) /\ InSeq(g.vs, A0.hdrs[i][2])
                               /\ \A g \in resp.groups : g.n \notin resp.mayAdd)
(* what a request sees is a function of that request alone *)
PerRequest == [][env' = Environ(step'.args[1]) /\ resp' = Response(step'.args[2])]_<<vars, step>>
View == <<vars, step>>
=============================================================================
