---------------------------- MODULE Trace_HeaderMap ----------------------------
(* Validates traces recorded from the real tornado.httputil.HTTPHeaders against HeaderMap.tla.
   One ndjson line per trace: {"id":n, "cfg":{}, "ev":[{"a":..,"args":[..],"obs":{..}}]}.
   Every event must be explained by the spec action of the same name with the logged arguments,
   and the projection of the spec state after the action must equal the logged observation.
   All invariants of HeaderMap are evaluated at every step. *)
EXTENDS HeaderMap, Json, IOUtils, TLCExt
Traces == ndJsonDeserialize(IOEnv.TRACE_FILE)
Verbose == IOEnv.TRACE_VERBOSE = "1"
VARIABLES tid, l
Ev == Traces[tid].ev
TraceInit ==
    /\ tid \in 1..Len(Traces)
    /\ l = 1
    /\ InitState
IsEvent(a) == l <= Len(Ev) /\ Ev[l].a = a /\ l' = l + 1 /\ UNCHANGED tid
Bind == Proj' = Ev[l].obs
A(i) == Ev[l].args[i]
TrAdd == IsEvent("add") /\ Add(A(1), A(2)) /\ Bind
TrSet == IsEvent("set") /\ Set(A(1), A(2)) /\ Bind
TrDel == IsEvent("del") /\ Del(A(1)) /\ Bind
TrGet == IsEvent("get") /\ Get(A(1)) /\ Bind
TrGetList == IsEvent("getlist") /\ GetList(A(1)) /\ Bind
TrIn == IsEvent("in") /\ In(A(1)) /\ Bind
TrIter == IsEvent("iter") /\ Iter /\ Bind
TrItems == IsEvent("items") /\ ItemsOp /\ Bind
TrPop == IsEvent("pop") /\ Pop(A(1)) /\ Bind
TrCopy == IsEvent("copy") /\ Copy /\ Bind
TrCAdd == IsEvent("cadd") /\ CAdd(A(1), A(2)) /\ Bind
TrCSet == IsEvent("cset") /\ CSet(A(1), A(2)) /\ Bind
TrCDel == IsEvent("cdel") /\ CDel(A(1)) /\ Bind
TrCGet == IsEvent("cget") /\ CGet(A(1)) /\ Bind
TrParseLine == IsEvent("parseline") /\ ParseLine(A(1)) /\ Bind
TrRoundTrip == IsEvent("roundtrip") /\ RoundTrip /\ Bind
TraceNext == TrAdd \/ TrSet \/ TrDel \/ TrGet \/ TrGetList \/ TrIn \/ TrIter \/ TrItems \/ TrPop \/ TrCopy
             \/ TrCAdd \/ TrCSet \/ TrCDel \/ TrCGet \/ TrParseLine \/ TrRoundTrip
TraceSpec == TraceInit /\ [][TraceNext]_<<vars, step, tid, l>>
Report == IF Verbose THEN PrintT(<<"AT", Traces[tid].id, l>>)
          ELSE (l = Len(Ev) + 1 => PrintT(<<"ACCEPT", Traces[tid].id>>))
=============================================================================
