---------------------------- MODULE Gen_Wsgi ----------------------------
EXTENDS Wsgi
CONSTANT L
VARIABLE hist
GenInit == InitState /\ hist = <<>>
GenNext == Next /\ hist' = Append(hist, step')
GenSpec == GenInit /\ [][GenNext]_<<vars, step, hist>>
GenBound == Len(hist) <= L
=============================================================================
