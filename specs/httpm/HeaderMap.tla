---------------------------- MODULE HeaderMap ----------------------------
(***************************************************************************)
(* Reference model of tornado.httputil.HTTPHeaders (property C06): an      *)
(* insertion-ordered multimap keyed by case-insensitive field name.        *)
(*                                                                         *)
(* Names, values and header lines are sequences of code points (Seq(Nat)). *)
(* m is the map under test, c an optional copy of it (copy independence).  *)
(* One action = one public call.  `ret` is the call's return value encoded *)
(* uniformly as a sequence of code-point sequences, `err` the exception     *)
(* class ("none" if the call returned).                                    *)
(*                                                                         *)
(* Deliberately not generated (meaning not settled by the property):       *)
(* a continuation line when the header of the previous line was deleted;   *)
(* lines with interior CR / LF; names or values outside the field-name /   *)
(* field-value character sets for set().                                   *)
(***************************************************************************)
EXTENDS Integers, Sequences, FiniteSets, SequencesExt, TLC

CONSTANTS NameSel,      \* selects the set of field names offered to the operations (NameSets)
          ValueSel,     \* selects the set of field values offered when Serial = FALSE (ValueSets)
          Serial,       \* TRUE: the k-th value-consuming operation uses the k-th serial value
          LineFormats,  \* subset of 1..3: spellings of a "name: value" line
          ContFormats,  \* subset of 1..3: spellings of a continuation line (3 = whitespace only)
          BadSel,       \* 0: no malformed lines offered, 1: BadLineSet
          Acts,         \* set of action names enabled in Next (generation focus)
          MaxVals, MaxCVals, MaxValLen   \* state constraint for exhaustive checking only

VARIABLES m,      \* sequence of [k |-> normalized name, vs |-> sequence of values], insertion order
          c,      \* the copy (same shape)
          hasc,   \* a copy has been taken
          last,   \* normalized name of the most recent added line (<<>> = none)
          nv,     \* number of serial values consumed
          ret, err, step

vars == <<m, c, hasc, last, nv, ret, err>>

(* cfg files cannot hold sequences, so the alphabets are selected by number *)
NameSets == <<{<<97>>, <<65>>, <<120, 45, 89>>},                                    \* a A x-Y
              {<<97>>, <<65>>, <<120, 45, 121>>, <<88, 45, 89>>, <<97, 32>>},        \* a A x-y X-Y "a " (invalid)
              {<<97>>, <<65>>},                                                      \* a A
              {<<97>>, <<65>>, <<98>>, <<120, 45, 121>>, <<88, 45, 89>>, <<120, 45, 89>>}>>   \* a A b x-y X-Y x-Y
ValueSets == <<{<<118>>},
               {<<118>>, <<119, 44, 120>>, <<32, 118>>},                            \* v  w,x  " v" (invalid for add)
               {<<118>>, <<119>>},
               {<<118>>, <<>>, <<32, 118>>}>>                                        \* v  ""  " v" (invalid for add)
BadLineSet == {<<110, 111>>, <<58, 118>>, <<13, 10>>, <<>>, <<97, 32, 58, 118>>}    \* "no" ":v" CRLF "" "a :v"
Names == NameSets[NameSel]
Values == ValueSets[ValueSel]
BadLines == IF BadSel = 1 THEN BadLineSet ELSE {}

----------------------------------------------------------------------------
(* character classes (RFC 9110) *)
WS == {32, 9}
Tchar == {33, 35, 36, 37, 38, 39, 42, 43, 45, 46, 94, 95, 96, 124, 126} \cup (48..57) \cup (65..90) \cup (97..122)
IsVchar(x) == (x >= 33 /\ x <= 126) \/ (x >= 128 /\ x <= 255)
ValidName(n) == Len(n) > 0 /\ \A i \in 1..Len(n) : n[i] \in Tchar
ValidValue(v) == \/ v = <<>>
                 \/ /\ IsVchar(v[1]) /\ IsVchar(v[Len(v)])
                    /\ \A i \in 1..Len(v) : IsVchar(v[i]) \/ v[i] \in WS

Upper(x) == IF x >= 97 /\ x <= 122 THEN x - 32 ELSE x
Lower(x) == IF x >= 65 /\ x <= 90 THEN x + 32 ELSE x
(* Http-Header-Case: first letter of every "-"-separated word upper, the rest lower *)
Norm(n) == [i \in 1..Len(n) |-> IF i = 1 \/ n[i - 1] = 45 THEN Upper(n[i]) ELSE Lower(n[i])]

----------------------------------------------------------------------------
StripEol(s) == IF Len(s) >= 1 /\ s[Len(s)] = 10
                 THEN IF Len(s) >= 2 /\ s[Len(s) - 1] = 13 THEN SubSeq(s, 1, Len(s) - 2) ELSE SubSeq(s, 1, Len(s) - 1)
                 ELSE s
Strip(s) == LET a == SelectInSeq(s, LAMBDA x : x \notin WS)
                b == SelectLastInSeq(s, LAMBDA x : x \notin WS)
            IN IF a = 0 THEN <<>> ELSE SubSeq(s, a, b)

(* multimap operations on a value mm of the shape of m *)
Idx(mm, k) == SelectInSeq(mm, LAMBDA e : e.k = k)
Has(mm, k) == Idx(mm, k) # 0
ValuesOf(mm, k) == IF Has(mm, k) THEN mm[Idx(mm, k)].vs ELSE <<>>
AddTo(mm, k, v) == IF Has(mm, k) THEN [mm EXCEPT ![Idx(mm, k)].vs = Append(@, v)]
                   ELSE Append(mm, [k |-> k, vs |-> <<v>>])
SetIn(mm, k, v) == IF Has(mm, k) THEN [mm EXCEPT ![Idx(mm, k)].vs = <<v>>]
                   ELSE Append(mm, [k |-> k, vs |-> <<v>>])
DelFrom(mm, k) == SelectSeq(mm, LAMBDA e : e.k # k)
(* a continuation line is joined to the last value with one SP; optional whitespace around a field
   value is never part of it, so the result is trimmed (matters when the old value or the
   continuation is empty) *)
ExtendLast(mm, k, part) == [mm EXCEPT ![Idx(mm, k)].vs = [@ EXCEPT ![Len(@)] = Strip(@ \o <<32>> \o part)]]
Join(vs) == IF vs = <<>> THEN <<>> ELSE FoldLeft(LAMBDA acc, v : acc \o <<44>> \o v, Head(vs), Tail(vs))
Keys(mm) == [i \in 1..Len(mm) |-> mm[i].k]
(* get_all(): (name, value) pairs in order *)
Flat(mm) == FoldLeft(LAMBDA acc, e : acc \o [i \in 1..Len(e.vs) |-> <<e.k, e.vs[i]>>], <<>>, mm)
(* items(): name, combined value, name, combined value ... *)
Items(mm) == FoldLeft(LAMBDA acc, e : acc \o <<e.k, Join(e.vs)>>, <<>>, mm)
Bool(b) == IF b THEN <<<<1>>>> ELSE <<<<0>>>>

----------------------------------------------------------------------------
(* line parsing *)
(* s = [m, last, err]: effect of one header line on a map *)
PLApply(s, line) ==
    LET t == StripEol(line) IN
    IF t = <<>> THEN [s EXCEPT !.err = "none"]
    ELSE IF t[1] \in WS
      THEN IF s.last = <<>> THEN [s EXCEPT !.err = "HTTPInputError"]
           ELSE LET part == Strip(t) IN
                IF ~ValidValue(part) THEN [s EXCEPT !.err = "HTTPInputError"]
                ELSE [s EXCEPT !.m = ExtendLast(s.m, s.last, part), !.err = "none"]
      ELSE LET cp == SelectInSeq(t, LAMBDA x : x = 58) IN
           IF cp = 0 THEN [s EXCEPT !.err = "HTTPInputError"]
           ELSE LET n == SubSeq(t, 1, cp - 1)
                    v == Strip(SubSeq(t, cp + 1, Len(t)))
                IN IF ValidName(n) /\ ValidValue(v)
                     THEN [m |-> AddTo(s.m, Norm(n), v), last |-> Norm(n), err |-> "none"]
                     ELSE [s EXCEPT !.err = "HTTPInputError"]

(* str(h): "Name: value\n" per pair;  parse(text): every LF-terminated line in turn *)
Serialize(mm) == FoldLeft(LAMBDA acc, p : acc \o p[1] \o <<58, 32>> \o p[2] \o <<10>>, <<>>, Flat(mm))
SplitLF(text) == LET r == FoldLeft(LAMBDA a, x : IF x = 10 THEN [done |-> Append(a.done, Append(a.cur, x)), cur |-> <<>>]
                                                    ELSE [a EXCEPT !.cur = Append(@, x)],
                                   [done |-> <<>>, cur |-> <<>>], text)
                 IN Append(r.done, r.cur)
ParseAll(text) == FoldLeft(LAMBDA s, line : IF s.err # "none" THEN s ELSE PLApply(s, line),
                           [m |-> <<>>, last |-> <<>>, err |-> "none"], SplitLF(text))
RoundTrips(mm) == LET r == ParseAll(Serialize(mm)) IN r.err = "none" /\ r.m = mm

FieldLine(n, v, f) == CASE f = 1 -> n \o <<58, 32>> \o v \o <<13, 10>>
                        [] f = 2 -> n \o <<58>> \o v
                        [] f = 3 -> n \o <<58, 9, 32>> \o v \o <<32, 9, 10>>
ContLine(v, f) == CASE f = 1 -> <<32>> \o v \o <<13, 10>>
                    [] f = 2 -> <<9, 32>> \o v \o <<9>>
                    [] f = 3 -> <<32, 9, 13, 10>>

----------------------------------------------------------------------------
Proj == [all |-> Flat(m), call |-> Flat(c), ret |-> ret, err |-> err]
Obs(a, args) == [act |-> a, args |-> args, exp |-> Proj']

SerialVal(k) == <<118, 48 + k>>                    \* "v0", "v1", ...
Offered == IF Serial THEN {SerialVal(nv)} ELSE Values
Consume == nv' = IF Serial THEN nv + 1 ELSE nv

On(a) == a \in Acts

InitState ==
    /\ m = <<>> /\ c = <<>> /\ hasc = FALSE /\ last = <<>> /\ nv = 0
    /\ ret = <<>> /\ err = "none"
    /\ step = [act |-> "init", args |-> <<>>, exp |-> [all |-> <<>>, call |-> <<>>, ret |-> <<>>, err |-> "none"]]

(* h.add(n, v) *)
Add(n, v) ==
    /\ On("add")
    /\ IF ValidName(n) /\ ValidValue(v)
         THEN m' = AddTo(m, Norm(n), v) /\ last' = Norm(n) /\ err' = "none"
         ELSE UNCHANGED <<m, last>> /\ err' = "HTTPInputError"
    /\ ret' = <<>> /\ Consume /\ UNCHANGED <<c, hasc>>
    /\ step' = Obs("add", <<n, v>>)

(* h[n] = v *)
Set(n, v) ==
    /\ On("set")
    /\ m' = SetIn(m, Norm(n), v)
    /\ ret' = <<>> /\ err' = "none" /\ Consume /\ UNCHANGED <<c, hasc, last>>
    /\ step' = Obs("set", <<n, v>>)

(* del h[n]: any name reported present can be deleted; KeyError iff absent *)
Del(n) ==
    /\ On("del")
    /\ IF Has(m, Norm(n)) THEN m' = DelFrom(m, Norm(n)) /\ err' = "none"
                          ELSE UNCHANGED m /\ err' = "KeyError"
    /\ ret' = <<>> /\ UNCHANGED <<c, hasc, last, nv>>
    /\ step' = Obs("del", <<n>>)

(* h[n]: values joined by commas *)
Get(n) ==
    /\ On("get")
    /\ IF Has(m, Norm(n)) THEN ret' = <<Join(ValuesOf(m, Norm(n)))>> /\ err' = "none"
                          ELSE ret' = <<>> /\ err' = "KeyError"
    /\ UNCHANGED <<m, c, hasc, last, nv>>
    /\ step' = Obs("get", <<n>>)

GetList(n) ==
    /\ On("getlist")
    /\ ret' = ValuesOf(m, Norm(n)) /\ err' = "none"
    /\ UNCHANGED <<m, c, hasc, last, nv>>
    /\ step' = Obs("getlist", <<n>>)

In(n) ==
    /\ On("in")
    /\ ret' = Bool(Has(m, Norm(n))) /\ err' = "none"
    /\ UNCHANGED <<m, c, hasc, last, nv>>
    /\ step' = Obs("in", <<n>>)

(* list(h) *)
Iter ==
    /\ On("iter")
    /\ ret' = Keys(m) /\ err' = "none"
    /\ UNCHANGED <<m, c, hasc, last, nv>>
    /\ step' = Obs("iter", <<>>)

(* list(h.items()) *)
ItemsOp ==
    /\ On("items")
    /\ ret' = Items(m) /\ err' = "none"
    /\ UNCHANGED <<m, c, hasc, last, nv>>
    /\ step' = Obs("items", <<>>)

(* v = h.pop(n): MutableMapping.pop = get then delete *)
Pop(n) ==
    /\ On("pop")
    /\ IF Has(m, Norm(n)) THEN ret' = <<Join(ValuesOf(m, Norm(n)))>> /\ m' = DelFrom(m, Norm(n)) /\ err' = "none"
                          ELSE ret' = <<>> /\ UNCHANGED m /\ err' = "KeyError"
    /\ UNCHANGED <<c, hasc, last, nv>>
    /\ step' = Obs("pop", <<n>>)

(* c = h.copy() *)
Copy ==
    /\ On("copy")
    /\ c' = m /\ hasc' = TRUE
    /\ ret' = <<>> /\ err' = "none" /\ UNCHANGED <<m, last, nv>>
    /\ step' = Obs("copy", <<>>)

CAdd(n, v) ==
    /\ On("cadd")
    /\ hasc
    /\ IF ValidName(n) /\ ValidValue(v) THEN c' = AddTo(c, Norm(n), v) /\ err' = "none"
                                        ELSE UNCHANGED c /\ err' = "HTTPInputError"
    /\ ret' = <<>> /\ Consume /\ UNCHANGED <<m, hasc, last>>
    /\ step' = Obs("cadd", <<n, v>>)

CSet(n, v) ==
    /\ On("cset")
    /\ hasc
    /\ c' = SetIn(c, Norm(n), v)
    /\ ret' = <<>> /\ err' = "none" /\ Consume /\ UNCHANGED <<m, hasc, last>>
    /\ step' = Obs("cset", <<n, v>>)

CDel(n) ==
    /\ On("cdel")
    /\ hasc
    /\ IF Has(c, Norm(n)) THEN c' = DelFrom(c, Norm(n)) /\ err' = "none"
                          ELSE UNCHANGED c /\ err' = "KeyError"
    /\ ret' = <<>> /\ UNCHANGED <<m, hasc, last, nv>>
    /\ step' = Obs("cdel", <<n>>)

CGet(n) ==
    /\ On("cget")
    /\ hasc
    /\ IF Has(c, Norm(n)) THEN ret' = <<Join(ValuesOf(c, Norm(n)))>> /\ err' = "none"
                          ELSE ret' = <<>> /\ err' = "KeyError"
    /\ UNCHANGED <<m, c, hasc, last, nv>>
    /\ step' = Obs("cget", <<n>>)

IsCont(line) == LET t == StripEol(line) IN t # <<>> /\ t[1] \in WS

(* h.parse_line(line) *)
ParseLine(line) ==
    /\ On("parseline")
    /\ IsCont(line) => (last = <<>> \/ Has(m, last))        \* see header comment
    /\ LET r == PLApply([m |-> m, last |-> last, err |-> "none"], line) IN
       m' = r.m /\ last' = r.last /\ err' = r.err
    /\ ret' = <<>> /\ Consume /\ UNCHANGED <<c, hasc>>
    /\ step' = Obs("parseline", <<line>>)

(* HTTPHeaders.parse(str(h)) compared with h *)
RoundTrip ==
    /\ On("roundtrip")
    /\ ret' = Bool(RoundTrips(m)) /\ err' = "none"
    /\ UNCHANGED <<m, c, hasc, last, nv>>
    /\ step' = Obs("roundtrip", <<>>)

GoodNames == {n \in Names : ValidName(n)}
GoodOffered == {v \in Offered : ValidValue(v)}
OfferedLines == {FieldLine(n, v, f) : n \in Names, v \in Offered, f \in LineFormats}
                \cup {ContLine(v, f) : v \in Offered, f \in ContFormats} \cup BadLines
Next ==
    \/ \E n \in Names, v \in Offered : Add(n, v)
    \/ \E n \in GoodNames, v \in GoodOffered : Set(n, v)       \* set() does not validate: see header
    \/ \E n \in Names : Del(n)
    \/ \E n \in Names : Get(n)
    \/ \E n \in Names : GetList(n)
    \/ \E n \in Names : In(n)
    \/ Iter
    \/ ItemsOp
    \/ \E n \in Names : Pop(n)
    \/ Copy
    \/ \E n \in Names, v \in Offered : CAdd(n, v)
    \/ \E n \in GoodNames, v \in GoodOffered : CSet(n, v)
    \/ \E n \in Names : CDel(n)
    \/ \E n \in Names : CGet(n)
    \/ \E line \in OfferedLines : ParseLine(line)
    \/ RoundTrip

Spec == InitState /\ [][Next]_<<vars, step>>

----------------------------------------------------------------------------
(* Properties (C06) *)
WellFormed(mm) ==
    /\ \A i, j \in 1..Len(mm) : i # j => mm[i].k # mm[j].k
    /\ \A i \in 1..Len(mm) : mm[i].k = Norm(mm[i].k) /\ Len(mm[i].vs) >= 1
TypeOK == WellFormed(m) /\ WellFormed(c) /\ (last = <<>> \/ last = Norm(last))

(* names differing only in case denote the same entry *)
CaseInsensitive == \A n1, n2 \in Names : Norm(n1) = Norm(n2) =>
                       (Has(m, Norm(n1)) <=> Has(m, Norm(n2))) /\ ValuesOf(m, Norm(n1)) = ValuesOf(m, Norm(n2))

(* reading a name returns its values joined by commas *)
GetIsJoin == [][(step'.act = "get" /\ err' = "none") => ret' = <<Join(ValuesOf(m, Norm(step'.args[1])))>>]_<<vars, step>>
GetListIsValues == [][step'.act = "getlist" => ret' = ValuesOf(m, Norm(step'.args[1]))]_<<vars, step>>
InIsPresence == [][step'.act = "in" => ret' = Bool(\E i \in 1..Len(m) : m[i].k = Norm(step'.args[1]))]_<<vars, step>>

(* values offered are valid field values, so every stored value stays one ... *)
StoredValid(mm) == \A i \in 1..Len(mm) : \A j \in 1..Len(mm[i].vs) : ValidValue(mm[i].vs[j])
ValuesStayValid == StoredValid(m) /\ StoredValid(c)
(* ... and serializing then parsing yields an equal map *)
RoundTripEqual == RoundTrips(m) /\ RoundTrips(c)

(* any name reported present can be deleted *)
PresentDeletable == [][(step'.act = "del" /\ Has(m, Norm(step'.args[1]))) =>
                          (err' = "none" /\ ~Has(m', Norm(step'.args[1])))]_<<vars, step>>
(* deletion removes exactly that entry and keeps the order of the others *)
DelExact == [][step'.act = "del" => m' = SelectSeq(m, LAMBDA e : e.k # Norm(step'.args[1]))]_<<vars, step>>
(* copies are independent *)
CopyIndependent == [][/\ (step'.act \in {"add", "set", "del", "pop", "parseline"} => c' = c)
                      /\ (step'.act \in {"cadd", "cset", "cdel"} => m' = m)
                      /\ (step'.act = "copy" => c' = m /\ m' = m)]_<<vars, step>>
(* reads do not change the map; a failed call changes nothing *)
ReadsPure == [][(step'.act \in {"get", "getlist", "in", "iter", "items", "roundtrip", "cget"} \/ err' # "none")
                    => (m' = m /\ c' = c)]_<<vars, step>>
(* insertion order: surviving keys keep their relative order, new keys go to the end *)
OrderStable == [][\A i, j \in 1..Len(m) : (i < j /\ Has(m', m[i].k) /\ Has(m', m[j].k)) => Idx(m', m[i].k) < Idx(m', m[j].k)]_<<vars, step>>

NVals(mm) == FoldLeft(LAMBDA a, e : a + Len(e.vs), 0, mm)
ShortVals(mm) == \A i \in 1..Len(mm) : \A j \in 1..Len(mm[i].vs) : Len(mm[i].vs[j]) <= MaxValLen
StateBound == NVals(m) <= MaxVals /\ NVals(c) <= MaxCVals /\ ShortVals(m) /\ ShortVals(c)
View == <<m, c, hasc, last>>
=============================================================================
