SPECIFICATION Spec
CONSTANTS
  ComboSel = 1
  MaxReq = 2
  CfgSel = 1
INVARIANT IpNumericOrSocket
INVARIANT IpFromOwnHeaders
INVARIANT RealIpPrecedence
INVARIANT RightmostUntrusted
INVARIANT ProtoValid
INVARIANT NoHeadersSocketValues
PROPERTY NoLeak
CHECK_DEADLOCK FALSE
