SPECIFICATION TraceSpec
CONSTANTS
  NF = 30
  MaxClients = {1}
  Timeouts = {0}
  MaxAdvance = 1
CONSTRAINT Report
INVARIANT TypeOK
INVARIANT AtMostMaxClients
INVARIANT NoIdleSlot
INVARIANT StartsInOrder
INVARIANT QueueInOrder
INVARIANT StartedOnce
INVARIANT CompletesOnce
INVARIANT TimedOutNeverStarted
PROPERTY Sticky
PROPERTY StartIsOldestQueued
CHECK_DEADLOCK FALSE
