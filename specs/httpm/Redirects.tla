---------------------------- MODULE Redirects ----------------------------
(***************************************************************************)
(* Reference model of redirect handling in SimpleAsyncHTTPClient           *)
(* (property C09, second half).  One fetch of http://[u:p@]a.test/p0; the  *)
(* environment (a fake server) answers each hop with (status, Location).   *)
(* The state is the request the client has on the wire; the step           *)
(* observation is either the next request received by the server or the    *)
(* final status delivered to the caller.                                   *)
(*                                                                         *)
(* Location values are structural (harness renders them):                  *)
(*   0 none  1 "/pK" (relative)  2 "http://a.test/pK"  3 "http://b.test/pK"*)
(*   4 "http://a.test:8080/pK"  5 "https://a.test/pK"  6 "//b.test/pK"     *)
(*   7 "https://b.test:8443/pK"  8 "pK" (relative-path reference)          *)
(* cfg.hdr = 100*A + 10*C + K: A user Authorization values (2 = two        *)
(* add()s), C Cookie values, K credentials (0 none, 1 in the URL, 2 by     *)
(* auth_username/auth_password).                                           *)
(* Not generated: an absolute same-origin Location (2) when the original   *)
(* URL carries credentials (the property allows keeping or dropping them), *)
(* Location values with their own userinfo, hosts differing only in case,  *)
(* explicit default ports.                                                 *)
(***************************************************************************)
EXTENDS Integers, Sequences, FiniteSets, TLC

CONSTANTS Methods, MaxRs, HdrSel, Codes, Locs, Follows

VARIABLES cfg,     \* [method, maxr, hdr, follow]
          cur,     \* the request on the wire
          left,    \* redirects still allowed
          hops,    \* redirects followed so far
          done,    \* 0 while pending, else the status delivered to the caller
          step

vars == <<cfg, cur, left, hops, done>>

RedirectCodes == {301, 302, 303, 307, 308}
NA(c) == c.hdr \div 100
NC(c) == (c.hdr \div 10) % 10
Creds(c) == c.hdr % 10

HasBody(meth) == meth \in {"POST", "PUT", "PATCH"}
Orig(c) == [scheme |-> "http", host |-> "a.test", port |-> 0, path |-> 0, method |-> c.method, body |-> HasBody(c.method),
            nA |-> NA(c), nC |-> NC(c), creds |-> Creds(c)]

(* what the server must receive for request r *)
Wire(r) == [ssl |-> r.scheme = "https", host |-> r.host,
            port |-> IF r.port # 0 THEN r.port ELSE IF r.scheme = "https" THEN 443 ELSE 80,
            hostport |-> r.port, method |-> r.method, path |-> r.path,
            authz |-> IF r.creds # 0 THEN <<"basic">> ELSE SubSeq(<<"user1", "user2">>, 1, r.nA),
            cookies |-> SubSeq(<<"c1", "c2">>, 1, r.nC),
            body |-> r.body, clen |-> r.body, ctype |-> (r.method = "POST")]
NoReq == [ssl |-> FALSE, host |-> "", port |-> 0, hostport |-> 0, method |-> "", path |-> 0, authz |-> <<>>, cookies |-> <<>>,
          body |-> FALSE, clen |-> FALSE, ctype |-> FALSE]

Proj == [done |-> done, hops |-> hops, req |-> IF done = 0 THEN Wire(cur) ELSE NoReq]
Obs(a, args) == [act |-> a, args |-> args, exp |-> Proj']

(* target of a Location value seen from request r *)
Target(r, loc) == CASE loc = 1 -> [scheme |-> r.scheme, host |-> r.host, port |-> r.port]
                    [] loc = 2 -> [scheme |-> "http", host |-> "a.test", port |-> 0]
                    [] loc = 3 -> [scheme |-> "http", host |-> "b.test", port |-> 0]
                    [] loc = 4 -> [scheme |-> "http", host |-> "a.test", port |-> 8080]
                    [] loc = 5 -> [scheme |-> "https", host |-> "a.test", port |-> 0]
                    [] loc = 6 -> [scheme |-> r.scheme, host |-> "b.test", port |-> 0]
                    [] loc = 7 -> [scheme |-> "https", host |-> "b.test", port |-> 8443]
                    [] loc = 8 -> [scheme |-> r.scheme, host |-> r.host, port |-> r.port]
OriginOf(r) == [scheme |-> r.scheme, host |-> r.host, port |-> r.port]
Origin0 == [scheme |-> "http", host |-> "a.test", port |-> 0]

(* a 303 to a non-HEAD request and a 301/302 to a POST become bodiless GETs *)
ToGet(code, meth) == (code = 303 /\ meth # "HEAD") \/ (code \in {301, 302} /\ meth = "POST")

NextReq(r, code, loc) ==
    LET t == Target(r, loc)
        cross == t # OriginOf(r) \/ t # Origin0      \* leaves the origin the credentials were meant for
        m == IF ToGet(code, r.method) THEN "GET" ELSE r.method
    IN [scheme |-> t.scheme, host |-> t.host, port |-> t.port, path |-> r.path + 1,
        method |-> m, body |-> IF ToGet(code, r.method) THEN FALSE ELSE r.body,
        nA |-> IF cross THEN 0 ELSE r.nA,
        nC |-> IF cross THEN 0 ELSE r.nC,
        (* URL credentials survive only a relative redirect inside the origin; keyword credentials
           any redirect inside the origin *)
        creds |-> IF cross THEN 0 ELSE IF r.creds = 1 /\ loc \notin {1, 8} THEN 0 ELSE r.creds]

InitWith(c) ==
    /\ cfg = c /\ cur = Orig(c) /\ left = c.maxr /\ hops = 0 /\ done = 0
    /\ step = [act |-> "fetch", args |-> <<>>, exp |-> [done |-> 0, hops |-> 0, req |-> Wire(Orig(c))]]
InitState == \E m \in Methods, r \in MaxRs, h \in HdrSel, f \in Follows :
                 InitWith([method |-> m, maxr |-> r, hdr |-> h, follow |-> f])

Generated(code, loc) == ~(loc = 2 /\ cur.creds = 1)

(* the server answers the request on the wire *)
Respond(code, loc) ==
    /\ done = 0
    /\ Generated(code, loc)
    /\ IF cfg.follow /\ code \in RedirectCodes /\ loc # 0 /\ left > 0
         THEN /\ cur' = NextReq(cur, code, loc)
              /\ left' = left - 1 /\ hops' = hops + 1
              /\ UNCHANGED done
         ELSE /\ done' = code
              /\ UNCHANGED <<cur, left, hops>>
    /\ UNCHANGED cfg
    /\ step' = Obs("respond", <<code, loc>>)

(* the server closes the connection without answering: the fetch fails (599) *)
Drop ==
    /\ done = 0 /\ done' = 599
    /\ UNCHANGED <<cfg, cur, left, hops>>
    /\ step' = Obs("drop", <<>>)

(* the request timeout of the hop on the wire expires: the fetch fails (599) *)
Timeout ==
    /\ done = 0 /\ done' = 599
    /\ UNCHANGED <<cfg, cur, left, hops>>
    /\ step' = Obs("timeout", <<>>)

Next == (\E code \in Codes, loc \in Locs : Respond(code, loc)) \/ Drop \/ Timeout
Spec == InitState /\ [][Next]_<<vars, step>>

----------------------------------------------------------------------------
(* Properties (C09, redirects) *)
(* redirects are followed at most max_redirects times *)
BoundedRedirects == hops <= cfg.maxr /\ hops + left = cfg.maxr
NoFollowWhenDisabled == ~cfg.follow => hops = 0
(* a request to another scheme, host or port than the original never carries the original
   Authorization header, Cookie headers or URL credentials *)
CrossOriginClean == (done = 0 /\ OriginOf(cur) # Origin0) => (Wire(cur).authz = <<>> /\ Wire(cur).cookies = <<>> /\ cur.creds = 0)
(* once stripped they never come back *)
StrippedStaysStripped == [][(cur.nA = 0 => cur'.nA = 0) /\ (cur.nC = 0 => cur'.nC = 0) /\ (cur.creds = 0 => cur'.creds = 0)]_vars
(* method rewriting *)
RewriteToGet == [][(hops' = hops + 1 /\ ToGet(step'.args[1], cur.method)) => (cur'.method = "GET" /\ ~cur'.body)]_<<vars, step>>
MethodKeptOtherwise == [][(hops' = hops + 1 /\ ~ToGet(step'.args[1], cur.method)) => (cur'.method = cur.method /\ cur'.body = cur.body)]_<<vars, step>>
BodylessGetHead == (done = 0 /\ cur.method \in {"GET", "HEAD"}) => ~cur.body
(* completion is final *)
DoneSticky == [][done # 0 => UNCHANGED vars]_vars
View == vars
=============================================================================
