---------------------------- MODULE Trace_Redirects ----------------------------
(* Validates redirect chains recorded from a real SimpleAsyncHTTPClient (real _HTTPConnection
   over an in-memory TCP client; the fake server records each hop's request bytes) against
   Redirects.tla. *)
EXTENDS Redirects, Json, IOUtils, TLCExt
Traces == ndJsonDeserialize(IOEnv.TRACE_FILE)
Verbose == IOEnv.TRACE_VERBOSE = "1"
VARIABLES tid, l
Ev == Traces[tid].ev
TraceInit ==
    /\ tid \in 1..Len(Traces)
    /\ l = 1
    /\ InitWith(Traces[tid].cfg)
IsEvent(a) == l <= Len(Ev) /\ Ev[l].a = a /\ l' = l + 1 /\ UNCHANGED tid
Bind == Proj' = Ev[l].obs
(* the first event carries the observation of the initial request *)
TrFetch == IsEvent("fetch") /\ UNCHANGED <<vars, step>> /\ Proj = Ev[l].obs
TrRespond == IsEvent("respond") /\ Respond(Ev[l].args[1], Ev[l].args[2]) /\ Bind
TrDrop == IsEvent("drop") /\ Drop /\ Bind
TrTimeout == IsEvent("timeout") /\ Timeout /\ Bind
TraceNext == TrFetch \/ TrRespond \/ TrDrop \/ TrTimeout
TraceSpec == TraceInit /\ [][TraceNext]_<<vars, step, tid, l>>
Report == IF Verbose THEN PrintT(<<"AT", Traces[tid].id, l>>)
          ELSE (l = Len(Ev) + 1 => PrintT(<<"ACCEPT", Traces[tid].id>>))
=============================================================================
