SPECIFICATION Spec
CONSTANTS
  Masks = {1, 3}
  Ts = {5, 1234567}
  EditBytes = {48, 102, 103, 124, 50}
  ArbAlpha = {50, 124, 48, 97, 122, 55}
  ArbTokLen = 3
  ArbPairLen = 2
  Carriers = {"form", "xsrfheader", "csrfheader"}
  Handlers = {"plain", "stream"}
  Methods = {"POST", "PUT", "DELETE", "PATCH", "GET", "HEAD", "OPTIONS"}
INVARIANT IssuedAccepted
INVARIANT OtherRejected
INVARIANT AcceptSound
INVARIANT EmptyRejected
INVARIANT StatusOK
INVARIANT SafeMethods
INVARIANT RenderedAccepted
CHECK_DEADLOCK FALSE
