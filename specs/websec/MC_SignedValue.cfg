SPECIFICATION Spec
CONSTANTS
  Names <- NamesA
  Values <- ValuesA
  Times = {1, 1234567}
  Versions = {1, 2}
  SignCfgs = {1, 3}
  SignKvs = {0, 1}
  DecCfgs = {1, 2, 3, 4}
  MaxAges = {0, 31}
  MinVersions = {1, 2}
  EditBytes = {48, 49, 124, 58, 97, 61, 45, 46}
  SigPos = {1, 2, 8}
  ShiftFwd = 4
  ShiftBack = 2
  ArbAlpha = {48, 49, 50, 124, 58, 97, 61}
  ArbLen = 4
  Modes = {"tok", "arb"}
  LongReps = {}
  LongLens = {}
  W1 = 8
  W2 = 8
INVARIANT Totality
INVARIANT RoundTrip
INVARIANT NoForgeryV2
INVARIANT V1KeyBinding
INVARIANT V1SingleEditSameName
CHECK_DEADLOCK FALSE
